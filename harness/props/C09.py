"""C09 — zones survive write-then-read as text; equivalent zone-file spellings agree.

Correspondence: dns.tokenizer / dns.ttl / dns.grange / dns.zonefile.Reader / Zone.to_styled_file (working tree)
vs lean/Model/Tokenizer.lean + lean/Model/ZoneFile.lean through the driver (token streams, loaded zones, written text).
Oracle on the implementation: write-then-read equality over generated zones (many record types) under every lossless
style knob, relativize on/off; equivalent re-spellings of the same entries load to equal zones; $GENERATE vs its
expansion; out-of-zone records ignored; CNAME exclusivity after every successful load; layout independence of tokens.
"""
import glob
import json
import os

import dns.exception
import dns.name
import dns.node
import dns.rdata
import dns.rdataclass
import dns.rdataset
import dns.rdatatype
import dns.tokenizer
import dns.ttl
import dns.grange
import dns.zone
import dns.zonefile

from harness.core import Ctx, enc_labels, enc_name, hx, VERIF, Stalled

RULE = (
    "cases come from one SplitMix64 state: tokenizer soups and op scripts over an alphabet of delimiters/escapes; "
    "layouts (parentheses, newlines, comments, tabs) of token lists; TTL / range / int / $GENERATE-modifier strings around "
    "their decision points; zone files rendered from entry lists with random spellings (inherited/explicit owner, TTL, "
    "class, either order, $ORIGIN-relative/absolute, $TTL, $GENERATE, multi-line, comments, generic syntax) plus a mutated "
    "malformed stream; zones of 2-30 names x 1-4 rdatasets over ~40 record types written under pairwise-covering "
    "(quick) or full-product (thorough, small zone) lossless styles with relativize on/off; a case is non-trivial if its "
    "key (kind + inputs) is new"
)
TRUSTED_BASE = [
    "Python str/int/dict semantics; re (the three $GENERATE modifier patterns are re-implemented in the model); "
    "binascii.hexlify/unhexlify as inverse hex codecs",
    "per-type RDATA text codecs other than A/NS/CNAME/PTR/MX/TXT/SOA/generic are the C05 interface: each generated rdata "
    "is first checked to round-trip alone under the same rdata style, and is dropped (counted) otherwise",
]
ASSUMPTIONS = [
    "$UNICODE/IDNA, force_* parameters of Reader (read_rrsets), non-IN zone classes and code points >= 0x80 "
    "in zone text are outside the model; $INCLUDE is modelled with the file system as a finite map name -> text (the "
    "harness writes the files to a scratch directory under the system temp dir; a missing file is an OSError on both sides), "
    "include trees up to 16 openings per file (model fuel)",
    "lossless style set = sorted, want_origin, default_ttl, deduplicate_names, name_just <= 0, ttl/rdclass/rdtype "
    "justification of either sign, base64/hex chunk size and space separators, want_generic, want_comments, omit_rdclass "
    "(zone class), origin/relativize of the name style; excluded by name: omit_ttl, truncate_crypto, override_rdclass, "
    "omit_final_dot, first_name_is_duplicate, right justification of the owner column, nl other than LF",
    "empty nodes / empty rdatasets and comments containing a newline are degenerate values outside the round-trip claim; "
    "the model's zone equality includes RDATA comments, so read_write_lossless is stated against the zone with the comments the "
    "text carries (keptZone); the library's Zone.__eq__ ignores comments",
    "the tokenizer's one-slot character unget buffer is represented as push-back on the unread input",
]

IN = dns.rdataclass.IN
MODELLED = {1, 2, 5, 6, 12, 15, 16}


# ------------------------------------------------------------------------------------------------
# canonical lines of the implementation
# ------------------------------------------------------------------------------------------------
def l1(s: str) -> bytes:
    return s.encode("latin-1")


def err_family(e: BaseException) -> str:
    if isinstance(e, dns.exception.SyntaxError):
        return "SyntaxError"
    if isinstance(e, dns.exception.DNSException):
        return type(e).__name__
    if isinstance(e, KeyError):
        return "KeyError"
    if isinstance(e, ValueError):
        return "ValueError"
    return "FOREIGN " + type(e).__name__


def show_token(t) -> str:
    v = t.value if isinstance(t.value, str) else ""
    c = "~" if t.comment is None else hx(l1(t.comment))
    return f"T{t.ttype}:{hx(l1(v))}:{1 if t.has_escape else 0}:{c}"


def impl_tok_script(text: str, ops):
    tok = dns.tokenizer.Tokenizer(text)
    out = []
    last = None
    for op in ops:
        if op == "u":
            if last is None:
                out.append("noop")
                break
            try:
                tok.unget(last)
                out.append("U")
            except dns.exception.DNSException as e:
                out.append("E" + type(e).__name__)
                break
        elif op[0] == "g":
            try:
                last = tok.get(op[1] == "1", op[2] == "1")
                out.append(show_token(last))
            except dns.exception.DNSException as e:
                out.append("E" + type(e).__name__)
                break
        elif op[0] == "a":
            ok = True
            for _ in range(len(text) + 8):
                try:
                    last = tok.get(op[1] == "1", op[2] == "1")
                except dns.exception.DNSException as e:
                    out.append("E" + type(e).__name__)
                    ok = False
                    break
                out.append(show_token(last))
                if last.is_eof():
                    break
            if not ok:
                break
        elif op == "ws":
            out.append(f"W{tok.skip_whitespace()}")
        else:
            out.append("bad")
            break
    return " ".join(out)


def tokens_of(text: str):
    """(ttype, value) list up to EOF, or an error name"""
    tok = dns.tokenizer.Tokenizer(text)
    out = []
    for _ in range(len(text) + 8):
        try:
            t = tok.get()
        except dns.exception.DNSException as e:
            return out, type(e).__name__
        out.append((t.ttype, t.value))
        if t.is_eof():
            break
    return out, None


def impl_unesc(text: str) -> str:
    try:
        t = dns.tokenizer.Tokenizer(text).get()
    except dns.exception.DNSException as e:
        return "err " + type(e).__name__

    def one(f, conv):
        try:
            return "ok " + hx(conv(f().value))
        except dns.exception.DNSException as e:
            return "err " + type(e).__name__

    return one(t.unescape, lambda v: l1(v)) + " | " + one(t.unescape_to_bytes, lambda v: bytes(v))


def impl_ttl(text: str) -> str:
    try:
        return f"ok {dns.ttl.from_text(text)}"
    except dns.ttl.BadTTL:
        return "err BadTTL"
    except Stalled:
        raise
    except BaseException as e:
        return "FOREIGN " + type(e).__name__


def impl_grange(text: str) -> str:
    try:
        a, b, c = dns.grange.from_text(text)
        return f"ok {a} {b} {c}"
    except dns.exception.SyntaxError:
        return "err SyntaxError"
    except ValueError:
        return "err ValueError"
    except AssertionError:
        return "err AssertionError"
    except Stalled:
        raise
    except BaseException as e:
        return "FOREIGN " + type(e).__name__


def impl_int(text: str) -> str:
    try:
        return f"ok {int(text, 10)}"
    except ValueError:
        return "err ValueError"


def impl_modify(text: str) -> str:
    try:
        mod, sign, off, width, base = dns.zonefile.Reader._parse_modify(None, text)
        return f"ok {hx(l1(mod))} {ord(sign)} {off} {width} {ord(base)}"
    except dns.exception.SyntaxError:
        return "err SyntaxError"
    except Stalled:
        raise
    except BaseException as e:
        return "FOREIGN " + type(e).__name__


def dump_rd(rd):
    t = int(rd.rdtype)
    c = "~" if rd.rdcomment is None else hx(l1(rd.rdcomment))
    if isinstance(rd, dns.rdata.GenericRdata):
        body = "g" + hx(rd.data)
    elif t == 1:
        body = "a" + hx(bytes(int(x) for x in rd.address.split(".")))
    elif t in (2, 5, 12):
        body = "n" + enc_name(rd.target)
    elif t == 15:
        body = f"m{rd.preference}_{enc_name(rd.exchange)}"
    elif t == 16:
        body = "t" + "_".join(hx(s) for s in rd.strings)
    elif t == 6:
        body = f"s{enc_name(rd.mname)}_{enc_name(rd.rname)}_{rd.serial}_{rd.refresh}_{rd.retry}_{rd.expire}_{rd.minimum}"
    else:
        return None
    return body + "#" + c


def dump_zone(z):
    """canonical dump in the driver's syntax, or None when a type outside the model occurs"""
    nodes = []
    for name, node in z.nodes.items():
        rdss = []
        for rds in node.rdatasets:
            if int(rds.covers) != 0:
                return None
            rrs = [dump_rd(rd) for rd in rds]
            if any(r is None for r in rrs):
                return None
            rdss.append(f"{int(rds.rdtype)}.{rds.ttl}." + "&".join(rrs))
        nodes.append(enc_name(name) + "=" + "+".join(rdss))
    return "/".join(nodes) if nodes else "empty"


def opt_name(labels):
    return "none" if labels is None else enc_labels(labels)


def mk_name(labels):
    return None if labels is None else dns.name.Name(labels)


_WORD = None
_UNMODELLED_CACHE = {}


def mentions_unmodelled(text: str) -> bool:
    """over-approximation: does some word of the text name an implemented record type (or directive) that the model
    does not cover?  Such texts are not compared with the model (the oracle still runs on them)."""
    global _WORD
    import re
    if _WORD is None:
        _WORD = re.compile(r"[A-Za-z0-9_$-]+")
    for w in set(_WORD.findall(text)):
        u = w.upper()
        r = _UNMODELLED_CACHE.get(u)
        if r is None:
            r = False
            if u.startswith("$UNICODE"):
                r = True
            else:
                try:
                    t = dns.rdatatype.from_text(u)
                    if int(t) not in MODELLED and dns.rdata.get_rdata_class(IN, t) is not dns.rdata.GenericRdata:
                        r = True
                except Exception:
                    r = False
            _UNMODELLED_CACHE[u] = r
        if r:
            return True
    return False


_VARIANT = {}


def variant():
    """Which variant of the two D08 decision points does the imported code implement?  Learnt by replaying the
    witnesses (DESIGN §6): the model is then asked for *that* variant everywhere.
    wfix: 0 = rd.to_generic() (as shipped), 1 = rd.to_generic(style.origin), 2 = + Zone.to_styled_file supplies the origin;
    gfix: generic (\\#) text of a known type is re-encoded with the relativization origin (repaired) or without (as shipped)."""
    if _VARIANT:
        return _VARIANT
    O = dns.name.from_text("example.")
    z = dns.zone.Zone(O, IN, relativize=True)
    z.find_rdataset(dns.name.empty, "NS", create=True).add(dns.rdata.from_text(IN, "NS", "ns1", origin=O, relativize=True), 300)
    wfix = 0
    try:
        z.to_styled_text(dns.zone.ZoneStyle(want_generic=True, origin=O, relativize=True))
        wfix = 1
        z.to_styled_text(dns.zone.ZoneStyle(want_generic=True))
        wfix = 2
    except dns.name.NeedAbsoluteNameOrOrigin:
        pass
    gfix = 0
    try:
        rd = dns.rdata.from_text(IN, "NS", "\\# 13 036e7331076578616d706c6500", origin=O, relativize=True, relativize_to=O)
        if rd.target == dns.name.Name([b"ns1"]):
            gfix = 1
    except dns.exception.SyntaxError:
        pass
    _VARIANT.update(wfix=wfix, gfix=gfix)
    return _VARIANT


def impl_read(origin, rel, chk, text):
    try:
        z = dns.zone.from_text(text, origin=mk_name(origin), relativize=rel, check_origin=chk)
    except Stalled:
        raise
    except BaseException as e:
        return "err " + err_family(e), None
    d = dump_zone(z)
    if d is None:
        return None, z
    return f"ok origin={'none' if z.origin is None else enc_name(z.origin)} {d}", z


# ------------------------------------------------------------------------------------------------
# styles
# ------------------------------------------------------------------------------------------------
STYLE_KEYS = {  # model token -> ZoneStyle field
    "sorted": "sorted", "wo": "want_origin", "dttl": "default_ttl", "dedup": "deduplicate_names",
    "fnd": "first_name_is_duplicate", "nj": "name_just", "tj": "ttl_just", "cj": "rdclass_just", "yj": "rdtype_just",
    "gen": "want_generic", "com": "want_comments", "oc": "omit_rdclass", "ot": "omit_ttl", "sr": "relativize",
    "hc": "hex_chunk_size", "hs": "hex_chunk_separator", "bc": "base64_chunk_size", "bs": "base64_chunk_separator",
}


def mk_style(st: dict, origin):
    """st: dict of model tokens; 'so' in {'none','zone'}"""
    kw = {}
    for k, v in st.items():
        if k == "so":
            kw["origin"] = origin if v == "zone" else None
        else:
            kw[STYLE_KEYS[k]] = v
    kw["nl"] = "\n"
    return dns.zone.ZoneStyle(**kw)


def style_tokens(st: dict, origin_labels):
    out = []
    for k, v in sorted(st.items()):
        if k in ("bc", "bs"):
            continue  # no base64 type in the model
        if k == "so":
            out.append("so=" + ("none" if v != "zone" or origin_labels is None else enc_labels(origin_labels)))
        elif k == "dttl":
            out.append("dttl=" + ("none" if v is None else str(v)))
        elif k == "hs":
            out.append("hs=" + hx(l1(v)))
        elif isinstance(v, bool):
            out.append(f"{k}={1 if v else 0}")
        else:
            out.append(f"{k}={v}")
    return out


KNOBS = [
    ("sorted", [True, False]),
    ("wo", [False, True]),
    ("dttl", [None, "zone", 12345]),
    ("dedup", [False, True]),
    ("nj", [0, -8, -40]),
    ("tj", [0, -7, 9]),
    ("cj", [0, -5, 4]),
    ("yj", [0, -8, 10]),
    ("gen", [False, False, True]),
    ("com", [False, True]),
    ("oc", [False, True]),
    ("so", ["none", "zone"]),
    ("sr", [False, True]),
    ("hc", [128, 0, 2, 16]),
    ("hs", [" ", "  "]),
    ("bc", [32, 0, 4, 60]),
    ("bs", [" ", "   "]),
]


def pairwise(rng, knobs):
    """greedy pairwise covering array over the knob values"""
    need = set()
    for i in range(len(knobs)):
        for j in range(i + 1, len(knobs)):
            for a in range(len(knobs[i][1])):
                for b in range(len(knobs[j][1])):
                    need.add((i, a, j, b))
    rows = []
    while need:
        best, bestc = None, -1
        for _ in range(24):
            row = [rng.below(len(k[1])) for k in knobs]
            # seed with one needed pair
            i, a, j, b = next(iter(need)) if rng.chance(1, 2) else rng.choice(sorted(need)[:50])
            row[i], row[j] = a, b
            c = sum(1 for x in range(len(knobs)) for y in range(x + 1, len(knobs)) if (x, row[x], y, row[y]) in need)
            if c > bestc:
                best, bestc = row, c
        rows.append(best)
        for x in range(len(knobs)):
            for y in range(x + 1, len(knobs)):
                need.discard((x, best[x], y, best[y]))
    return [{knobs[i][0]: knobs[i][1][v] for i, v in enumerate(r)} for r in rows]


# ------------------------------------------------------------------------------------------------
# generators: names, rdata
# ------------------------------------------------------------------------------------------------
LABEL_POOL = [b"a", b"b", b"www", b"ns1", b"ns2", b"mail", b"host", b"x-1", b"*", b"_tcp", b"_sip", b"A", b"WWW", b"0", b"9z",
              b"a b", b"a.b", b'q"t', b"s;c", b"p(r", b"p)r", b"at@", b"$d", b"b\\s", b"\x00", b"\x7f\xff", b"tab\there", b"nl\nx",
              b"longlabel-" + b"x" * 40]
SIMPLE_LABELS = [b"a", b"b", b"c", b"www", b"ns1", b"ns2", b"mail", b"host", b"ftp", b"db", b"x1", b"y2", b"A", b"Www"]
ORIGINS = [[b"example", b""], [b"EXAMPLE", b"com", b""], [b"sub", b"example", b"org", b""], [b""], [b"a b", b"test", b""]]


def gen_rel_labels(rng, simple=False, maxl=3):
    pool = SIMPLE_LABELS if simple else (LABEL_POOL if rng.chance(1, 3) else SIMPLE_LABELS)
    k = rng.choice([0, 1, 1, 1, 2, 2, 3][: 4 + maxl])
    return [rng.choice(pool) for _ in range(k)]


def name_text(labels) -> str:
    return dns.name.Name(labels).to_text()


FOREIGN_ONLY = [False]   # generator switch: embedded names only outside the origin (exercises the generic path for real)


def gen_target(rng, origin, simple=False):
    """absolute name, mostly below the origin"""
    m = rng.below(6)
    if m == 0 or FOREIGN_ONLY[0]:
        return gen_rel_labels(rng, simple) + [b"other", b"net", b""]
    if m == 1:
        return list(origin)
    return (gen_rel_labels(rng, simple) or [b"t"]) + list(origin)


def b64(rng, n):
    import base64
    return base64.b64encode(rng.bytes(n)).decode()


def b32hex(rng, n):
    import base64
    return base64.b32hexencode(rng.bytes(n)).decode().rstrip("=")


def hexs(rng, n):
    return rng.bytes(n).hex().upper() if rng.chance(1, 2) else rng.bytes(n).hex()


def qstr(rng, maxlen=20):
    pool = [ord(c) for c in "abcXYZ019 ;()\"\\@$.\t-_"] + [0, 31, 127]
    n = rng.choice([0, 1, 3, 5, maxlen])
    s = bytes(rng.choice(pool) for _ in range(n))
    return '"' + dns.rdata._escapify(s) + '"'


def qstr_any(rng, maxlen=40):
    pool = [ord(c) for c in "abcXYZ019 ;()\"\\@$.\t-_"] + [0, 31, 127, 128, 200, 255, 10]
    n = rng.choice([0, 1, 3, 5, 17, maxlen, 255])
    s = bytes(rng.choice(pool) for _ in range(n))
    return '"' + dns.rdata._escapify(s) + '"'


TYPES_BITMAP = ["A", "NS", "SOA", "MX", "TXT", "AAAA", "RRSIG", "NSEC", "DNSKEY", "TYPE1234", "CAA", "TYPE65280"]


def gen_rdata_text(rng, rdtype: str, origin):
    T = lambda: name_text(gen_target(rng, origin))
    u8 = lambda: rng.choice([0, 1, 2, 255, rng.below(256)])
    u16 = lambda: rng.choice([0, 1, 10, 65535, rng.below(65536)])
    u32 = lambda: rng.choice([0, 1, 3600, 2**31 - 1, 2**31, 2**32 - 1, rng.below(2**32)])
    ip4 = lambda: ".".join(str(rng.choice([0, 1, 10, 127, 192, 255, rng.below(256)])) for _ in range(4))
    ip6 = lambda: ":".join(f"{rng.choice([0, 0, 1, 0xffff, rng.below(65536)]):x}" for _ in range(8))
    types = lambda: " ".join(sorted(set(rng.choice(TYPES_BITMAP) for _ in range(rng.range(1, 4))), key=lambda x: dns.rdatatype.from_text(x)))
    ts = lambda: rng.choice(["20240101000000", "19700101000000", "20380119031407", "21060207062815"])
    t = rdtype
    if t == "A":
        return ip4()
    if t == "AAAA":
        return ip6()
    if t in ("NS", "CNAME", "PTR", "DNAME"):
        return T()
    if t in ("MX", "RT", "KX", "AFSDB", "LP"):
        return f"{u16()} {T()}"
    if t in ("TXT", "SPF"):
        return " ".join(qstr_any(rng) for _ in range(rng.range(1, 3)))
    if t == "SOA":
        return f"{T()} {T()} {u32()} {u32()} {u32()} {u32()} {u32()}"
    if t == "SRV":
        return f"{u16()} {u16()} {u16()} {T()}"
    if t == "RP":
        return f"{T()} {T()}"
    if t == "NAPTR":
        return f"{u16()} {u16()} {qstr(rng, 5)} {qstr(rng, 8)} {qstr(rng)} {T()}"
    if t == "HINFO":
        return f"{qstr(rng)} {qstr(rng)}"
    if t == "CAA":
        return f"{u8()} {rng.choice(['issue', 'issuewild', 'iodef', 'a1'])} {qstr(rng)}"
    if t in ("DS", "CDS", "DLV" if False else "DS"):
        dt, n = rng.choice([(1, 20), (2, 32), (4, 48)])
        return f"{u16()} {rng.choice([5, 8, 13, 15])} {dt} {hexs(rng, n)}"
    if t in ("DNSKEY", "CDNSKEY"):
        return f"{rng.choice([256, 257, 0])} 3 {rng.choice([8, 13, 15])} {b64(rng, rng.choice([32, 64, 130]))}"
    if t == "SSHFP":
        return f"{u8()} {u8()} {hexs(rng, rng.choice([20, 32]))}"
    if t in ("TLSA", "SMIMEA"):
        return f"{u8()} {u8()} {u8()} {hexs(rng, rng.choice([1, 32, 70]))}"
    if t == "OPENPGPKEY":
        return b64(rng, rng.choice([1, 33, 100]))
    if t == "DHCID":
        return b64(rng, rng.choice([3, 35]))
    if t == "NSEC":
        return f"{T()} {types()}"
    if t == "NSEC3":
        salt = rng.choice(["-", hexs(rng, 4)])
        return f"1 {rng.below(2)} {rng.choice([0, 10])} {salt} {b32hex(rng, 20)} {types()}"
    if t == "NSEC3PARAM":
        return f"1 0 {rng.choice([0, 5])} {rng.choice(['-', hexs(rng, 8)])}"
    if t == "RRSIG":
        cov = rng.choice(["A", "NS", "SOA", "TXT", "CNAME", "NSEC"])
        signer = name_text([b"dns", b"invalid", b""] if FOREIGN_ONLY[0] else list(origin))
        return f"{cov} {rng.choice([8, 13])} {rng.below(5)} {u32()} {ts()} {ts()} {u16()} {signer} {b64(rng, rng.choice([64, 96]))}"
    if t == "URI":
        return f'{u16()} {u16()} "https://example.org/{rng.below(100)}"'
    if t in ("SVCB", "HTTPS"):
        return rng.choice([f"0 {T()}", f"1 . alpn=h2", f"{u16() or 1} {T()} port={u16()} alpn=h2,h3", "2 . ipv4hint=10.0.0.1,10.0.0.2 ipv6hint=2001:db8::1"])
    if t == "CERT":
        return f"{rng.choice([1, 2, 3])} {u16()} {rng.choice([8, 13])} {b64(rng, rng.choice([10, 60]))}"
    if t == "L32":
        return f"{u16()} {ip4()}"
    if t in ("L64", "NID"):
        return f"{u16()} " + ":".join(f"{rng.below(65536):04x}" for _ in range(4))
    if t == "EUI48":
        return "-".join(f"{rng.below(256):02x}" for _ in range(6))
    if t == "EUI64":
        return "-".join(f"{rng.below(256):02x}" for _ in range(8))
    if t == "APL":
        return rng.choice(["1:10.0.0.0/8", "!1:192.168.0.0/16 2:2001:db8::/32", "1:0.0.0.0/0"])
    if t == "CSYNC":
        return f"{u32()} {rng.below(4)} {types()}"
    if t == "ZONEMD":
        return f"{u32()} 1 1 {hexs(rng, 48)}"
    if t == "X25":
        return '"' + "".join(rng.choice("0123456789") for _ in range(rng.range(1, 12))) + '"'
    if t == "ISDN":
        return '"150862028003217" "004"' if rng.chance(1, 2) else '"150862028003217"'
    if t.startswith("TYPE"):
        n = rng.choice([0, 1, 7, 40, 200])
        return f"\\# {n} {hexs(rng, n)}".rstrip() if n else "\\# 0"
    raise ValueError(t)


ORACLE_TYPES = ["A", "AAAA", "NS", "CNAME", "PTR", "DNAME", "MX", "RT", "KX", "AFSDB", "LP", "TXT", "SPF", "SRV", "RP", "NAPTR",
                "HINFO", "CAA", "DS", "CDS", "DNSKEY", "CDNSKEY", "SSHFP", "TLSA", "SMIMEA", "OPENPGPKEY", "DHCID", "NSEC", "NSEC3",
                "NSEC3PARAM", "RRSIG", "URI", "SVCB", "HTTPS", "CERT", "L32", "L64", "NID", "EUI48", "EUI64", "APL", "CSYNC",
                "ZONEMD", "X25", "ISDN", "TYPE65280", "TYPE1234"]
MODEL_TYPES = ["A", "NS", "PTR", "MX", "TXT", "TYPE65280", "TYPE1234", "CNAME"]
SINGLETONS = {"CNAME", "SOA", "DNAME", "NSEC"}
CNAME_OK = {"NSEC", "RRSIG", "KEY", "NSEC3"}   # what may sit next to a CNAME (RRSIG only when covering CNAME/NSEC)


def gen_zone_records(rng, origin, types, nnames=None, simple_names=False, foreign=False):
    FOREIGN_ONLY[0] = foreign
    try:
        return _gen_zone_records(rng, origin, types, nnames, simple_names, foreign)
    finally:
        FOREIGN_ONLY[0] = False


def _gen_zone_records(rng, origin, types, nnames, simple_names, foreign):
    """a list of records [owner labels (absolute), ttl, rdtype text, rdata text (absolute names), comment|None]
    forming a zone with SOA+NS at the apex; every (owner, type) has one TTL; CNAME nodes hold nothing else"""
    if nnames is None:
        nnames = rng.choice([2, 2, 3, 4, 6, 10, 20, 30])
    recs = []
    soa_min = rng.choice([0, 300, 3600, 86400])
    apex_ttl = rng.choice([soa_min, 3600, 0, 2**31 - 1])
    base = [b"dns", b"invalid", b""] if foreign else list(origin)
    mn = name_text((gen_rel_labels(rng, True, 1) or [b"ns1"]) + base)
    recs.append([list(origin), apex_ttl, "SOA", f"{mn} {name_text([b'hostmaster'] + base)} {rng.below(2**32)} 7200 900 1209600 {soa_min}", None])
    for i in range(rng.range(1, 3)):
        recs.append([list(origin), rng.choice([apex_ttl, 300]) if i == 0 else recs[-1][1], "NS",
                     name_text([b"ns%d" % (i + 1)] + base), None])
    owners = [list(origin)]
    seen = {dns.name.Name(list(origin))}
    tries = 0
    while len(owners) < nnames and tries < 200:
        tries += 1
        ls = gen_rel_labels(rng, simple_names) + list(origin)
        try:
            n = dns.name.Name(ls)
        except dns.exception.DNSException:
            continue
        if n in seen:
            continue
        seen.add(n)
        owners.append(ls)
    ttl_pool = [0, 1, 60, 300, 3600, soa_min, apex_ttl, 2**31 - 1, 2**31, 2**32 - 1]
    for ow in owners:
        k = rng.range(1, 4) if ow != list(origin) else rng.range(0, 3)
        tys = []
        if ow != list(origin) and "CNAME" in types and rng.chance(1, 8):
            tys = ["CNAME"]
        else:
            cand = [t for t in types if t not in ("CNAME", "SOA")]
            for _ in range(k):
                t = rng.choice(cand)
                if t not in tys and not (t == "NS" and ow == list(origin)) and not (t == "DNAME" and ow == list(origin)):
                    tys.append(t)
        for t in tys:
            ttl = rng.choice(ttl_pool)
            n = 1 if t in SINGLETONS else rng.choice([1, 1, 2, 3])
            texts = []
            cov = None
            for _ in range(n):
                txt = gen_rdata_text(rng, t, origin)
                if t == "RRSIG":
                    # one covered type per rdataset
                    if cov is None:
                        cov = txt.split(" ")[0]
                    txt = cov + " " + txt.split(" ", 1)[1]
                if txt not in texts:
                    texts.append(txt)
            for txt in texts:
                com = None
                if rng.chance(1, 6):
                    com = rng.choice([" a comment", "x", " semi;colon ( paren \" quote", "", " 1.2.3.4 IN A"])
                recs.append([ow, ttl, t, txt, com])
    return recs


def hexl(labels):
    return [bytes(l).hex() for l in labels]


def recs_to_case(recs):
    return [[hexl(o), ttl, t, txt, com] for o, ttl, t, txt, com in recs]


def build_zone(origin_labels, rel, recs, stats=None):
    """build a Zone through the object API (not through the reader)"""
    origin = dns.name.Name(origin_labels)
    z = dns.zone.Zone(origin, IN, relativize=rel)
    for o, ttl, t, txt, com in recs:
        owner = dns.name.Name([bytes.fromhex(x) for x in o])
        rdtype = dns.rdatatype.from_text(t)
        rd = dns.rdata.from_text(IN, rdtype, txt, origin=origin, relativize=rel, relativize_to=origin)
        if com is not None:
            rd = rd.replace(rdcomment=com)
        covers = rd.covers()
        rds = z.find_rdataset(owner, rdtype, covers, create=True)
        rds.add(rd, ttl)
    return z


def zone_sig(z):
    """order-insensitive content with TTLs, using the library's own equality classes for names and rdata"""
    out = {}
    for name, node in z.nodes.items():
        ent = {}
        for rds in node.rdatasets:
            if len(rds) == 0:
                continue
            ent[(int(rds.rdtype), int(rds.covers))] = (rds.ttl, frozenset(rds))
        if ent:
            out[name] = ent
    return out


def zones_equal(z1, z2):
    return z1.origin == z2.origin and z1.rdclass == z2.rdclass and zone_sig(z1) == zone_sig(z2)


_CNAME_COMPANIONS = {5, 47, 50, 25}   # CNAME itself, NSEC, NSEC3, KEY (RFC 4035 2.5, RFC 3007) -- written out independently of dns.node


def cname_violation(z):
    """a node holding a CNAME together with other data (independent of the library's own classification tables)"""
    for name, node in z.nodes.items():
        types = [(int(r.rdtype), int(r.covers)) for r in node.rdatasets if len(r) > 0]
        if any(t == 5 for t, _ in types):
            for t, cov in types:
                eff = cov if t == 46 else t      # an RRSIG is judged by what it covers; the legacy SIG (24) is other data
                if eff not in _CNAME_COMPANIONS:
                    return name
    return None


def rdata_ok_alone(rd, style, origin, rel):
    """C05 interface: does this rdata's styled text parse back to an equal rdata under the zone's parameters?"""
    try:
        txt = rd.to_styled_text(style)
        back = dns.rdata.from_text(rd.rdclass, rd.rdtype, txt, origin=origin, relativize=rel, relativize_to=origin)
        return back == rd
    except Stalled:
        raise
    except BaseException:
        return False


# ------------------------------------------------------------------------------------------------
# zone-file rendering with spellings
# ------------------------------------------------------------------------------------------------
def ttl_spelling(rng, ttl):
    if rng.chance(2, 3) or ttl == 0:
        return str(ttl)
    parts = []
    rest = ttl
    for unit, sec in (("w", 604800), ("d", 86400), ("h", 3600), ("m", 60), ("s", 1)):
        if rest >= sec and (rng.chance(2, 3) or unit == "s"):
            q, rest = divmod(rest, sec)
            u = unit.upper() if rng.chance(1, 3) else unit
            parts.append(f"{q}{u}")
    if rest:
        return str(ttl)
    return "".join(parts)


def case_mix(rng, s):
    m = rng.below(3)
    return s if m == 0 else s.lower() if m == 1 else "".join(c.upper() if rng.chance(1, 2) else c.lower() for c in s)


def rel_text(rng, labels, cur_origin, allow_rel=True):
    """a spelling of the absolute name `labels` under the current $ORIGIN"""
    n = dns.name.Name(labels)
    o = dns.name.Name(cur_origin)
    if allow_rel and n.is_subdomain(o) and rng.chance(2, 3):
        r = n.relativize(o)
        return r.to_text()     # '@' for the origin itself
    return n.to_text()


def layout(rng, toks, deep=True):
    """join rdata tokens with a random layout: spaces/tabs, and (optionally) parentheses with newlines and comments"""
    if not deep or rng.chance(1, 2) or not toks:
        return "".join((rng.choice([" ", "  ", "\t", " \t "]) if i else "") + t for i, t in enumerate(toks))
    out = []
    depth = 0
    opened = False
    for i, t in enumerate(toks):
        sep = ""
        if i:
            sep = rng.choice([" ", "\t", "  "])
        if not opened and rng.chance(1, 2):
            sep += "(" + rng.choice(["", " ", "\n", " ; c1\n  "])
            depth += 1
            opened = True
        elif depth and rng.chance(1, 3):
            sep += rng.choice(["\n", "\n\t", " ;x\n ", "\n\n  "])
        if depth and rng.chance(1, 6):
            sep += rng.choice(["(", "( "])
            depth += 1
        if i == 0 and sep and not sep[0] in " \t":
            sep = " " + sep
        out.append(sep + t)
        if depth and rng.chance(1, 4):
            out.append(rng.choice([")", " )", "\n)", " ; y\n)"]))
            depth -= 1
    while depth:
        out.append(rng.choice([")", " )", "\n )", " ;z ) not closing\n)"]))
        depth -= 1
    return "".join(out)


def rdata_tokens(rng, t, txt, origin_labels, cur_origin, spell=True, generic_names=False):
    """re-spell a canonical rdata text (absolute names) for the modelled types; returns the token list"""
    T = dns.rdatatype.from_text(t)
    rd = dns.rdata.from_text(IN, T, txt)
    ti = int(T)

    def nm(n):
        return rel_text(rng, list(n.labels), cur_origin, allow_rel=spell)

    # generic (\#) spelling of a known type; with embedded names only on request (the library cannot read those back
    # inside a zone whose origin is an ancestor: known finding, and not one of the spelling equivalences of the property)
    if spell and ti in MODELLED and rng.chance(1, 8) and not isinstance(rd, dns.rdata.GenericRdata) and (generic_names or ti in (1, 16)):
        w = rd.to_wire()
        h = w.hex()
        parts = [h[i:i + 8] for i in range(0, len(h), 8)] if rng.chance(1, 2) else ([h] if h else [])
        return ["\\#", str(len(w))] + parts
    if ti == 1:
        return [rd.address]
    if ti in (2, 5, 12):
        return [nm(rd.target)]
    if ti == 15:
        return [str(rd.preference), nm(rd.exchange)]
    if ti == 6:
        f = (lambda v: ttl_spelling(rng, v)) if spell else str
        return [nm(rd.mname), nm(rd.rname), str(rd.serial), f(rd.refresh), f(rd.retry), f(rd.expire), f(rd.minimum)]
    if ti == 16:
        out = []
        for s in rd.strings:
            e = dns.rdata._escapify(s)
            bare_ok = s and all(0x21 <= c < 0x7f and chr(c) not in '"();\\@$' for c in s)
            out.append(e if (spell and bare_ok and rng.chance(1, 3)) else '"' + e + '"')
        return out
    if isinstance(rd, dns.rdata.GenericRdata):
        h = rd.data.hex()
        parts = [h[i:i + 6] for i in range(0, len(h), 6)] if (spell and rng.chance(1, 2)) else ([h] if h else [])
        return ["\\#", str(len(rd.data))] + parts
    return txt.split(" ")


def render_zone_text(rng, origin_labels, recs, spell=True, extras=True, generic_names=False):
    """zone-file text for the records (kept in order) with random equivalent spellings.
    Tracks the reader's TTL defaults independently to know when a TTL may be omitted."""
    lines = []
    cur_origin = list(origin_labels)
    default_known, default_ttl, last_known, last_ttl = False, 0, False, 0
    last_owner = None
    if spell and rng.chance(1, 2):
        lines.append("$ORIGIN " + name_text(origin_labels))
    first = True
    for o, ttl, t, txt, com in recs:
        o = [bytes.fromhex(x) for x in o] if o and isinstance(o[0], str) else o
        if spell and extras and rng.chance(1, 10):
            lines.append(rng.choice(["", "   ", "; a comment line", "\t; indented comment", "  \t "]))
        if spell and rng.chance(1, 8):
            v = rng.choice([ttl, 300, 7200])
            default_known, default_ttl = True, v
            lines.append(case_mix(rng, "$TTL") + " " + ttl_spelling(rng, v) + rng.choice(["", " ; default", "  "]))
        if spell and rng.chance(1, 12):
            # move $ORIGIN to a suffix of the owner that is still inside the zone
            n = dns.name.Name(o)
            if len(o) > len(origin_labels):
                k = rng.range(1, len(o) - len(origin_labels))
                cur_origin = o[k:]
            else:
                cur_origin = list(origin_labels)
            lines.append("$ORIGIN " + name_text(cur_origin))
        # owner
        same = last_owner is not None and dns.name.Name(o) == dns.name.Name(last_owner) and o == last_owner
        if spell and same and rng.chance(1, 2):
            owner = rng.choice([" ", "\t", "    "])
        elif first and spell and o == list(origin_labels) and cur_origin == list(origin_labels) and rng.chance(1, 4):
            owner = " "      # inherits the zone origin as the initial last_name
        else:
            owner = rel_text(rng, o, cur_origin, allow_rel=spell) + " "
        first = False
        last_owner = o
        # ttl
        T = int(dns.rdatatype.from_text(t))
        soa_min = None
        if T == 6:
            soa_min = int(txt.split(" ")[-1])
        can_omit = (default_known and default_ttl == ttl) or (not default_known and last_known and last_ttl == ttl) \
            or (not default_known and T == 6 and soa_min == ttl and not last_known)
        omit = spell and can_omit and rng.chance(2, 3)
        cls = rng.choice(["IN", "IN", "", "in", "CLASS1", "In"]) if spell else "IN"
        ttl_s = "" if omit else (ttl_spelling(rng, ttl) if spell else str(ttl))
        if not omit:
            last_known, last_ttl = True, ttl
        if T == 6 and not default_known:
            default_known, default_ttl = True, soa_min
        head = [ttl_s, cls]
        if spell and rng.chance(1, 3):
            head = [cls, ttl_s]
        tn = t
        if spell:
            m = rng.below(4)
            tn = t if m else f"TYPE{T}"
            tn = case_mix(rng, tn)
        toks = [x for x in head if x] + [tn] + rdata_tokens(rng, t, txt, origin_labels, cur_origin, spell, generic_names)
        body = layout(rng, toks, deep=spell)
        tail = ""
        if com is not None:
            tail = " ;" + com
        elif spell and rng.chance(1, 10):
            tail = rng.choice(["  ", "\t", " ; trailing"])
        lines.append(owner + body + tail)
    nl = "\n"
    text = nl.join(lines) + (nl if (not spell or rng.chance(4, 5)) else "")
    return text


# ------------------------------------------------------------------------------------------------
# eval
# ------------------------------------------------------------------------------------------------
def txt_hex(text: str) -> str:
    return hx(l1(text))


def _eval_case(ctx: Ctx, c: dict):
    k = c["kind"]
    rep = {"kind": k, "case": c}
    if k == "tok":
        text = bytes.fromhex(c["text"]).decode("latin-1")
        ops = c["ops"]
        impl = impl_tok_script(text, ops)
        ctx.corr(f"c09.tok {txt_hex(text)} " + " ".join(ops), impl, c)
        for w in impl.split(" "):
            if w.startswith("E"):
                ctx.count("tok.err." + w[1:])
            elif w.startswith("T"):
                ctx.count("tok.type." + w[1])
    elif k == "unesc":
        text = bytes.fromhex(c["text"]).decode("latin-1")
        ctx.corr(f"c09.unesc {txt_hex(text)}", impl_unesc(text), c)
    elif k == "layout":
        # tokenize_layout on the implementation: every layout of the token list gives the same tokens
        flat = bytes.fromhex(c["flat"]).decode("latin-1")
        laid = bytes.fromhex(c["laid"]).decode("latin-1")
        a, ea = tokens_of(flat)
        b, eb = tokens_of(laid)
        ctx.corr(f"c09.tok {txt_hex(laid)} a00", impl_tok_script(laid, ["a00"]), c)
        if ea is not None or eb is not None or a != b:
            ctx.fail("C09/tokenize/layout-changes-tokens", f"layout {laid!r} of {flat!r}: {b} / {eb} vs {a} / {ea}", rep)
        ctx.count("layout")
    elif k == "ttl":
        text = bytes.fromhex(c["text"]).decode("latin-1")
        r = impl_ttl(text)
        ctx.corr(f"c09.ttl {txt_hex(text)}", r, c)
        ctx.count("ttl." + r.split(" ")[0])
        if r.startswith("FOREIGN"):
            ctx.fail("C09/ttl/foreign-exception", f"ttl.from_text({text!r}) -> {r}", rep)
        if "value" in c and r != f"ok {c['value']}":
            ctx.fail("C09/ttl/roundtrip", f"ttl.from_text({text!r}) -> {r}, expected {c['value']}", rep)
    elif k == "grange":
        text = bytes.fromhex(c["text"]).decode("latin-1")
        r = impl_grange(text)
        ctx.corr(f"c09.grange {txt_hex(text)}", r, c)
        ctx.count("grange." + (r.split(" ")[0] if r.startswith("ok") else r.split(" ")[1]))
    elif k == "int":
        text = bytes.fromhex(c["text"]).decode("latin-1")
        ctx.corr(f"c09.int {txt_hex(text)}", impl_int(text), c)
    elif k == "modify":
        text = bytes.fromhex(c["text"]).decode("latin-1")
        ctx.corr(f"c09.modify {txt_hex(text)}", impl_modify(text), c)
    elif k == "read":
        text = bytes.fromhex(c["text"]).decode("latin-1")
        origin = None if c["origin"] is None else [bytes.fromhex(x) for x in c["origin"]]
        line, z = impl_read(origin, c["rel"], c["chk"], text)
        if line is not None and mentions_unmodelled(text):
            ctx.count("read.skipped-unmodelled-type")
        elif line is not None:
            ctx.corr(f"c09.read {opt_name(origin)} {int(c['rel'])} {int(c['chk'])} {variant()['gfix']} {txt_hex(text)}", line, c)
            ctx.count("read." + (line.split(" ")[0] if line.startswith("ok") else line.split(" ", 1)[1]))
            if line.startswith("err FOREIGN") and not c.get("malformed_c04"):
                ctx.fail("C09/read/foreign-exception:" + line.split(" ")[2], f"from_text raised {line} on {text!r}", rep)
            elif line.startswith("err FOREIGN"):
                ctx.count("read.c04-foreign")
        if z is not None:
            bad = cname_violation(z)
            if bad is not None:
                ctx.fail("C09/read/cname-and-other-data", f"after loading, {bad} holds a CNAME and other data: {text!r}", rep)
    elif k == "spell":
        # two spellings of the same entries load to equal zones (and to the zone built through the API)
        origin = [bytes.fromhex(x) for x in c["origin"]]
        rel = c["rel"]
        ta = bytes.fromhex(c["a"]).decode("latin-1")
        tb = bytes.fromhex(c["b"]).decode("latin-1")
        la, za = impl_read(origin, rel, False, ta)
        lb, zb = impl_read(origin, rel, False, tb)
        for t_, l_ in ((ta, la), (tb, lb)):
            if l_ is not None:
                ctx.corr(f"c09.read {opt_name(origin)} {int(rel)} 0 {variant()['gfix']} {txt_hex(t_)}", l_, c)
        ctx.count("spell." + c.get("what", "respell"))
        if za is None or zb is None:
            ctx.fail(f"C09/spelling/{c.get('what', 'respell')}/load-fails", f"{la} / {lb} on spellings {ta!r} / {tb!r}", rep)
            return
        if not zones_equal(za, zb):
            ctx.fail(f"C09/spelling/{c.get('what', 'respell')}/zones-differ", f"spellings {ta!r} and {tb!r} load to different zones", rep)
        if "recs" in c:
            zr = build_zone(origin, rel, c["recs"])
            if not zones_equal(za, zr):
                ctx.fail(f"C09/spelling/{c.get('what', 'respell')}/differs-from-entries", f"{ta!r} does not load to its entries", rep)
        for z in (za, zb):
            bad = cname_violation(z)
            if bad is not None:
                ctx.fail("C09/read/cname-and-other-data", f"after loading, {bad} holds a CNAME and other data", rep)
    elif k == "include":
        origin = [bytes.fromhex(x) for x in c["origin"]]
        rel, allow = c["rel"], c["allow"]
        text = bytes.fromhex(c["text"]).decode("latin-1")
        files = {bytes.fromhex(a).decode("latin-1"): bytes.fromhex(b).decode("latin-1") for a, b in c["files"]}
        la, za = impl_read_include(origin, rel, allow, text, files)
        ctx.count("include." + ("allowed" if allow else "not-allowed"))
        if la is not None:
            fl = " ".join(f"{txt_hex(a)} {txt_hex(b)}" for a, b in files.items())
            ctx.corr(f"c09.readinc {opt_name(origin)} {int(rel)} 0 {variant()['gfix']} {int(allow)} {txt_hex(text)} {fl}".rstrip(), la, c)
            if la.startswith("err FOREIGN"):
                ctx.fail("C09/include/foreign-exception:" + la.split(" ")[2], f"from_text raised {la} on {text!r} with {files!r}", rep)
        if not allow:
            if "$INCLUDE" in text.upper() and (la is None or not la.startswith("err SyntaxError")):
                ctx.fail("C09/include/not-allowed-but-read", f"allow_include=False, yet {la} on {text!r}", rep)
            return
        for what in ("explicit", "inline"):
            if c.get(what) is None:
                continue
            tb = bytes.fromhex(c[what]).decode("latin-1")
            lb, zb = impl_read(origin, rel, False, tb)
            if lb is not None:
                ctx.corr(f"c09.read {opt_name(origin)} {int(rel)} 0 {variant()['gfix']} {txt_hex(tb)}", lb, c)
            ctx.count("include.vs-" + what)
            if (za is None) != (zb is None) or (za is None and la != lb):
                ctx.fail(f"C09/include/{what}/load-differs", f"{la} with $INCLUDE / {lb} {what}: {text!r} {files!r} / {tb!r}", rep)
            elif za is not None and not zones_equal(za, zb):
                ctx.fail(f"C09/include/{what}/zones-differ",
                         f"the $INCLUDE spelling {text!r} {files!r} and the {what} spelling {tb!r} load to different zones", rep)
        if c.get("refused") and (za is not None or not (la or "").startswith("err SyntaxError")):
            ctx.fail("C09/include/malformed-line-accepted", f"{la} on a malformed $INCLUDE line: {text!r}", rep)
        if c.get("undefined_ttl") and za is not None:
            ctx.fail("C09/include/undefined-ttl-accepted", f"a line without any TTL to inherit was accepted: {text!r} {files!r}", rep)
        if za is not None:
            bad = cname_violation(za)
            if bad is not None:
                ctx.fail("C09/read/cname-and-other-data", f"after loading, {bad} holds a CNAME and other data", rep)
    elif k == "cnamegrid":
        eval_cnamegrid_case(ctx, c, rep)
    elif k == "routes":
        eval_routes_case(ctx, c, rep)
    elif k == "directives":
        eval_directives_case(ctx, c, rep)
    elif k == "rrsets":
        eval_rrsets_case(ctx, c, rep)
    elif k == "zone":
        eval_zone_case(ctx, c, rep)
    else:
        raise ValueError(k)


def eval_case(ctx: Ctx, c: dict):
    """evaluate one case; an exception escaping the evaluation of a generated (well-formed) case is itself reported,
    with the case as replay, instead of crashing the check"""
    try:
        _eval_case(ctx, c)
    except Exception as e:  # noqa: BLE001
        if c.get("_replaying"):
            raise
        ctx.fail(f"C09/{c.get('kind')}/unexpected-exception:{type(e).__name__}",
                 f"evaluating a generated case raised {type(e).__name__}: {e}", {"kind": c.get("kind"), "case": c})


def eval_zone_case(ctx: Ctx, c: dict, rep):
    origin = [bytes.fromhex(x) for x in c["origin"]]
    rel = c["rel"]
    st = dict(c["style"])
    O = dns.name.Name(origin)
    z = build_zone(origin, rel, c["recs"])
    # resolve the "zone" default_ttl knob to a TTL that occurs in the zone
    if st.get("dttl") == "zone":
        st["dttl"] = c["recs"][0][1]
    style = mk_style(st, O)
    # C05 interface: drop rdatas whose own text does not round-trip under this rdata style (counted, not judged here)
    if not st.get("gen"):
        dropped = 0
        for name, node in list(z.nodes.items()):
            for rds in list(node.rdatasets):
                for rd in list(rds):
                    if not rdata_ok_alone(rd, style, O, rel):
                        rds.remove(rd)
                        dropped += 1
                if len(rds) == 0:
                    node.rdatasets.remove(rds)
            if len(node.rdatasets) == 0:
                del z.nodes[name]
        if dropped:
            ctx.count("zone.rdata-dropped-c05", dropped)
    modelled = dump_zone(z)
    sig = "C09/write-read"
    gen = bool(st.get("gen"))
    # write
    try:
        text = z.to_styled_text(style)
        wline = "ok " + txt_hex(text)
    except Stalled:
        raise
    except BaseException as e:
        text = None
        wline = "err " + err_family(e)
    if modelled is not None:
        ctx.corr(f"c09.write {enc_labels(origin)} {int(rel)} {modelled} " + " ".join(style_tokens(st, origin) + [f"wfix={variant()['wfix']}"]), wline, c)
    ctx.count("zone.rel" if rel else "zone.abs")
    ctx.count("zone.names", len(z.nodes))
    if text is None:
        if gen and rel and wline == "err NeedAbsoluteNameOrOrigin":
            ctx.fail("C09/write-read/want_generic/write-raises-NeedAbsoluteNameOrOrigin/relativized-zone",
                     "want_generic on a relativized zone: Rdataset.to_styled_text calls rd.to_generic() without an origin", rep)
        else:
            ctx.fail(sig + "/write-raises:" + wline.split(" ", 1)[1], f"to_styled_text raised {wline} (style {st})", rep)
        return
    # read back, giving the origin (and, when $ORIGIN was written, also without it)
    for give_origin in ([True, False] if st.get("wo") else [True]):
        line, z2 = impl_read(origin if give_origin else None, rel, False, text)
        if line is not None and modelled is not None:
            ctx.corr(f"c09.read {opt_name(origin if give_origin else None)} {int(rel)} 0 {variant()['gfix']} {txt_hex(text)}", line, c)
        if z2 is None:
            if gen and line == "err SyntaxError" and generic_read_trigger(z, O):
                ctx.fail("C09/write-read/want_generic/read-raises-SyntaxError/known-type-name-below-origin",
                         "generic (\\#) text of a known type whose rdata holds a name at or below the origin cannot be read back: "
                         "dns.rdata.from_text relativizes in from_wire and then calls to_wire() without an origin", rep)
            else:
                ctx.fail(sig + "/read-raises:" + str(line).split(" ", 1)[-1],
                         f"text written with style {st} does not load ({line}); origin given={give_origin}", rep)
            continue
        if not zones_equal(z, z2):
            ctx.fail(sig + "/zones-differ" + ("" if give_origin else "/origin-from-$ORIGIN"),
                     f"write-then-read changed the zone (style {st}, relativize={rel})", rep)
        elif z != z2 or z2 != z:
            ctx.fail(sig + "/library-eq-differs", f"Zone.__eq__ says the zones differ (style {st})", rep)
        bad = cname_violation(z2)
        if bad is not None:
            ctx.fail("C09/read/cname-and-other-data", f"after loading, {bad} holds a CNAME and other data", rep)
    ctx.count("zone.style.gen" if gen else "zone.style.plain")


def generic_read_trigger(z, O):
    """does some known-type rdata hold a name at or below the origin (or relative)?  (trigger class of the read-side defect)"""
    for node in z.nodes.values():
        for rds in node.rdatasets:
            for rd in rds:
                if isinstance(rd, dns.rdata.GenericRdata):
                    continue
                for slot in rd._get_all_slots():
                    v = getattr(rd, slot, None)
                    if isinstance(v, dns.name.Name) and (not v.is_absolute() or v.is_subdomain(O)):
                        return True
    return False


# ------------------------------------------------------------------------------------------------
# generation
# ------------------------------------------------------------------------------------------------
TOK_ATOMS = ["a", "bc", "A1", " ", " ", "  ", "\t", "\n", "\n", "(", ")", "(", ")", '"', '"', ";", "; c", "\\", "\\\\", '\\"', "\\(",
             "\\;", "\\ ", "\\\n", "\\0", "\\04", "\\046", "\\255", "\\256", "\\999", "\\1a2", "\\a", "$", "@", ".", "\\#", "x.y.",
             "\x00", "\x7f", "\xe9", "\r", '""', '"q r"', "(\n", "\n)", " ;c\n"]
SCRIPT_OPS = ["g00", "g00", "g00", "g10", "g01", "g11", "u", "ws", "a00", "a11", "a10", "a01"]


def gen_tok_soup(rng):
    n = rng.choice([0, 1, 2, 3, 5, 8, 12, 20])
    return "".join(rng.choice(TOK_ATOMS) for _ in range(n))


def gen_tok_line(rng):
    """a mostly well-formed multi-line text"""
    toks = []
    for _ in range(rng.range(1, 6)):
        m = rng.below(5)
        if m == 0:
            toks.append('"' + "".join(rng.choice(["a", " ", ";", "(", ")", '\\"', "\\\\", "\\010", "\t"]) for _ in range(rng.below(6))) + '"')
        else:
            toks.append("".join(rng.choice(["a", "B", "1", ".", "-", "\\.", "\\;", "\\032", "$", "@"]) for _ in range(rng.range(1, 5))))
    return toks


def gen_layout_case(rng):
    toks = gen_tok_line(rng)
    flat = " ".join(toks) + "\n"
    laid = layout(rng, toks, deep=True) + rng.choice(["\n", " \n", " ; end\n"])
    return flat, laid


def gen_ttl_text(rng):
    m = rng.below(6)
    if m == 0:
        v = rng.choice([0, 1, 59, 60, 3600, 86400, 604800, 2**31 - 1, 2**31, 2**32 - 1, 2**32, 2**32 + 1, rng.below(2**33)])
        return str(v), (v if v <= 2**32 - 1 else None)
    if m == 1:
        v = rng.below(2**32)
        return ttl_spelling(rng, v), v
    atoms = ["1", "0", "9", "12", "w", "d", "h", "m", "s", "W", "D", "H", "M", "S", "x", "-", "+", " ", "", "7105", "4294967295", "_",
             "\xb2", "\xb9", "\xbc", "\n", "\t", "\r", "\x00", "\x7f", "\x0b", "\x1c", "\x85", "\xa0"]
    return "".join(rng.choice(atoms) for _ in range(rng.range(0, 6))), None


def gen_grange_text(rng):
    atoms = ["0", "1", "5", "10", "255", "-", "-", "/", "/", "a", "", " ", "00", "\xb2", "\xb9", "\n", "\t", "\x00", "\x7f", "\x85", "\xa0"]
    if rng.chance(1, 2):
        a = rng.below(20)
        b = a + rng.below(20) if rng.chance(4, 5) else rng.below(a + 1)
        s = f"{a}-{b}"
        if rng.chance(1, 2):
            s += f"/{rng.choice([0, 1, 2, 3, 10])}"
        return s
    return "".join(rng.choice(atoms) for _ in range(rng.range(0, 5)))


def gen_int_text(rng):
    atoms = ["0", "1", "9", "12", "007", "-", "+", "_", " ", "\t", "a", "", "65535", "65536", "4294967296", "\xb2", "\n", "\x0b", "\x1c", "\x85", "\xa0", "\x00"]
    return "".join(rng.choice(atoms) for _ in range(rng.range(0, 5)))


def gen_modify_text(rng):
    atoms = ["$", "$", "${0,3,d}", "${-1}", "${+5,2}", "${1,2,x}", "${0,4,n}", "${3,2,N}", "${0,2,q}", "{", "}", "host", ".", "a", "${", "${,}",
             "${1,}", "${12,34,X}", "${-0,0,o}", "\\$", "$$"]
    return "".join(rng.choice(atoms) for _ in range(rng.range(0, 5)))


def absolutize_expansion(lines, cur_origin_text):
    """the expansion lines `owner ttl/class type rhs` with owner and (for name types) rhs written as absolute names"""
    out = []
    for ln in lines:
        parts = ln.split()
        owner, rhs, mid = parts[0], parts[-1], parts[1:-1]
        ty = mid[-1].upper()

        def ab(x):
            if x == "@":
                return cur_origin_text
            if x.endswith("."):
                return x
            if "@" in x or "\\" in x:
                return None
            return x + "." + cur_origin_text
        o = ab(owner)
        r = ab(rhs) if ty in ("CNAME", "NS", "PTR") else rhs
        if o is None or r is None:
            return None
        out.append(" ".join([o] + mid + [r]))
    return out


def gen_generate_line(rng, names=False):
    a = rng.below(12)
    b = a + rng.below(6)
    rngs = f"{a}-{b}" + (f"/{rng.choice([1, 2, 3])}" if rng.chance(1, 3) else "")
    lhs = rng.choice(["host$", "h${0,3,d}", "$.sub", "${-1}x", "n${2,2,x}", "r${0,4,n}.rev", "$", "fix", "a$b$", "u${1,3,X}", "o${0,3,o}",
                      "m${-7,4,d}", "k${-20,5,x}", "j${-3,3,o}", "q${-9,6,N}.z"])
    ttl = rng.choice(["", "300 ", "1h "])
    cls = rng.choice(["", "IN ", "in "])
    kind = rng.choice([1, 1, 1, 0]) if names else rng.below(4)
    if kind == 0:
        ty, rhs = "A", rng.choice(["10.0.0.$", "10.0.${0,1,d}.1", "10.0.0.${10}", "1.2.3.4", "10.0.0.${0,3,d}"])
    elif kind == 1:
        ty, rhs = rng.choice(["CNAME", "NS", "PTR"]), rng.choice(["t$", "host$", "t$.example.", "x${0,2,x}.other.", "@", "$.@", "h${0,3,d}.deep",
                                                              "n$.example.com.", "w$.sub.example.org.", "w$.hosts.example."])
    elif kind == 2:
        ty, rhs = "TXT", rng.choice(["v$", "a${1,2,d}b", "$$"])
    else:
        ty, rhs = "MX", "10"
    return f"$GENERATE {rngs} {lhs} {ttl}{cls}{ty} {rhs}", (a, b)


def expand_generate(line, origin_labels):
    """independent expansion of a $GENERATE line of the simple shapes produced above (reference for the oracle)"""
    import re
    parts = line.split()
    rngs, lhs = parts[1], parts[2]
    rest = parts[3:]
    m = re.fullmatch(r"(\d+)-(\d+)(?:/(\d+))?", rngs)
    start, stop, step = int(m.group(1)), int(m.group(2)), int(m.group(3) or 1)
    rhs = rest[-1]
    head = " ".join(rest[:-1])

    def subst(side, i):
        mm = None
        for pat in (r"\$\{([+-]?)(\d+),(\d+),(.)\}", r"\$\{([+-]?)(\d+)\}", r"\$\{([+-]?)(\d+),(\d+)\}"):
            found = list(re.finditer(pat, side))
            if found:
                mm = found[-1]
                break
        if mm is None:
            return side.replace("$", str(i))
        g = mm.groups()
        sign = -1 if g[0] == "-" else 1
        off = int(g[1])
        width = int(g[2]) if len(g) > 2 else 0
        base = g[3] if len(g) > 3 else "d"
        idx = i + sign * off
        if base in "doxX":
            s = format(idx, base).zfill(width)
        else:
            hx_ = format(idx, "x").zfill(width)
            s = ".".join(hx_[::-1])[:width]
            if base == "N":
                s = s.upper()
        return side.replace(mm.group(0), s)

    out = []
    for i in range(start, stop + 1, step):
        out.append(f"{subst(lhs, i)} {head} {subst(rhs, i)}")
    return out



# ------------------------------------------------------------------------------------------------
# $INCLUDE file [origin]
# ------------------------------------------------------------------------------------------------
INC_DIR = "@D@"          # placeholder of the scratch directory in the texts of a case (model and replay see this)


def impl_read_include(origin, rel, allow, text, files):
    """dns.zone.from_text(..., allow_include=allow) with the include files written to a scratch directory outside
    /repo and /verif (removed afterwards); `files` maps the names as written in the texts to contents"""
    import shutil
    import tempfile
    d = tempfile.mkdtemp(prefix="c09inc-")
    try:
        for name, content in files.items():
            path = name.replace(INC_DIR, d)
            with open(path, "w", encoding="latin-1", newline="") as f:
                f.write(content.replace(INC_DIR, d))
        try:
            z = dns.zone.from_text(text.replace(INC_DIR, d), origin=mk_name(origin), relativize=rel, check_origin=False,
                                   allow_include=allow)
        except OSError:
            return "err OSError", None
        except Stalled:
            raise
        except BaseException as e:
            return "err " + err_family(e), None
        dz = dump_zone(z)
        if dz is None:
            return None, z
        return f"ok origin={'none' if z.origin is None else enc_name(z.origin)} {dz}", z
    finally:
        shutil.rmtree(d, ignore_errors=True)


def _abs_under(text, cur):
    """a master-file name completed with the origin `cur` (text of an absolute name)"""
    if text == "@":
        return cur
    if text.endswith("."):
        return text
    return text + ("" if cur == "." else ".") + cur if cur != "." else text + "."


class IncludeCase:
    """A tree of zone-file items (records, $ORIGIN, $TTL, $INCLUDE file [origin]) with three renderings: the $INCLUDE
    spelling (main text + files), the fully explicit spelling (absolute owners and RDATA names, every TTL written, no
    directive) and the textually inlined spelling with explicit save/restore ($ORIGIN before/after the inlined text, $TTL
    restored, an inherited owner / TTL spelled out where a directive cannot restore it).  The state rules are those of
    Reader.read: $INCLUDE saves (current_origin, last_name, last_ttl, default_ttl) and the end of the file restores them."""

    NAME_TYPES = ("NS", "PTR", "MX")

    def __init__(self, rng, origin_text, depth_max=3):
        self.rng = rng
        self.zone = origin_text
        self.k = 0
        self.nfiles = 0
        self.files = {}          # name -> content ($INCLUDE spelling)
        self.main_items = self.gen_file(0, depth_max, main=True)

    # --- generation
    def gen_rr(self, allow_inherit=True):
        rng = self.rng
        self.k += 1
        owner = None if (allow_inherit and rng.chance(1, 4)) else rng.choice([f"h{self.k}", f"h{self.k}", f"h{self.k}.d", "@", f"x{self.k}.{self.zone}"])
        ttl = rng.choice([None, None, 60, 300, 86400])
        ty = rng.choice(["A", "TXT", "TXT"]) if owner is None or owner == "@" else rng.choice(["A", "TXT", "NS", "PTR", "MX", "MX"])
        if ty == "A":
            rd = f"10.{rng.below(4)}.{self.k % 250}.{rng.below(250)}"
        elif ty == "TXT":
            rd = f"\"t{self.k}\""
        else:
            rd = rng.choice([f"t{self.k}", f"t{self.k}.deep", "@", f"t{self.k}.{self.zone}", "out.invalid."])
        return ("rr", owner, ttl, ty, rd)

    def gen_file(self, depth, depth_max, main=False):
        rng = self.rng
        items = []
        if main:
            pre = rng.below(4)
            if pre in (0, 1):
                items.append(("ttl", rng.choice([3600, 300, 0])))
            if pre in (0, 2):
                items.append(("soa", rng.choice([None, 7200]), rng.choice([300, 60, 5])))
            items.append(("rr", "@", rng.choice([None, 86400, 1800]) if pre != 3 else 1800, "NS", "ns1"))
        nitems = rng.range(2, 5)
        included = 0

        def carried():
            # what the reader carries over a directive: the line right after it leans on last_name / last_ttl / default_ttl
            if rng.chance(1, 3):
                items.append(("blank", rng.choice(["", "; a comment line", "   ", "\t; indented comment"])))
            if rng.chance(2, 3):
                self.k += 1
                items.append(("rr", None, rng.choice([None, None, 60]), rng.choice(["TXT", "A"]), f'"c{self.k}"'))
                if items[-1][3] == "A":
                    items[-1] = items[-1][:4] + (f"10.9.{self.k % 250}.1",)
        for i in range(nitems):
            c = rng.below(12)
            if c <= 3 or (i == 0 and not main and rng.chance(1, 2)):
                items.append(self.gen_rr(allow_inherit=True))
            elif c == 4:
                items.append(("origin", rng.choice(["sub", "deep." + self.zone, "sibling.invalid.", self.zone, "b.c"])))
                carried()
            elif c == 5:
                items.append(("ttl", rng.choice([7, 120, 0, 99999])))
                carried()
            elif c in (6, 7):
                self.k += 1
                a0 = rng.choice([0, 1, 7])
                items.append(("generate", a0, a0 + rng.choice([0, 1, 2]), rng.choice([f"g{self.k}x", f"g{self.k}.d.x", f"x.g{self.k}", "x.sibling.invalid."]),
                              rng.choice([None, None, 300, 0]), rng.choice(["", "IN "]),
                              rng.choice([("A", "10.8.7.$"), ("TXT", "v$"), ("PTR", "p$"), ("PTR", "p$.deep")])))
                carried()
            elif depth < depth_max and (c >= 8) and included < 2:
                included += 1
                child = self.gen_file(depth + 1, depth_max)
                org = rng.choice([None, None, "branch", "branch." + self.zone, "leaf.twig", "sibling.invalid.", "@"]) if not rng.chance(1, 3) else rng.choice(["branch", "inc"])
                items.append(("include", child, org, rng.choice(["", "", " ; c"]), rng.chance(1, 4)))
                carried()
            else:
                items.append(self.gen_rr())
        if main or rng.chance(2, 3):
            # lines after the last include that lean on the parent's state: relative owner, inherited owner, no TTL
            items.append(("rr", f"www{self.k}", None, "A", "192.0.2.7"))
            items.append(("rr", None, None, "TXT", "\"after\""))
            items.append(("rr", f"m{self.k}", None, "MX", "mail"))
        return items

    # --- the reference walk
    def render(self):
        """returns (main_text, files, explicit_lines | None, inline_lines | None); None when the reference finds a line
        whose TTL is undefined (both spellings must then be refused)"""
        self.files = {}
        self.nfiles = 0
        st = {"cur": self.zone, "last_name": self.zone, "default": None, "last": None}
        self.explicit = []
        self.inline = []
        self.undefined_ttl = False
        self.b2_explicit_ttl = False
        self.b2_owner_dirty = False
        main = self.walk(self.main_items, st)
        text = "\n".join(main) + "\n"
        if self.undefined_ttl:
            return text, self.files, None, None
        return text, self.files, self.explicit, self.inline

    def walk(self, items, st):
        a = []
        for it in items:
            kind = it[0]
            if kind == "ttl":
                a.append(f"$TTL {it[1]}")
                self.inline.append(f"$TTL {it[1]}")
                st["default"] = it[1]
            elif kind == "blank":
                a.append(it[1])
                self.inline.append(it[1])
            elif kind == "generate":
                _, g_a, g_b, lhs, ttl, cls, (ty, rhs) = it
                # lhs holds one `x` where the index goes (kept out of the label text so that `$` stays unique)
                lhs_t = lhs.replace("x", "$", 1) if lhs.endswith("x") else lhs.replace("x.", "$.", 1)
                if ttl is not None:
                    eff = ttl
                    st["last"] = ttl
                elif st["default"] is not None:
                    eff = st["default"]
                elif st["last"] is not None:
                    eff = st["last"]
                else:
                    eff = None
                    self.undefined_ttl = True
                ttl_txt = "" if ttl is None else f"{ttl} "
                a.append(f"$GENERATE {g_a}-{g_b} {lhs_t} {ttl_txt}{cls}{ty} {rhs}")
                b2_ttl = ttl_txt if not (ttl is None and self.b2_explicit_ttl) else f"{eff} "
                self.inline.append(f"$GENERATE {g_a}-{g_b} {lhs_t} {b2_ttl}{cls}{ty} {rhs}")
                zl = self.zone.lower()
                for gi in range(g_a, g_b + 1):
                    abs_owner = _abs_under(lhs_t.replace("$", str(gi)), st["cur"])
                    st["last_name"] = abs_owner            # every generated owner, in the zone or not, becomes the last name
                    if not (abs_owner.lower() == zl or abs_owner.lower().endswith("." + zl)):
                        continue
                    rd_i = rhs.replace("$", str(gi))
                    abs_rd = _abs_under(rd_i, st["cur"]) if ty in self.NAME_TYPES else (f'"{rd_i}"' if ty == "TXT" else rd_i)
                    self.explicit.append(f"{abs_owner} {eff} IN {ty} {abs_rd}")
                self.b2_owner_dirty = False
            elif kind == "origin":
                a.append(f"$ORIGIN {it[1]}")
                self.inline.append(f"$ORIGIN {it[1]}")
                st["cur"] = _abs_under(it[1], st["cur"])
            elif kind == "soa":
                _, t, minimum = it
                line = f"@ {'' if t is None else str(t) + ' '}IN SOA ns1 hostmaster 1 2 3 4 {minimum}"
                a.append(line)
                self.inline.append(line)
                if t is not None:
                    eff = t
                    st["last"] = t
                elif st["default"] is not None:
                    eff = st["default"]
                elif st["last"] is not None:
                    eff = st["last"]
                else:
                    eff = minimum
                if st["default"] is None:
                    st["default"] = minimum
                owner = st["cur"]
                st["last_name"] = owner
                self.explicit.append(f"{owner} {eff} IN SOA {_abs_under('ns1', st['cur'])} {_abs_under('hostmaster', st['cur'])} 1 2 3 4 {minimum}")
            elif kind == "rr":
                _, owner, ttl, ty, rd = it
                abs_owner = st["last_name"] if owner is None else _abs_under(owner, st["cur"])
                zl = self.zone.lower()
                if not (abs_owner.lower() == zl or abs_owner.lower().endswith("." + zl)):
                    # out of zone: the owner is remembered, the rest of the line is eaten unread (no TTL bookkeeping)
                    st["last_name"] = abs_owner
                    ttl_txt = "" if ttl is None else f"{ttl} "
                    rd_txt = ("10 " if ty == "MX" else "") + rd
                    a.append(f"{'' if owner is None else owner} {ttl_txt}IN {ty} {rd_txt}")
                    b2_owner = abs_owner if (owner is None and self.b2_owner_dirty) else owner
                    self.b2_owner_dirty = False
                    self.inline.append(f"{'' if b2_owner is None else b2_owner} {ttl_txt}IN {ty} {rd_txt}")
                    continue
                if ttl is not None:
                    eff = ttl
                    st["last"] = ttl
                elif st["default"] is not None:
                    eff = st["default"]
                elif st["last"] is not None:
                    eff = st["last"]
                else:
                    eff = None
                    self.undefined_ttl = True
                st["last_name"] = abs_owner
                if ty in self.NAME_TYPES:
                    abs_rd = ("10 " if ty == "MX" else "") + _abs_under(rd, st["cur"])
                    rd_txt = ("10 " if ty == "MX" else "") + rd
                else:
                    abs_rd = rd_txt = rd
                ttl_txt = "" if ttl is None else f"{ttl} "
                a.append(f"{'' if owner is None else owner} {ttl_txt}IN {ty} {rd_txt}")
                self.explicit.append(f"{abs_owner} {eff} IN {ty} {abs_rd}")
                b2_owner = owner
                if owner is None and self.b2_owner_dirty:
                    b2_owner = abs_owner
                self.b2_owner_dirty = False
                b2_ttl = ttl_txt if not (ttl is None and self.b2_explicit_ttl) else f"{eff} "
                self.inline.append(f"{'' if b2_owner is None else b2_owner} {b2_ttl}IN {ty} {rd_txt}")
            elif kind == "include":
                _, child, org, trail, no_final_nl = it
                name = f"{INC_DIR}/f{self.nfiles}.zone"
                self.nfiles += 1
                a.append(f"$INCLUDE {name}{'' if org is None else ' ' + org}{trail}")
                saved = dict(st)
                if org is not None:
                    st["cur"] = _abs_under(org, st["cur"])
                    self.inline.append(f"$ORIGIN {st['cur']}")
                lines = self.walk(child, st)
                self.files[name] = "\n".join(lines) + ("" if (no_final_nl and lines) else "\n")
                # the end of the included file: everything saved comes back
                st.clear()
                st.update(saved)
                self.inline.append(f"$ORIGIN {st['cur']}")
                if st["default"] is not None:
                    self.inline.append(f"$TTL {st['default']}")
                else:
                    self.b2_explicit_ttl = True
                self.b2_owner_dirty = True
        return a



# ------------------------------------------------------------------------------------------------
# entry points and routes: Zone.to_text / to_file / to_styled_file (text, binary, path), dns.zone.from_text (str, bytes,
# file object; origin as Name or str) / from_file (path, file object), zone_factory, allow_directives, read_rrsets
# ------------------------------------------------------------------------------------------------
def _scratch():
    import tempfile
    return tempfile.mkdtemp(prefix="c09rt-")


def _outcome(f):
    try:
        return ("ok", f())
    except Stalled:
        raise
    except BaseException as e:  # noqa: BLE001
        return ("err " + err_family(e), None)


def eval_routes_case(ctx, c, rep):
    """every way of writing a zone gives the same text, every way of reading that text gives the same zone (TTLs included),
    and the legacy keyword arguments of to_text/to_file mean what the corresponding ZoneStyle fields mean"""
    import io
    import shutil
    import dns.versioned
    origin_labels = [bytes.fromhex(x) for x in c["origin"]]
    O = dns.name.Name(origin_labels)
    rel, rrel, kw = c["rel"], c["rrel"], c["kw"]
    P = "C09/routes" + ("/" + c["tag"] if c.get("tag") else "")
    try:
        z = build_zone(origin_labels, rel, c["recs"])
    except ValueError:
        if c.get("tag") == "comment-line-break":
            ctx.count("routes.comment-line-break-refused-at-construction")     # the reference since de8b98a: no such rdata can be made
            return
        raise
    if c.get("empties"):
        # falsy-but-valid content: a node without rdatasets and an rdataset without rdatas (what deleting the last rdata
        # leaves behind); they carry no record, so the text and the zone read back do not change
        z.find_node(dns.name.Name([b"empty-node"]) if rel else dns.name.Name([b"empty-node"] + origin_labels), create=True)
        some = next(iter(z.nodes.values()))
        some.rdatasets.append(dns.rdataset.Rdataset(IN, dns.rdatatype.from_text("TYPE65281")))
    sig_before = zone_sig(z)
    nrecords = sum(len(rds) for node in z.nodes.values() for rds in node.rdatasets)
    nl = {"n": "\n", "none": None, "bn": b"\n"}[kw["nl"]]
    args = dict(sorted=kw["sorted"], relativize=kw["relativize"], nl=nl, want_comments=kw["want_comments"], want_origin=kw["want_origin"])
    # what the keywords mean, written out independently (on this platform every nl value above is a line feed)
    expect_style = dns.zone.ZoneStyle(sorted=kw["sorted"], relativize=kw["relativize"], origin=O if kw["relativize"] else None,
                                      nl="\n", want_comments=kw["want_comments"], want_origin=kw["want_origin"])
    how, base = _outcome(lambda: z.to_styled_text(expect_style))
    ctx.count("routes.write")
    if base is None:
        ctx.fail(P + "/write/to_styled_text-raises", f"{how} for keywords {kw}", rep)
        return
    # one line per record (plus the $ORIGIN line): whatever the names, strings and comments hold -- LF, CR, TAB, NUL, DEL,
    # a trailing blank -- no raw line break may reach the text
    lines = [ln for ln in base.split("\n") if ln != ""]
    if len(lines) != nrecords + (1 if kw["want_origin"] else 0) or "\r" in base:
        ctx.fail(P + "/write/raw-line-break", f"{nrecords} records were written as {len(lines)} lines: {base!r}", rep)
        return
    how2, again = _outcome(lambda: z.to_styled_text(expect_style))
    if again != base or zone_sig(z) != sig_before:
        ctx.fail(P + "/write/not-idempotent", f"writing twice gave {how2} {again!r} after {base!r}, or changed the zone", rep)
    d = _scratch()
    try:
        path = os.path.join(d, "out.zone")

        def via_bytes(fn):
            b = io.BytesIO()
            fn(b)
            return b.getvalue().decode("utf-8")

        def via_text(fn):
            t = io.StringIO()
            fn(t)
            return t.getvalue()

        def via_path(fn):
            fn(path)
            with open(path, "rb") as f:
                return f.read().decode("utf-8")
        routes = {
            "to_styled_file/text": lambda: via_text(lambda f: z.to_styled_file(expect_style, f)),
            "to_styled_file/binary": lambda: via_bytes(lambda f: z.to_styled_file(expect_style, f)),
            "to_styled_file/path": lambda: via_path(lambda f: z.to_styled_file(expect_style, f)),
            "to_file/text": lambda: via_text(lambda f: z.to_file(f, **args)),
            "to_file/binary": lambda: via_bytes(lambda f: z.to_file(f, **args)),
            "to_file/path": lambda: via_path(lambda f: z.to_file(f, **args)),
            "to_file/positional": lambda: via_bytes(lambda f: z.to_file(f, args["sorted"], args["relativize"], nl, args["want_comments"], args["want_origin"])),
            "to_file/style-overrides": lambda: via_bytes(lambda f: z.to_file(f, not kw["sorted"], True, None, True, False, style=expect_style)),
        }
        if not isinstance(nl, bytes):
            routes["to_text"] = lambda: z.to_text(**args)
            routes["to_text/positional"] = lambda: z.to_text(args["sorted"], args["relativize"], nl, args["want_comments"], args["want_origin"])
        for name, fn in routes.items():
            how, got = _outcome(fn)
            if got != base:
                ctx.fail(f"{P}/write/{name}/differs",
                         f"{name} with {kw} gave {how} {got!r}, the style these keywords denote gives {base!r}", rep)
        # --- reading the text back through every door
        with open(path, "wb") as f:
            f.write(base.encode("utf-8"))
        give = None if (kw["want_origin"] and c.get("drop_origin")) else O
        how, zA = _outcome(lambda: dns.zone.from_text(base, origin=give, relativize=rrel, check_origin=False))
        ctx.count("routes.read")
        if zA is None:
            ctx.fail(P + "/read/from_text-raises", f"{how} on text written by the library {base!r}", rep)
            return
        zr = build_zone(origin_labels, rrel, c["recs"])
        if not zones_equal(zA, zr):
            ctx.fail(P + "/read/differs-from-zone", f"{base!r} (keywords {kw}) does not load back to the zone written", rep)
        gs = None if give is None else give.to_text()
        readers = {
            "from_text/origin-str": lambda: dns.zone.from_text(base, origin=gs, relativize=rrel, check_origin=False),
            "from_text/bytes": lambda: dns.zone.from_text(base.encode("utf-8"), origin=give, relativize=rrel, check_origin=False),
            "from_text/file-object": lambda: dns.zone.from_text(io.StringIO(base), origin=give, relativize=rrel, check_origin=False),
            "from_text/positional": lambda: dns.zone.from_text(base, give, IN, rrel, dns.zone.Zone, None, False, False),
            "from_file/path": lambda: dns.zone.from_file(path, origin=give, relativize=rrel, check_origin=False),
            "from_file/path-positional": lambda: dns.zone.from_file(path, gs, IN, rrel, dns.zone.Zone, None, True, False),
            "from_file/file-object": lambda: _with_open(path, lambda f: dns.zone.from_file(f, origin=give, relativize=rrel, check_origin=False)),
            "from_text/versioned": lambda: dns.zone.from_text(base, origin=give, relativize=rrel, check_origin=False, zone_factory=dns.versioned.Zone),
        }
        for name, fn in readers.items():
            how, zb = _outcome(fn)
            if zb is None or not zones_equal(zA, zb):
                ctx.fail(f"{P}/read/{name}/differs", f"{name} gave {how}, a zone other than from_text(str) on {base!r}", rep)
            elif type(zb) is type(zA) and not (zA == zb and zb == zA and not (zA != zb) and not (zb != zA)):
                ctx.fail(f"{P}/equality/{name}", f"== / != of two equal zones disagree (routes from_text(str) and {name})", rep)
        # the equality the property is stated in: reflexive, and a zone that lacks one record differs in both directions
        if not (zA == zA) or (zA != zA):
            ctx.fail(P + "/equality/reflexive", "a zone is not equal to itself", rep)
        drop = next((i for i in range(len(c["recs"]) - 1, -1, -1) if c["recs"][i][2] not in ("SOA", "NS", "RRSIG", "CNAME")
                     and sum(1 for r in c["recs"] if r[0] == c["recs"][i][0] and r[2] == c["recs"][i][2]) == 1), None)
        if drop is not None and "RRSIG" not in {r[2] for r in c["recs"]}:
            zu = build_zone(origin_labels, rrel, c["recs"][:drop] + c["recs"][drop + 1:])
            if zones_equal(zA, zr) and (zA == zu or zu == zA or not (zA != zu) or not (zu != zA)):
                ctx.fail(P + "/equality/unequal-zones-equal", f"a zone without {c['recs'][drop][2]} at one owner compares equal", rep)
        # check_origin default (True) on a zone that has SOA and NS at the apex
        # what the apex of the zone written holds (a signature covering CNAME among the records displaces the rest)
        apex = z.nodes.get(dns.name.empty if rel else O)
        apex_types = set() if apex is None else {dns.rdatatype.to_text(r.rdtype) for r in apex.rdatasets if len(r) > 0}
        how, zc = _outcome(lambda: dns.zone.from_file(path, origin=give, relativize=rrel))
        if not {"SOA", "NS"} <= apex_types:
            if zc is not None or how not in ("err NoSOA", "err NoNS"):
                ctx.fail("C09/routes/read/from_file/defaults/apex-unchecked", f"from_file with default check_origin gave {how} on {base!r}", rep)
        elif zc is None or not zones_equal(zA, zc):
            ctx.fail("C09/routes/read/from_file/defaults/differs", f"from_file with default check_origin gave {how} on {base!r}", rep)
    finally:
        shutil.rmtree(d, ignore_errors=True)


def _with_open(path, fn):
    with open(path, encoding="utf-8") as f:
        return fn(f)


def eval_directives_case(ctx, c, rep):
    """allow_directives / allow_include: which `$` lines are directives follows the set given, and nothing else changes"""
    import shutil
    origin_labels = [bytes.fromhex(x) for x in c["origin"]]
    O = dns.name.Name(origin_labels)
    rel = c["rel"]
    body = bytes.fromhex(c["body"]).decode("latin-1")          # record lines, no directive, no `$`
    ctx.count("directives")

    def load(text, **kw):
        return _outcome(lambda: dns.zone.from_text(text, origin=O, relativize=rel, check_origin=False, **kw))
    how0, z0 = load(body)
    if z0 is None:
        ctx.fail("C09/directives/plain-body-raises", f"{how0} on {body!r}", rep)
        return

    def same(name, text, expect_zone, **kw):
        how, zz = load(text, **kw)
        if expect_zone is None:
            if zz is not None or not how.startswith("err SyntaxError"):
                ctx.fail(f"C09/directives/{name}/accepted", f"{how} (expected a SyntaxError) on {text!r} with {kw}", rep)
        elif zz is None or not zones_equal(expect_zone, zz):
            ctx.fail(f"C09/directives/{name}/differs", f"{how} on {text!r} with {kw}", rep)
    # 1. a body without `$` loads alike whatever directives are allowed
    for name, kw in (("none-allowed", {"allow_directives": False}), ("empty-iterable", {"allow_directives": []}),
                     ("some-allowed", {"allow_directives": ["$TTL"]}), ("all-listed", {"allow_directives": ["ttl", "$origin", "Generate"]})):
        same("no-dollar/" + name, body, z0, **kw)
    # 2. an owner that starts with `$`: a record when no directive is allowed, the same record as its escaped spelling
    dollar = "$host 300 IN A 192.0.2.9\n$TTL 300 IN TXT \"not a directive\"\n"
    escaped = "\\$host 300 IN A 192.0.2.9\n\\$TTL 300 IN TXT \"not a directive\"\n"
    howe, ze = load(body + escaped)
    if ze is None:
        ctx.fail("C09/directives/escaped-dollar-raises", f"{howe} on {body + escaped!r}", rep)
    else:
        same("dollar-owner/none-allowed", body + dollar, ze, allow_directives=False)
        same("dollar-owner/empty-iterable", body + dollar, ze, allow_directives=())
        same("dollar-owner/default", body + "$host 300 IN A 192.0.2.9\n", None)
        same("dollar-owner/some-allowed", body + "$host 300 IN A 192.0.2.9\n", None, allow_directives=["$TTL"])
    # 3. listed directives work (any case, with or without `$`), unlisted ones are refused
    withttl = "$TTL 1234\n" + body + "late A 192.0.2.10\n"
    howt, zt = load(withttl)
    if zt is None:
        ctx.fail("C09/directives/ttl-directive-raises", f"{howt} on {withttl!r}", rep)
    else:
        for name, kw in (("dollar-upper", ["$TTL"]), ("lower-no-dollar", ["ttl"]), ("mixed", ["$Ttl", "ORIGIN"])):
            same("listed/" + name, withttl, zt, allow_directives=kw)
        same("unlisted", withttl, None, allow_directives=["$ORIGIN"])
        same("unlisted-generate", body + "$GENERATE 1-2 g$ 60 A 10.9.9.$\n", None, allow_directives=["$TTL", "$ORIGIN"])
    # a quoted string is not a TTL or an origin
    for name, line in (("quoted-ttl", '$TTL "300"\n'), ("quoted-origin", f'$ORIGIN "{O.to_text()}"\n'), ("ttl-no-argument", "$TTL\n"),
                       ("ttl-extra-token", "$TTL 300 400\n"), ("origin-extra-token", f"$ORIGIN {O.to_text()} x\n")):
        same("malformed/" + name, line + body, None)
        ctx.corr(f"c09.read {opt_name(origin_labels)} {int(rel)} 0 {variant()['gfix']} {txt_hex(line + body)}",
                 impl_read(origin_labels, rel, False, line + body)[0], c)
    gen = body + "$GENERATE 1-2 g$ 60 A 10.9.9.$\n"
    howg, zg = load(gen)
    if zg is not None:
        same("listed/generate", gen, zg, allow_directives=["generate"])
    # 4. $INCLUDE: allowed by from_file's default and by an explicit list, not by from_text's default
    d = _scratch()
    try:
        inc = os.path.join(d, "inc.zone")
        main = os.path.join(d, "main.zone")
        with open(inc, "w", encoding="latin-1", newline="") as f:
            f.write("inc1 60 IN A 192.0.2.20\n")
        mtext = body + f"$INCLUDE {inc}\nafter 60 IN A 192.0.2.21\n"
        with open(main, "w", encoding="latin-1", newline="") as f:
            f.write(mtext)
        inlined = body + "inc1 60 IN A 192.0.2.20\nafter 60 IN A 192.0.2.21\n"
        howi, zi = load(inlined)
        if zi is not None:
            same("include/from_text-default", mtext, None)
            same("include/from_text-allowed", mtext, zi, allow_include=True)
            same("include/listed-ignores-allow_include", mtext, zi, allow_directives=["$INCLUDE"], allow_include=False)
            same("include/not-listed", mtext, None, allow_directives=["$TTL"], allow_include=True)
            same("include/none-allowed", mtext, None, allow_directives=False, allow_include=True)
            how, zf = _outcome(lambda: dns.zone.from_file(main, origin=O, relativize=rel, check_origin=False))
            if zf is None or not zones_equal(zi, zf):
                ctx.fail("C09/directives/include/from_file-default/differs", f"from_file with its defaults gave {how} on {mtext!r}", rep)
            how, zf = _outcome(lambda: dns.zone.from_file(main, origin=O, relativize=rel, check_origin=False, allow_include=False))
            if zf is not None or not how.startswith("err SyntaxError"):
                ctx.fail("C09/directives/include/from_file-disallowed/accepted", f"from_file(allow_include=False) gave {how} on {mtext!r}", rep)
    finally:
        shutil.rmtree(d, ignore_errors=True)


def eval_rrsets_case(ctx, c, rep):
    """dns.zonefile.read_rrsets (the other user of Reader._rr_line) reads the same records as dns.zone.from_text, with the
    forced / default fields meaning what the explicit spelling means"""
    origin_labels = [bytes.fromhex(x) for x in c["origin"]]
    O = dns.name.Name(origin_labels)
    rel = c["rel"]
    rows = c["rows"]          # [owner text, ttl, type, rdata text]: distinct (owner, type), any relative/absolute spelling
    ctx.count("rrsets")
    full = "".join(f"{o} {t} IN {ty} {rd}\n" for o, t, ty, rd in rows)
    how, z = _outcome(lambda: dns.zone.from_text(full, origin=O, relativize=rel, check_origin=False))
    if z is None:
        ctx.fail("C09/rrsets/from_text-raises", f"{how} on {full!r}", rep)
        return
    want = zone_sig(z)

    def sig_of(rrsets):
        out = {}
        for rs in rrsets:
            out.setdefault(rs.name, {})[(int(rs.rdtype), int(rs.covers))] = (rs.ttl, frozenset(rs))
        return out

    def check(name, fn, expect=want):
        how, got = _outcome(fn)
        if got is None or sig_of(got) != expect:
            ctx.fail(f"C09/rrsets/{name}/differs", f"read_rrsets {name} gave {how} {None if got is None else [r.to_text() for r in got]!r} "
                     f"for {full!r} (origin {O}, relativize {rel})", rep)
    R = dns.zonefile.read_rrsets
    check("class-optional", lambda: R(full, rdclass=None, origin=O, relativize=rel))
    check("class-optional/origin-str", lambda: R(full, rdclass=None, origin=O.to_text(), relativize=rel))
    noclass = "".join(f"{o} {t} {ty} {rd}\n" for o, t, ty, rd in rows)
    check("class-forced", lambda: R(noclass, origin=O, relativize=rel))
    check("class-forced-by-name", lambda: R(noclass, rdclass="IN", origin=O, relativize=rel))
    # TTL-less lines under default_ttl (0 included) = the explicit TTL
    for dt in (c["dttl"], 0):
        exp_text = "".join(f"{o} {dt} IN {ty} {rd}\n" for o, t, ty, rd in rows)
        how2, z2 = _outcome(lambda: dns.zone.from_text(exp_text, origin=O, relativize=rel, check_origin=False))
        if z2 is None:
            continue
        nottl = "".join(f"{o} {ty} {rd}\n" for o, t, ty, rd in rows)
        check(f"default_ttl={dt}", lambda: R(nottl, default_ttl=dt, origin=O, relativize=rel), zone_sig(z2))
        check(f"default_ttl-str={dt}", lambda: R(nottl, default_ttl=str(dt), origin=O, relativize=rel), zone_sig(z2))
        check(f"forced-ttl={dt}", lambda: R(nottl, ttl=dt, origin=O, relativize=rel), zone_sig(z2))
    # an explicit TTL wins over default_ttl
    check("default_ttl-unused", lambda: R(noclass, default_ttl=77, origin=O, relativize=rel))
    # forced type: one type for all rows
    o1, t1, ty1, rd1 = rows[0]
    one = f"{o1} {t1} IN {ty1} {rd1}\n"
    how3, z3 = _outcome(lambda: dns.zone.from_text(one, origin=O, relativize=rel, check_origin=False))
    if z3 is not None:
        check("type-forced", lambda: R(f"{o1} {t1} {rd1}\n", rdtype=ty1, origin=O, relativize=rel), zone_sig(z3))
    if z3 is not None:
        T1 = dns.rdatatype.from_text(ty1)
        check("type-forced/enum", lambda: R(f"{o1} {t1} {rd1}\n", rdtype=T1, origin=O, relativize=rel), zone_sig(z3))
        check("type-forced/int", lambda: R(f"{o1} {t1} {rd1}\n", rdtype=int(T1), origin=O, relativize=rel), zone_sig(z3))
        check("class-enum", lambda: R(f"{o1} {t1} {ty1} {rd1}\n", rdclass=IN, default_rdclass="IN", origin=O, relativize=rel), zone_sig(z3))
    # TTL given as text, with units
    h1 = "".join(f"{o} 3600 IN {ty} {rd}\n" for o, t, ty, rd in rows)
    how5, z5 = _outcome(lambda: dns.zone.from_text(h1, origin=O, relativize=rel, check_origin=False))
    if z5 is not None:
        nottl = "".join(f"{o} {ty} {rd}\n" for o, t, ty, rd in rows)
        check("forced-ttl-text", lambda: R(nottl, ttl="1h", origin=O, relativize=rel), zone_sig(z5))
        check("default_ttl-text-units", lambda: R(nottl, default_ttl="60m", origin=O, relativize=rel), zone_sig(z5))
    # owner forced, given as absolute Name or as absolute text (the unrelativized reading)
    if z3 is not None and not rel:
        abs_owner = next(iter(z3.nodes))
        check("name-forced/Name", lambda: R(f"{t1} IN {ty1} {rd1}\n", name=abs_owner, rdclass=None, origin=O, relativize=False), zone_sig(z3))
        check("name-forced/str", lambda: R(f"{t1} IN {ty1} {rd1}\n", name=abs_owner.to_text(), rdclass=None, origin=O, relativize=False), zone_sig(z3))
    # no TTL anywhere: refused
    how4, got4 = _outcome(lambda: R(f"{o1} {ty1} {rd1}\n", origin=O, relativize=rel))
    if got4 is not None or not how4.startswith("err SyntaxError"):
        ctx.fail("C09/rrsets/missing-ttl/accepted", f"read_rrsets without any TTL gave {how4}", rep)



# ------------------------------------------------------------------------------------------------
# node kinds over the full (rdtype, covers) grid
# ------------------------------------------------------------------------------------------------
def ref_kind(t: int, cov: int) -> str:
    """the documented table, written out: CNAME and RRSIG(CNAME) are CNAME; NSEC (47), NSEC3 (50), KEY (25) and an RRSIG
    covering one of them are neutral (RFC 4035 2.5, RFC 3007); everything else -- the legacy SIG (24) whatever it covers
    included -- is other data (RFC 2181 10.1)"""
    if t == 5 or (t == 46 and cov == 5):
        return "CNAME"
    if t in (47, 50, 25) or (t == 46 and cov in (47, 50, 25)):
        return "NEUTRAL"
    return "REGULAR"


def ref_coexist(k1: str, k2: str) -> bool:
    return {k1, k2} != {"CNAME", "REGULAR"}


def eval_cnamegrid_case(ctx, c, rep):
    """one (rdtype, covers) cell against a CNAME and against an ordinary record at the same owner: through the zone-file
    reader (both orders, check_origin on/off, plain / versioned / B-tree zones), through the node API (most recent wins)
    and, where they may coexist, through write -> read"""
    import dns.versioned
    import dns.btreezone
    ty, cov, rd_text = c["ty"], c["covers"], c["rdata"]
    T, C = int(dns.rdatatype.from_text(ty)), (0 if cov is None else int(dns.rdatatype.from_text(cov)))
    O = dns.name.from_text("example.")
    kind = ref_kind(T, C)
    ctx.count("cnamegrid." + kind)
    ctx.corr(f"c09.classify {T} {C}", dns.node.NodeKind.classify(dns.rdatatype.RdataType.make(T), dns.rdatatype.RdataType.make(C)).name, c)
    apex = "@ 60 IN SOA ns1 hostmaster 1 2 3 4 5\n@ 60 IN NS ns1\n"
    cell = f"x 60 IN {ty} {rd_text}\n"
    partners = {"CNAME": "x 60 IN CNAME target\n", "REGULAR": "x 60 IN TXT \"other data\"\n", "NEUTRAL": "x 60 IN NSEC y A NSEC\n"}
    factories = {"plain": dns.zone.Zone, "versioned": dns.versioned.Zone, "btree": dns.btreezone.Zone}
    for pk, ptext in partners.items():
        if ptext.split()[3] == ty:
            continue
        ok = ref_coexist(kind, pk)
        for order, text in (("cell-first", apex + cell + ptext), ("partner-first", apex + ptext + cell)):
            for fname, fac in factories.items():
                for chk in (False, True):
                    for rel in ((True, False) if fname == "plain" else (True,)):
                        how, z = _outcome(lambda: dns.zone.from_text(text, origin=O, relativize=rel, check_origin=chk, zone_factory=fac))
                        if ok and z is None:
                            ctx.fail(f"C09/cnamegrid/{ty}-{cov}/with-{pk}/refused",
                                     f"{how} ({fname}, {order}, check_origin={chk}): {ty} covering {cov} is {kind}, may share a node with {pk}: {text!r}", rep)
                        elif not ok and (z is not None or how != "err CNAMEAndOtherData"):
                            ctx.fail(f"C09/cnamegrid/{ty}-{cov}/with-{pk}/accepted",
                                     f"{how} ({fname}, {order}, check_origin={chk}): {ty} covering {cov} is {kind}, must not share a node with {pk}: {text!r}", rep)
                        elif ok and fname == "plain" and not chk:
                            bad = cname_violation(z)
                            if bad is not None:
                                ctx.fail("C09/read/cname-and-other-data", f"after loading, {bad} holds a CNAME and other data: {text!r}", rep)
                            # write -> read
                            how2, t2 = _outcome(lambda: z.to_text(relativize=rel, want_origin=True))
                            how3, z3 = _outcome(lambda: dns.zone.from_text(t2, origin=O, relativize=rel, check_origin=False)) if t2 else (how2, None)
                            if z3 is None or not zones_equal(z, z3):
                                ctx.fail(f"C09/cnamegrid/{ty}-{cov}/with-{pk}/roundtrip", f"{how2} / {how3}: {text!r} written as {t2!r}", rep)
        # the node API: the most recent change wins, whatever the order
        for order in ("cell-last", "partner-last"):
            z = dns.zone.Zone(O, IN, relativize=True)
            seq = [(ty, rd_text), tuple(ptext.split()[3:4] + [" ".join(ptext.split()[4:])])]
            if order == "partner-last":
                pass
            else:
                seq.reverse()
            kinds = []
            how = "ok"
            try:
                for t_, r_ in seq:
                    rd = dns.rdata.from_text(IN, t_, r_, origin=O, relativize=True, relativize_to=O)
                    z.find_rdataset("x", rd.rdtype, rd.covers(), create=True).add(rd, 60)
                    kinds.append((int(rd.rdtype), int(rd.covers())))
            except Stalled:
                raise
            except BaseException as e:  # noqa: BLE001
                how = "err " + err_family(e)
            node = z.nodes.get(dns.name.Name([b"x"]))
            have = set() if node is None else {(int(r.rdtype), int(r.covers)) for r in node.rdatasets if len(r) > 0}
            # literal expectation: adding CNAME-kind drops other data, adding other data drops CNAME-kind, neutral stays
            exp = set()
            for tc in kinds:
                k = ref_kind(*tc)
                if k == "CNAME":
                    exp = {x for x in exp if ref_kind(*x) != "REGULAR"}
                elif k == "REGULAR":
                    exp = {x for x in exp if ref_kind(*x) != "CNAME"}
                exp.add(tc)
            if how != "ok" or have != exp:
                ctx.fail(f"C09/cnamegrid/{ty}-{cov}/api-{order}-{pk}", f"{how}: node holds {sorted(have)}, expected {sorted(exp)} after adding {seq}", rep)


def mutate_text(rng, text):
    """malformed stream: local damage to a well-formed zone text"""
    if not text:
        return text
    for _ in range(rng.range(1, 3)):
        i = rng.below(len(text) + 1)
        m = rng.below(8)
        ins = rng.choice(['"', "(", ")", ";", "\\", "\n", " ", "$", "@", ".", "\\#", " IN ", " 300 ", "\t", '""', "..", "\\256", "$TTL x\n",
                          "$ORIGIN ..\n", "$INCLUDE f\n", "$FOO\n", "$GENERATE 1-2 a$ A 10.0.0.$\n", "\nwww CNAME x\nwww A 1.2.3.4\n", "\n\"\"\n"])
        if m <= 3:
            text = text[:i] + ins + text[i:]
        elif m == 4 and i < len(text):
            text = text[:i] + text[i + 1:]
        elif m == 5:
            j = min(len(text), i + rng.below(12))
            text = text[:i] + text[j:]
        elif m == 6:
            text = text[:i]
        else:
            j = min(len(text), i + rng.below(20))
            text = text[:j] + text[i:j] + text[j:]
    return text


def generate(ctx: Ctx, scale: int, rng, thorough=False):
    n = lambda q: max(1, q * scale)
    # --- tokenizer
    for _ in range(n(700)):
        text = gen_tok_soup(rng) if rng.chance(2, 3) else layout(rng, gen_tok_line(rng)) + rng.choice(["\n", "", " ;c"])
        ops = [rng.choice(SCRIPT_OPS) for _ in range(rng.range(1, 6))]
        if rng.chance(1, 2):
            ops = ops[: rng.below(3)] + [rng.choice(["a00", "a11"])]
        c = {"kind": "tok", "text": l1(text).hex(), "ops": ops}
        ctx.case(("tok", text, tuple(ops)), sample=c)
        eval_case(ctx, c)
    for _ in range(n(200)):
        text = "".join(rng.choice(["a", "\\", "\\\\", '\\"', "\\0", "\\04", "\\046", "\\255", "\\256", "\\999", "\\1a2", "\\12", "\\a", "1", "\xe9", ".", '"', " ", "\\12\xb2", "\\1\xb23", "\\\xb9", "\xb2", "\\25\xb3"])
                       for _ in range(rng.range(0, 6)))
        c = {"kind": "unesc", "text": l1(text).hex()}
        ctx.case(("unesc", text), sample=c)
        eval_case(ctx, c)
    for _ in range(n(300)):
        flat, laid = gen_layout_case(rng)
        c = {"kind": "layout", "flat": l1(flat).hex(), "laid": l1(laid).hex()}
        ctx.case(("layout", laid), sample=c)
        eval_case(ctx, c)
    # --- ttl, range, int, modify
    for _ in range(n(400)):
        t, v = gen_ttl_text(rng)
        c = {"kind": "ttl", "text": l1(t).hex()}
        if v is not None:
            c["value"] = v
        ctx.case(("ttl", t), sample=c)
        eval_case(ctx, c)
    for kind, g in (("grange", gen_grange_text), ("int", gen_int_text), ("modify", gen_modify_text)):
        for _ in range(n(200)):
            t = g(rng)
            c = {"kind": kind, "text": l1(t).hex()}
            ctx.case((kind, t), sample=c)
            eval_case(ctx, c)
    # --- reader: spellings, malformed, $GENERATE, out-of-zone
    for _ in range(n(260)):
        origin = rng.choice(ORIGINS)
        rel = rng.chance(1, 2)
        recs = recs_to_case(gen_zone_records(rng, origin, MODEL_TYPES, nnames=rng.choice([2, 3, 4, 6]), simple_names=rng.chance(2, 3)))
        if rng.chance(1, 3):
            # SOA last: until it is read no default TTL is known, so omitted TTLs inherit the last explicit one
            recs = recs[1:] + recs[:1]
        ra, rb = rng.fork(1), rng.fork(2)
        ta = render_zone_text(ra, origin, recs, spell=False)
        tb = render_zone_text(rb, origin, recs, spell=True)
        c = {"kind": "spell", "what": "respell", "origin": hexl(origin), "rel": rel, "a": l1(ta).hex(), "b": l1(tb).hex(), "recs": recs}
        ctx.case(("spell", ta, tb, rel), sample=c if len(tb) < 600 else None)
        eval_case(ctx, c)
        # out-of-zone records are ignored
        if rng.chance(1, 2) and origin != [b""]:
            anc = origin[rng.range(1, len(origin) - 1):]          # a proper ancestor of the origin (possibly the root)
            sib = [b"zz"] + origin[1:]                             # a sibling of the origin
            extra = rng.choice(["out.other. 300 IN A 1.2.3.4", "zz.invalid. IN TXT \"x\" ( \n \"y\" )", "other. 5 CNAME www", "x.net. MX 10 (\n a )\n  A 9.9.9.9",
                                name_text(anc) + " 300 IN A 1.2.3.4", name_text(anc) + " IN NS ns1\n\t300 IN TXT \"inherits the out-of-zone owner\"",
                                name_text(sib) + " 60 IN A 10.9.8.7", name_text(anc) + " 300 IN CNAME www ( ; junk ( \n )"])
            text = tb + ("" if tb.endswith("\n") else "\n") + extra + "\n"
            c2 = {"kind": "spell", "what": "out-of-zone", "origin": hexl(origin), "rel": rel, "a": l1(tb).hex(), "b": l1(text).hex()}
            ctx.case(("ooz", text, rel), sample=None)
            eval_case(ctx, c2)
        # CNAME and other data at one name, in either order: loading must fail (correspondence) and, if it does not, stay exclusive
        if rng.chance(1, 3):
            o = rng.choice([r for r in recs if r[0] != hexl(origin)] or recs)
            own = name_text([bytes.fromhex(x) for x in o[0]])
            other = rng.choice(["A 10.1.1.1", "TXT \"t\"", "MX 5 mx", "NS ns9"])
            pair = [f"cn-{rng.below(9)}.{own} 300 IN CNAME target", f"cn-{rng.below(9)}.{own} 300 IN {other}"]
            pair[1] = pair[0].split(" ")[0] + " " + pair[1].split(" ", 1)[1]
            if rng.chance(1, 2):
                pair.reverse()
            tc = ta + "\n".join(pair) + "\n"
            c4 = {"kind": "read", "origin": hexl(origin), "rel": rel, "chk": False, "text": l1(tc).hex()}
            ctx.case(("cnameconflict", tc, rel), sample=None)
            eval_case(ctx, c4)
        # malformed stream (foreign exceptions on this stream belong to C04; here only correspondence + CNAME exclusivity)
        for i in range(2):
            tm = mutate_text(rng, tb) if i else render_zone_text(rng.fork(9), origin, recs, spell=True, generic_names=True)
            c3 = {"kind": "read", "origin": hexl(origin) if rng.chance(5, 6) else None, "rel": rel, "chk": rng.chance(1, 4), "text": l1(tm).hex(),
                  "malformed_c04": True}
            ctx.case(("read", tm, rel), sample=None)
            eval_case(ctx, c3)
    for gi in range(n(220)):
        origin = rng.choice(ORIGINS[:3])
        rel = rng.chance(2, 3)
        pre = f"$TTL 3600\n@ IN SOA ns1 hostmaster 1 2 3 4 5\n@ NS ns1\n" if rng.chance(5, 6) else "@ 5 IN NS ns1\n"
        # $ORIGIN switches before the $GENERATE: a sub-origin, a sibling (out of zone), back to the zone origin, none
        osw = rng.choice(["none", "sub", "sub", "sub2", "sibling", "back", "subrel"])
        o_txt = name_text(origin)
        if osw == "sub":
            pre += f"$ORIGIN hosts.{o_txt}\n"
        elif osw == "sub2":
            pre += f"$ORIGIN a.{o_txt}\n$ORIGIN b.a.{o_txt}\n"
        elif osw == "sibling":
            pre += "$ORIGIN sibling.invalid.\n"
        elif osw == "back":
            pre += f"$ORIGIN deep.hosts.{o_txt}\n$ORIGIN {o_txt}\n"
        elif osw == "subrel":
            pre += f"$ORIGIN {o_txt}\n$ORIGIN x\n"     # a relative $ORIGIN argument, taken under the current origin
        gl, _ = gen_generate_line(rng, names=(gi % 2 == 0))
        post = rng.choice(["", f"after 60 IN PTR tail\n", f"$ORIGIN {o_txt}\nlast 60 IN NS ns1\n",
                           "  60 IN TXT \"continues the last generated owner\"\n", "\t IN TXT \"no owner, no ttl\"\nnext A 192.0.2.77\n"])
        ta = pre + gl + "\n" + post
        try:
            exp = expand_generate(gl, origin)
        except Exception:
            exp = None
        c = {"kind": "read", "origin": hexl(origin), "rel": rel, "chk": False, "text": l1(ta).hex()}
        ctx.case(("gen", ta, rel), sample=c)
        ctx.count("generate.origin-switch." + osw)
        eval_case(ctx, c)
        if exp is not None:
            tb = pre + "\n".join(exp) + "\n" + post
            la, za = impl_read(origin, rel, False, ta)
            if za is not None:
                c2 = {"kind": "spell", "what": "generate-vs-expansion", "origin": hexl(origin), "rel": rel, "a": l1(ta).hex(), "b": l1(tb).hex()}
                ctx.case(("genexp", ta), sample=c2)
                eval_case(ctx, c2)
                # $ORIGIN-relative versus absolute: the same expansion with every name written out under the zone origin
                if osw in ("sub", "sub2", "back", "subrel") and rng.chance(1, 2):
                    cur = {"sub": "hosts." + o_txt, "sub2": "b.a." + o_txt, "back": o_txt, "subrel": "x." + o_txt}[osw]
                    abs_lines = absolutize_expansion(exp, cur)
                    if abs_lines is not None:
                        tcabs = pre.split("$ORIGIN")[0] + "\n".join(abs_lines) + "\n" + (post.replace("after 60 IN PTR tail", f"after.{cur} 60 IN PTR tail.{cur}").replace("next A ", f"next.{cur} A ") if "$ORIGIN" not in post else f"last.{o_txt} 60 IN NS ns1.{o_txt}\n")
                        c3 = {"kind": "spell", "what": "generate-vs-absolute-expansion", "origin": hexl(origin), "rel": rel,
                              "a": l1(ta).hex(), "b": l1(tcabs).hex()}
                        ctx.case(("genabs", ta), sample=None)
                        eval_case(ctx, c3)
    # --- TTL defaulting: a line without a TTL field ($GENERATE and plain RR) in zones with ($TTL | SOA-minimum default |
    # neither) x (an earlier explicit TTL that differs from the default | none).  Both line kinds take the default TTL
    # when one is known and the last stated TTL otherwise; `Zone.__eq__` ignores TTLs, `zones_equal` here does not.
    for ti in range(n(160)):
        origin = rng.choice(ORIGINS[:3])
        rel = rng.chance(1, 2)
        dflt = ["ttl", "soa", "soa-nottl", "none"][ti % 4]
        early = rng.choice([None, 86400, 86400, 7, 0, 1800])
        d = rng.choice([3600, 300, 1, 0])
        minimum = rng.choice([300, 60, 5, 0])
        pre, default, last = [], None, None
        if dflt == "ttl":
            pre.append(rng.choice([f"$TTL {d}", f"$ttl {d}"]))
            default = d
        if dflt != "none":
            soa_ttl = "" if (dflt == "soa-nottl" or (dflt == "ttl" and rng.chance(1, 2))) else "7200 "
            pre.append(f"@ {soa_ttl}IN SOA ns1 hostmaster 1 2 3 4 {minimum}")
            if soa_ttl:
                last = 7200
            if default is None:
                default = minimum
        if early is not None:
            pre.append(rng.choice([f"@ {early} IN NS ns1", f"@ IN {early} NS ns1", f"@ {early} NS ns1"]))
            last = early
        elif default is not None:
            pre.append("@ NS ns1")
        if early is not None and rng.chance(1, 3):
            e2 = rng.choice([early, 42])
            pre.append(f"glue {e2} A 192.0.2.1")
            last = e2
        expected = default if default is not None else last        # the rule, written out independently
        cls = rng.choice(["", "IN ", "in "])
        gty, grhs = rng.choice([("A", "10.0.1.$"), ("CNAME", "t$"), ("TXT", "v$"), ("PTR", "p${0,2,d}.x")])
        gl = f"$GENERATE {rng.choice(['1-3', '7-7', '2-6/2'])} host$ {cls}{gty} {grhs}"
        plain = [f"w {cls}A 10.0.0.9", "  AAAA ::1"] if rng.chance(2, 3) else [f"w {cls}MX 10 mail"]
        order = rng.below(3)

        def assemble(gen_lines, plain_lines):
            body = gen_lines + plain_lines if order == 0 else plain_lines + gen_lines if order == 1 else gen_lines
            return "\n".join(pre + body) + "\n"
        ta = assemble([gl], plain)
        exp = expand_generate(gl, origin)
        tb = assemble(exp, plain)
        ctx.count(f"ttl-default.{dflt}.{'early' if early is not None else 'noearly'}")
        c = {"kind": "read", "origin": hexl(origin), "rel": rel, "chk": False, "text": l1(ta).hex()}
        ctx.case(("ttldef", ta, rel), sample=c)
        eval_case(ctx, c)
        if expected is None:
            # no TTL anywhere: both spellings are refused alike ("Missing default TTL value")
            eval_case(ctx, {"kind": "read", "origin": hexl(origin), "rel": rel, "chk": False, "text": l1(tb).hex()})
            continue
        c2 = {"kind": "spell", "what": "generate-vs-expansion", "origin": hexl(origin), "rel": rel, "a": l1(ta).hex(), "b": l1(tb).hex()}
        ctx.case(("ttldef-exp", ta, rel), sample=c2)
        eval_case(ctx, c2)
        # inherited versus explicit TTL, both line kinds: every TTL-less line spelled with the expected TTL
        def with_ttl(ln):
            w = ln.split(" ")
            if ln.startswith("$GENERATE"):
                return " ".join(w[:3] + [str(expected)] + w[3:])
            if ln.startswith("  "):
                return f"  {expected} " + ln.strip()
            return " ".join(w[:1] + [str(expected)] + w[1:])
        tc = assemble([with_ttl(gl)], [with_ttl(x) for x in plain])
        td = assemble([with_ttl(x) for x in exp], [with_ttl(x) for x in plain])
        for what, t2 in (("ttl-inherited-vs-explicit/generate", tc), ("ttl-inherited-vs-explicit/lines", td)):
            c3 = {"kind": "spell", "what": what, "origin": hexl(origin), "rel": rel, "a": l1(ta).hex(), "b": l1(t2).hex()}
            ctx.case(("ttldef-x", what, ta, rel), sample=None)
            eval_case(ctx, c3)
        # and the TTLs themselves, read off the loaded zone (rdataset.ttl of every generated / plain owner)
        la, za = impl_read(origin, rel, False, ta)
        if za is not None:
            for name, node in za.nodes.items():
                for rds in node.rdatasets:
                    lab0 = name.labels[0] if name.labels else b""
                    if lab0.startswith(b"host") or lab0 == b"w":
                        if rds.ttl != expected:
                            ctx.fail("C09/read/ttl-defaulting/wrong-ttl",
                                     f"{name} {dns.rdatatype.to_text(rds.rdtype)} loaded with TTL {rds.ttl}, expected {expected} "
                                     f"(default {default}, last stated {last}) from {ta!r}", {"kind": "read", "case": c})

    # --- $INCLUDE file [origin]: nested up to 3 deep, both forms, $ORIGIN/$TTL changes inside the included files,
    # relative names / inherited owners / TTL-less lines after the include returns; against the fully explicit spelling and
    # the textually inlined spelling with explicit save/restore; allow_include on and off; a missing file
    for ii in range(n(90)):
        origin = rng.choice(ORIGINS[:3])
        rel = rng.chance(1, 2)
        ic = IncludeCase(rng, name_text(origin))
        text, files, explicit, inline = ic.render()
        allow = not (ii % 9 == 8) or not files
        fl = [[l1(a).hex(), l1(b).hex()] for a, b in files.items()]
        if ii % 17 == 16 and fl:
            fl = fl[:-1]          # the last file does not exist
            explicit = inline = None
        bad = None
        if ii % 6 == 5 and files:
            # a malformed $INCLUDE line after everything else: an origin that is not an identifier, tokens after the
            # origin, a quoted file name with an origin and trailing junk -- all refused
            f0 = list(files)[0]
            bad = rng.choice([f'$INCLUDE {f0} "quoted.origin"', f"$INCLUDE {f0} inc extra", f"$INCLUDE {f0} inc 300 IN A 10.0.0.1",
                              f'$INCLUDE "{f0}" inc ( junk', f"$INCLUDE {f0} \\# 0"])
            text = text + bad + "\nlast 60 IN A 192.0.2.99\n"
            explicit = inline = None
        c = {"kind": "include", "origin": hexl(origin), "rel": rel, "allow": allow, "text": l1(text).hex(), "files": fl,
             "explicit": None if explicit is None else l1("\n".join(explicit) + "\n").hex(),
             "inline": None if inline is None else l1("\n".join(inline) + "\n").hex(),
             "undefined_ttl": bool(ic.undefined_ttl) and ii % 17 != 16 and bad is None, "refused": bad is not None and ii % 17 != 16}
        ctx.case(("include", text, tuple(map(tuple, fl)), rel, allow), sample=c)
        ctx.count("include.files%d" % max(1, min(3, len(files))))
        eval_case(ctx, c)

    # --- "$ORIGIN-relative versus absolute names" for the argument of $ORIGIN itself (RFC 1035 5.1: a relative
    # domain name in a master file, the $ORIGIN argument included, is completed with the current origin; repaired in
    # c444c98, witness corpus/C09/relative-origin-directive.json kept as regression case)
    for _ in range(n(24)):
        origin = rng.choice(ORIGINS[:3])
        rel = rng.chance(1, 2)
        o_txt = name_text(origin)
        pre = "$TTL 3600\n@ IN SOA ns1 hostmaster 1 2 3 4 5\n@ NS ns1\n"
        cur = o_txt
        if rng.chance(1, 2):
            cur = "hosts." + o_txt
            pre += f"$ORIGIN {cur}\n"
        lab = rng.choice(["x", "sub", "a.b"])
        body = rng.choice(["w 60 IN A 10.0.0.1\n", "w 60 IN A 10.0.0.1\nv CNAME w\n", "@ 60 IN TXT \"t\"\n",
                           "$GENERATE 1-2 g$ 60 PTR h$\n", "p MX 10 q\n$GENERATE 3-4 m$ CNAME p\n"])
        ta = pre + f"$ORIGIN {lab}\n" + body
        tb = pre + f"$ORIGIN {lab}.{cur}\n" + body
        c = {"kind": "spell", "what": "relative-origin-directive", "origin": hexl(origin), "rel": rel,
             "a": l1(ta).hex(), "b": l1(tb).hex()}
        ctx.case(("relorigin", ta, rel), sample=c)
        eval_case(ctx, c)
        if rng.chance(1, 3):
            # no origin at all to complete the relative argument: an error of the library's own, never a zone whose
            # origin is relative (read correspondence + foreign-exception oracle)
            c0 = {"kind": "read", "origin": None, "rel": rel, "chk": False,
                  "text": l1(f"$ORIGIN {lab}\n$TTL 60\n@ IN SOA ns1 hostmaster 1 2 3 4 5\n@ NS ns1\n" + body).hex()}
            ctx.case(("relorigin-none", lab, body, rel), sample=None)
            eval_case(ctx, c0)

    # --- $GENERATE whose owners straddle the zone cut: the zone origin lies below the current origin and only some of the
    # generated owners are in the zone ("records outside the zone origin are ignored" x "$GENERATE versus its expansion")
    for gi in range(n(12)):
        base = rng.choice(ORIGINS[:3])
        k = rng.choice([0, 1, 2, 3])
        origin = [b"h%d" % k] + list(base)
        rel = rng.chance(1, 2)
        a = rng.choice([0, 0, 1, k])
        b = a + rng.choice([2, 3, 4])
        ttl = rng.choice(["", "300 "])
        ty, rhs = rng.choice([("A", "10.0.0.$"), ("TXT", "v$"), ("PTR", "p$")])
        pre = f"$TTL 60\n@ IN SOA ns1 hostmaster 1 2 3 4 5\n@ NS ns1\n$ORIGIN {name_text(base)}\n"
        gl = f"$GENERATE {a}-{b} h$ {ttl}{ty} {rhs}"
        post = rng.choice(["", "h%d TXT \"tail\"\n" % k])
        ta = pre + gl + "\n" + post
        tb = pre + "\n".join(expand_generate(gl, base)) + "\n" + post
        c = {"kind": "spell", "what": "generate-straddles-zone-cut", "origin": hexl(origin), "rel": rel, "a": l1(ta).hex(), "b": l1(tb).hex()}
        ctx.case(("genstraddle", ta, rel), sample=c)
        eval_case(ctx, c)

    # --- node kinds: every known type (and TYPEnnn) with covers NONE, RRSIG and SIG with every interesting covered type,
    # against a CNAME / other data / a neutral rdataset at the same owner
    sig_tail = "8 2 60 20380119031407 20240101000000 1 example. AAAA"
    grid = [(t, None) for t in ORACLE_TYPES if t not in ("RRSIG", "CNAME")] + [("KEY", None), ("CNAME", None), ("TYPE65281", None)]
    for sg in ("RRSIG", "SIG"):
        for cov in ["CNAME", "NSEC", "NSEC3", "KEY", "A", "MX", "TXT", "DNSKEY", "SOA", "NS", "DS", "DNAME", "RRSIG", "SIG", "TYPE65280"]:
            grid.append((sg, cov))
    step = 1 if thorough else 2
    for gi, (ty, cov) in enumerate(grid):
        if cov is None and gi % step != (ctx.seed if hasattr(ctx, "seed") else 0) % step and ty not in ("KEY", "NSEC", "NSEC3", "CNAME", "DNSKEY", "A"):
            continue
        if cov is not None:
            rd_text = f"{cov} {sig_tail}"
        elif ty == "KEY":
            rd_text = "256 3 8 AQID"
        elif ty == "TYPE65281":
            rd_text = "\\# 2 abcd"
        elif ty == "CNAME":
            rd_text = "target"
        else:
            rd_text = gen_rdata_text(rng, ty, ORIGINS[0])
        c = {"kind": "cnamegrid", "ty": ty, "covers": cov, "rdata": rd_text}
        ctx.case(("cnamegrid", ty, cov), sample=c)
        eval_case(ctx, c)

    # --- entry points and routes
    for ri in range(n(36)):
        origin = rng.choice(ORIGINS[:3])
        recs = recs_to_case(gen_zone_records(rng, origin, MODEL_TYPES if rng.chance(1, 2) else ORACLE_TYPES, nnames=rng.choice([2, 3, 5]),
                                             simple_names=rng.chance(1, 2)))
        kw = {"sorted": rng.chance(1, 2), "relativize": rng.chance(1, 2), "nl": rng.choice(["n", "none", "bn"]),
              "want_comments": rng.chance(1, 2), "want_origin": rng.chance(1, 2)}
        c = {"kind": "routes", "origin": hexl(origin), "rel": rng.chance(1, 2), "rrel": rng.chance(1, 2), "recs": recs, "kw": kw,
             "drop_origin": rng.chance(1, 2)}
        ctx.case(("routes", ri, str(kw)), sample=c if len(recs) < 8 else None)
        eval_case(ctx, c)
    # hostile-but-valid content: labels, strings and comments that begin or end with LF / CR / TAB / blank / NUL / DEL;
    # empty nodes and rdatasets; one large zone (300 names, a 255-octet name, 65535 octets of RDATA)
    EDGE = [b"\n", b"\r", b"\t", b" ", b"\x00", b"\x7f", b";", b"(", b"\""]
    for hi in range(n(10)):
        origin = ORIGINS[hi % 2]
        recs = gen_zone_records(rng, origin, MODEL_TYPES, nnames=2, simple_names=True)
        comments = ["tail ", "\ttab", "semi;colon", "q\"uote", "(paren", "back\\slash", "del\x7f", " lead", "x" * 300, ""]
        for j in range(rng.range(2, 5)):
            e1, e2 = rng.choice(EDGE), rng.choice(EDGE)
            lab = rng.choice([b"a" + e1, e1 + b"b", e1 + b"c" + e2, e1])
            txt = "".join("\\%03d" % b for b in (e2 + b"str" + e1))
            recs.append([[lab + b"%d" % j] + list(origin), rng.choice([0, 60, 2**31 - 1]), rng.choice(["TXT", "TXT", "A"]), None, rng.choice(comments)])
            recs[-1][3] = f'"{txt}" "{txt}"' if recs[-1][2] == "TXT" else f"192.0.2.{j}"
        kw = {"sorted": rng.chance(1, 2), "relativize": rng.chance(1, 2), "nl": "n", "want_comments": hi % 3 != 2, "want_origin": rng.chance(1, 2)}
        c = {"kind": "routes", "origin": hexl(origin), "rel": rng.chance(1, 2), "rrel": rng.chance(1, 2), "recs": recs_to_case(recs), "kw": kw,
             "drop_origin": False, "empties": hi % 2 == 0}
        ctx.case(("routes-edge", hi, str(kw)), sample=c)
        eval_case(ctx, c)
    for hi in range(n(2)):
        # a comment holding a line break (only the object API can make one): the writer must not let it through
        origin = ORIGINS[0]
        recs = gen_zone_records(rng, origin, MODEL_TYPES, nnames=2, simple_names=True)
        recs.append([[b"www"] + list(origin), 60, "A", "192.0.2.1", rng.choice(["evil\nwww2 60 IN A 192.0.2.66", "cr\rlf"])])
        kw = {"sorted": True, "relativize": True, "nl": "n", "want_comments": True, "want_origin": False}
        c = {"kind": "routes", "origin": hexl(origin), "rel": True, "rrel": True, "recs": recs_to_case(recs), "kw": kw,
             "drop_origin": False, "tag": "comment-line-break"}
        ctx.case(("routes-comment-nl", hi), sample=c)
        eval_case(ctx, c)
    if True:
        origin = ORIGINS[0]
        recs = gen_zone_records(rng, origin, MODEL_TYPES, nnames=2, simple_names=True)
        for j in range(300):
            recs.append([[b"n%03d" % j] + list(origin), 300, "A", "10.%d.%d.1" % (j // 250, j % 250), None])
        long_name = [b"l" * 63, b"m" * 63, b"n" * 63, b"o" * (255 - 3 * 64 - 1 - len(b"example") - 2)] + list(origin)
        recs.append([long_name, 60, "A", "192.0.2.255", None])
        recs.append([[b"big"] + list(origin), 60, "TYPE65280", "\\# 65535 " + "ab" * 65535, None])
        recs.append([[b"txt255"] + list(origin), 60, "TXT", " ".join('"' + "t" * 255 + '"' for _ in range(40)), None])
        kw = {"sorted": True, "relativize": rng.chance(1, 2), "nl": "n", "want_comments": False, "want_origin": True}
        c = {"kind": "routes", "origin": hexl(origin), "rel": rng.chance(1, 2), "rrel": rng.chance(1, 2), "recs": recs_to_case(recs), "kw": kw,
             "drop_origin": True, "tag": "large"}
        ctx.case(("routes-large",), sample=None)
        eval_case(ctx, c)
    for di in range(n(12)):
        origin = rng.choice(ORIGINS[:3])
        body = "@ 3600 IN SOA ns1 hostmaster 1 2 3 4 5\n@ 3600 IN NS ns1\n" + "".join(
            f"n{j} {rng.choice([60, 300, 86400])} IN {ty} {rd}\n" for j, (ty, rd) in enumerate(
                rng.choice([("A", "192.0.2.1"), ("MX", "10 mail"), ("TXT", '"x y"'), ("NS", "ns2.elsewhere.invalid."), ("PTR", "@")])
                for _ in range(rng.range(1, 4))))
        c = {"kind": "directives", "origin": hexl(origin), "rel": rng.chance(1, 2), "body": l1(body).hex()}
        ctx.case(("directives", body, di), sample=c)
        eval_case(ctx, c)
    for qi in range(n(24)):
        origin = rng.choice(ORIGINS[:3])
        o_txt = name_text(origin)
        rows = []
        for j in range(rng.range(1, 5)):
            ty, rd = rng.choice([("A", "192.0.2.%d" % j), ("MX", "10 mail"), ("MX", "0 @"), ("TXT", '"x y"'), ("NS", "ns2.elsewhere.invalid."),
                                 ("PTR", "t%d" % j), ("NS", f"ns.{o_txt}")])
            rows.append([rng.choice([f"r{j}", f"r{j}.s", f"r{j}.{o_txt}", "@" if j == 0 else f"q{j}"]), rng.choice([0, 1, 300, 86400]), ty, rd])
        c = {"kind": "rrsets", "origin": hexl(origin), "rel": rng.chance(1, 2), "rows": rows, "dttl": rng.choice([5, 3600, 2**31 - 1])}
        ctx.case(("rrsets", str(rows), qi), sample=c)
        eval_case(ctx, c)

    # --- zones: write then read
    styles = pairwise(rng.fork(3), KNOBS)
    ctx.extra["pairwise_styles"] = len(styles)
    zi = 0
    for zn in range(n(40)):
        origin = rng.choice(ORIGINS)
        model_only = rng.chance(1, 2)
        foreign = zn % 4 == 3 and origin != [b""]
        recs = recs_to_case(gen_zone_records(rng, origin, MODEL_TYPES if model_only else ORACLE_TYPES,
                                             simple_names=rng.chance(1, 2), foreign=foreign))
        sts = rng.shuffle(styles)[: max(6, len(styles) // 3)]
        if foreign:
            sts = [dict(st, gen=True) if i % 2 == 0 else st for i, st in enumerate(sts)]
        for st in sts:
            rel = rng.chance(1, 2)
            zi += 1
            c = {"kind": "zone", "origin": hexl(origin), "rel": rel, "recs": recs, "style": st}
            ctx.case(("zone", zi, str(st), rel), sample=c if len(recs) < 8 else None)
            eval_case(ctx, c)
    if thorough:
        # full product of the on/off knobs (and the $TTL knob, the owner column width) on a small zone, both relativities
        import itertools
        origin = ORIGINS[0]
        recs = recs_to_case(gen_zone_records(rng, origin, ORACLE_TYPES, nnames=3))
        recs_f = recs_to_case(gen_zone_records(rng, origin, ORACLE_TYPES, nnames=3, foreign=True))
        full = [("sorted", [True, False]), ("wo", [False, True]), ("dttl", [None, "zone", 12345]), ("dedup", [False, True]),
                ("nj", [0, -24]), ("gen", [False, True]), ("com", [False, True]), ("oc", [False, True]),
                ("so", ["none", "zone"]), ("sr", [False, True])]
        base = {"tj": -7, "cj": 4, "yj": -8, "hc": 16, "hs": " ", "bc": 4, "bs": " "}
        for combo in itertools.product(*[range(len(v)) for _, v in full]):
            st = dict(base)
            st.update({full[i][0]: full[i][1][j] for i, j in enumerate(combo)})
            for rel in (True, False):
                c = {"kind": "zone", "origin": hexl(origin), "rel": rel, "recs": recs_f if st["gen"] else recs, "style": st}
                ctx.case(("zonefull", str(st), rel), sample=None)
                eval_case(ctx, c)


def guarded_generate(ctx: Ctx, scale: int, rng, thorough=False):
    """the generators themselves call the library (rendering names, parsing template RDATA); if that raises, report it"""
    try:
        generate(ctx, scale, rng, thorough)
    except Exception as e:  # noqa: BLE001
        import traceback
        ctx.fail(f"C09/generator/unexpected-exception:{type(e).__name__}",
                 "building a well-formed test input through the library raised: " + traceback.format_exc()[-1500:],
                 {"kind": "generator", "case": {"kind": "generator", "error": repr(e)}})


def run(ctx: Ctx):
    ctx.extra["implementation_variant"] = dict(variant())
    for p in sorted(glob.glob(os.path.join(VERIF, "corpus", "C09", "*.json"))):
        c = json.load(open(p))
        ctx.case(("corpus", p), sample=None)
        eval_case(ctx, c)
        ctx.count("corpus")
    # ctx.rng streams of neighbouring seeds are shifted copies of one another (state = seed * golden + c); forking
    # through one mixed output decorrelates them
    guarded_generate(ctx, 1 if ctx.tier == "quick" else 12, ctx.rng.fork(0xC09), thorough=(ctx.tier == "thorough"))


def search(ctx: Ctx):
    for m in ctx.mismatches[:50]:
        if m.case is not None:
            eval_case(ctx, m.case)
    guarded_generate(ctx, 3 if ctx.tier == "quick" else 20, ctx.rng.fork(7))


def replay(ctx: Ctx, obj: dict):
    if obj["case"].get("kind") == "generator":
        guarded_generate(ctx, 1, ctx.rng.fork(0xC09))
        return [f.what for f in ctx.failures]
    eval_case(ctx, obj["case"])
    return [f.what for f in ctx.failures]


def impl_of_op(op: str):
    """re-run one protocol line against the implementation (used by --replay of a correspondence break)"""
    w = op.split(" ")
    dec = lambda h: (b"" if h == "-" else bytes.fromhex(h)).decode("latin-1")
    if w[0] == "c09.tok":
        return impl_tok_script(dec(w[1]), w[2:])
    if w[0] == "c09.unesc":
        return impl_unesc(dec(w[1]))
    if w[0] == "c09.ttl":
        return impl_ttl(dec(w[1]))
    if w[0] == "c09.grange":
        return impl_grange(dec(w[1]))
    if w[0] == "c09.int":
        return impl_int(dec(w[1]))
    if w[0] == "c09.modify":
        return impl_modify(dec(w[1]))
    if w[0] == "c09.read":
        from harness.core import dec_labels
        o = None if w[1] == "none" else dec_labels(w[1])
        return impl_read(o, w[2] == "1", w[3] == "1", dec(w[5]))[0]
    return "?"


LEVEL = {
    "text": "Lean 4 theorems over executable models of dns/tokenizer.py, dns/ttl.py, dns/grange.py, dns/zonefile.py and the "
            "zone/node/rdataset text writer. Proved for all inputs: layout independence of the tokenizer (parentheses, newlines, comments, "
            "tabs; identifiers with escapes, quoted strings); TTL decimal and BIND8-unit forms; the reader = denotation (fold of txn.add) of a "
            "zone-independent parser trace; header spelling equivalences at character level (TTL/class order, inherited class/TTL/owner, "
            "relative vs absolute names); out-of-zone owners ignored; CNAME exclusivity of every load; $GENERATE index = its expansion line and the $GENERATE line = the text of its expansion from any reader state, also after any run of "
            "$ORIGIN directives (current origin distinct from the zone origin: names completed with the former, stored relative to the latter); the TTL of a line that states none: one rule for _rr_line and _generate_line (default TTL first, last stated TTL second) and "
            "a TTL-less $GENERATE line = its TTL-less expansion incl. TTLs (generate_eq_expansion_inherited_ttl); "
            "$INCLUDE file [origin] (saved_state push/pop inside the zone-independent parser): an included file of record lines adds its records under the "
            "include origin and hands the parent back exactly its state (include_restores_parent), versus the inlined spelling (include_vs_inline); "
            "and read_write_lossless: write-then-read is the identity for EVERY lossless style of the model — sorted, want_origin ($ORIGIN, also "
            "read back without being given the origin), default_ttl/$TTL (any value incl. 0), deduplicate_names, owner left-justification and "
            "either justification of the TTL/class/type columns, want_comments, omit_rdclass, want_generic, name-style origin/relativize, hex "
            "chunk size/separator — for relativized and absolute zones, over the RDATA interface RdataReads, with concrete codec instances "
            "proved for A, NS/CNAME/PTR, MX, SOA, TXT (arbitrary octets through quoting and unescape_to_bytes) and the RFC 3597 generic form "
            "under any blank-separated chunking (known types: given the wire codec). Tied to the code by a differential correspondence check on "
            "token streams, loaded zones and written text, and by tables (delimiters, mnemonics, CNAME/neutral/singleton types, escaped sets) "
            "regenerated from the working tree and fed to the theorems.",
    "note": "Trusted: Lean kernel + propext/Classical.choice/Quot.sound; statements in lean/Props/C09.lean; the correspondence harness "
            "and its generators; harness/extract_C09.py. Hypotheses that remain interfaces to other properties: name algebra of owner/target "
            "names (asName/isSubdomain/relativize: C01/C06), wire codecs of known types under want_generic (C02), RDATA text codecs of types "
            "other than A/NS/CNAME/PTR/MX/SOA/TXT/generic (C05; checked per rdata by the oracle). Tie-only: base64 chunking (no base64 type in "
            "the model), the $GENERATE nibble bases n/N beyond their defining equation (bases o/x/X: generate_format_radix). Entry points other than from_text(str)/to_styled_text -- to_text/to_file/to_styled_file (text, binary, path), from_text(bytes, file object, origin str), from_file, zone_factory, allow_directives and dns.zonefile.read_rrsets -- are held to the modelled ones by implementation-side route oracles only.",
    "technique": "Lean 4 proof (structural induction over the tokenizer automaton and the line list, refinement of the reader to a "
                 "denotational interp) + model-vs-implementation correspondence + direct write/read oracle",
    "design_ref": "DESIGN.md §7 C09",
}

"""C11 — versioned-zone readers see one immutable snapshot; version retention is sound.

Correspondence: dns.versioned.Zone and dns.btreezone.Zone (working tree) vs lean/Model/Versioned.lean through the
driver, on histories of reader open (latest / id / serial) / close, writer open / commit / empty commit / rollback,
set_max_versions, set_pruning_policy: after every operation the result, the retained versions (id, content, serial),
the multiset of pinned ids and the open writer's id.
Oracle (on the implementation only): ids strictly increase; retained = a contiguous suffix of everything committed;
newest retained; every open reader's version object is retained; nothing prunable is left at the front and everything
dropped was prunable when dropped; what every open reader observes through the public API equals what it observed
when it was opened.  Immutability: every public callable (and in-place operator, attribute store/delete) of every
object reachable from a snapshot is enumerated from the classes on every run and called with a pool of arguments;
a call that mutates a mutable twin of the object must raise on the snapshot object, and no call may change the deep
dump of the snapshot (enumeration, not proof).  The same attack is run after generated write histories (delegations
created / removed above existing names, nested cuts, node deletes) on every node and rdataset object reachable through
every public route (zone.get_node / find_node / [] / get / nodes / items / values / iterate_rdatasets / get_rdataset,
version.nodes of every retained version, reader.version, txn.get_node / get / iterate_*), with open readers' deep dumps
compared before and after.
"""
import glob
import json
import os

import dns.btreezone
import dns.exception
import dns.name
import dns.node
import dns.rdata
import dns.rdataclass
import dns.rdataset
import dns.rdatatype
import dns.rrset
import dns.transaction
import dns.versioned
import dns.zone

from harness.core import VERIF, Ctx

RULE = (
    "one SplitMix64 state; histories of 1..60 operations on dns.versioned.Zone or dns.btreezone.Zone with up to 6 "
    "concurrently open readers (opened on the latest version, by id - retained, pruned or never existing - or by SOA "
    "serial), one writer at a time (commit with changes, empty commit, rollback, replacement writers), all policy kinds "
    "(default, set_max_versions(n) for n in -1..4, None, arbitrary predicates given by id sets, predicates returning None); "
    "a case is non-trivial if its key (zone class, operation list) is new and it has at least two commits and one reader; "
    "immutability histories: 2..5 write transactions over a 4-level name tree (NS added / removed / node deleted at, above and "
    "below existing names, so glue re-flagging, nested cuts and whole-node deletes occur), readers pinned before and after, "
    "then every node / rdataset object handed out by every public route of every retained version is attacked; "
    "aliasing histories: every Rdataset / RRset / rdata list handed to txn.add / txn.replace and every object taken out of "
    "the writer (txn.get, get_node, iterate_rdatasets) is kept and mutated by its owner after each commit; "
    "lock interleavings: after a history prefix, one call (reader by latest/id/serial, close, commit, policy change) runs with a "
    "wrapping _version_lock that counts its critical sections and lets a complete concurrent operation (writer transaction "
    "with pruning, reader close, policy change) run at every release point inside the call; relativized and absolute zones, "
    "policies also given to the constructor, reader(id=, serial=) together; copy-on-write bookkeeping: after every operation of "
    "2..4 write transactions (puts, NS above existing names, node deletes) version.changed and the set of private nodes are "
    "compared with the model and delete-only transactions must produce a version"
)
TRUSTED_BASE = [
    "Python reference semantics: a read transaction keeps a reference to its version object",
    "single-threaded histories: writer admission (blocking, FIFO) is C12's subject and is not exercised here",
]
ASSUMPTIONS = [
    "immutability of snapshots is established by enumeration of the public mutator surface (every public callable / "
    "in-place operator / attribute store of every reachable object, found with dir() on every run), not by proof; "
    "object.__setattr__, __dict__ access and underscore-prefixed attributes are outside the claim",
    "committed versions are persistent values in the model; snapshot isolation is therefore true by construction there "
    "and its content is carried by the correspondence check (every retained version and every open reader is re-dumped after every operation)",
]

ZONES = {"versioned": dns.versioned.Zone, "btree": dns.btreezone.Zone}
ORIGIN = dns.name.from_text("example.")
NAMES = [dns.name.empty] + [dns.name.from_text(x, None) for x in ("a", "b", "c", "d")]
IN = dns.rdataclass.IN

SIG_INIT = "C11/{z}/immutability/initial-version-is-mutable"


# ------------------------------------------------------------------------------------------------
# dumps
# ------------------------------------------------------------------------------------------------
def dump_rds(rds):
    return (int(rds.rdclass), int(rds.rdtype), int(rds.covers), int(rds.ttl), tuple(rd.to_text() for rd in rds))


def dump_nodes(items):
    out = []
    for name, node in items:
        for rds in node:
            out.append((name.to_text(),) + dump_rds(rds))
    return tuple(sorted(out))


def dump_version(v):
    return dump_nodes(v.nodes.items())


def dump_txn(txn):
    """through the public API only"""
    a = tuple(sorted((name.to_text(),) + dump_rds(rds) for name, rds in txn.iterate_rdatasets()))
    names = sorted(set(n.to_text() for n in txn.iterate_names()))
    b = []
    for n in txn.iterate_names():
        node = txn.get_node(n)
        for rds in node:
            got = txn.get(n, rds.rdtype, rds.covers)
            b.append((n.to_text(),) + dump_rds(got))
    if tuple(sorted(b)) != a or names != sorted(set(x[0] for x in a)):
        return ("INCONSISTENT", a, tuple(sorted(b)))
    return a


def serial_of(v, zone):
    n = v.nodes.get(dns.name.empty if zone.relativize else zone.origin)
    if not n:
        return None
    rds = n.get_rdataset(zone.rdclass, dns.rdatatype.SOA)
    if rds is None or len(rds) == 0:
        return None
    return rds[0].serial


# ------------------------------------------------------------------------------------------------
# running a history on the implementation
# ------------------------------------------------------------------------------------------------
def make_policy(tok):
    """the callable and its description for a `P…` / `Q…` token"""
    a = tok[1:]
    if tok[0] == "Q":
        x, y = (int(v) for v in a.split(":"))
        return (lambda zone, v, x=x, y=y: (x * len(zone._versions) + v.id) % (y + 2) != 0), ("modp", x, y)
    if a == "none":
        return None, ("default",)
    ids = frozenset() if a == "." else frozenset(int(v) for v in a.split(","))
    # a predicate may answer None for "no" (bool | None in the signature) - and callers pass callables answering with
    # any truthy / falsy object
    yes = (True, 1, "yes", [0])
    no = (False, None, 0, "", [])
    return (lambda zone, v, ids=ids: yes[v.id % 4] if v.id in ids else no[v.id % 5]), ("allowed", ids)


class BoomBase(BaseException):
    """not an Exception: what a KeyboardInterrupt-like event inside a `with zone.writer()` body looks like"""


class Run:
    def __init__(self, zkind, absolute=False, ctor=None):
        self.zkind = zkind
        self.absolute = absolute
        self.policy = ("default",)
        self.calls = 0  # rotates positional / keyword call forms
        if ctor is not None:
            # the policy handed to the constructor (the second place a policy is installed); all four parameters positionally
            fn, self.policy = make_policy(ctor)
            self.zone = ZONES[zkind](ORIGIN, dns.rdataclass.IN, not absolute, fn)
        elif absolute:
            self.zone = ZONES[zkind]("example.", relativize=False)  # origin as text
        else:
            self.zone = ZONES[zkind](ORIGIN)
        self.oname = ORIGIN if absolute else dns.name.empty
        self.cid = {(): 0}  # deep dump -> content id
        self.readers = {}  # handle -> txn
        self.open_dump = {}  # handle -> dump at open time (public API)
        self.wtxn = None
        self.committed = [(1, 0)]  # (id, content) of everything committed, in order

    def N(self, i):
        return NAMES[i].derelativize(ORIGIN) if self.absolute else NAMES[i]

    def content_of(self, dump):
        return self.cid.get(dump, "?")

    def state_tok(self):
        z = self.zone
        vs = ",".join(f"{v.id}:{self.content_of(dump_version(v))}:" + ("-" if serial_of(v, z) is None else str(serial_of(v, z)))
                      for v in z._versions) or "-"
        pins = ",".join(str(i) for i in sorted(t.version.id for t in z._readers)) or "-"
        w = "-" if z._write_txn is None else f"w{z._write_txn.version.id}"
        return f"{vs}|{pins}|{w}"

    def modify(self, txn, c, sn):
        """make the write transaction's content the one called `c` (unique text per c) with SOA serial `sn`"""
        name = self.N(1 + c % 4)
        txn.replace(name, dns.rdataset.from_text("IN", "TXT", 60 + c % 3, f'"c{c}"'))
        if c % 2 == 0:
            # keeps the origin node alive when it has no SOA (reader(serial=) must skip such a version, not stop at it)
            txn.replace(self.oname, dns.rdataset.from_text("IN", "TXT", 60, f'"o{c}"'))
        if c % 5 == 4:
            other = self.N(1 + (c + 1) % 4)
            if txn.name_exists(other):
                txn.delete(other)
        if c % 7 == 3:
            txn.add(name, dns.rdataset.from_text("IN", "A", 30, "10.0.0.%d" % (c % 250)))
        if sn is None:
            if txn.get(self.oname, "SOA") is not None:
                txn.delete(self.oname, "SOA")
        else:
            txn.replace(self.oname, dns.rdataset.from_text("IN", "SOA", 60, f"ns. host. {sn} 1 1 1 1"))

    def apply(self, tok):
        z = self.zone
        try:
            if tok[0] == "o":
                kind, rest = tok[1], tok[2:]
                if kind == "L":
                    h = int(rest)
                    txn = z.reader()
                elif kind == "I":
                    h, i = rest.split(":")
                    h = int(h)
                    self.calls += 1
                    txn = z.reader(id=int(i)) if self.calls % 2 else z.reader(int(i))
                elif kind == "B":
                    h, i, sn = rest.split(":")
                    h = int(h)
                    txn = z.reader(id=int(i), serial=int(sn))
                else:
                    h, s = rest.split(":")
                    h = int(h)
                    self.calls += 1
                    txn = z.reader(serial=int(s)) if self.calls % 2 else z.reader(None, int(s))
                self.readers[h] = txn
                d = dump_txn(txn)
                self.open_dump[h] = d
                return f"P{txn.version.id}:{self.content_of(d)}"
            if tok[0] == "c":
                h = int(tok[1:])
                txn = self.readers[h]
                was_open = h in self.open_dump
                if was_open and h % 3 == 1:
                    txn.commit()
                elif was_open and h % 3 == 2:
                    with txn:
                        pass
                else:
                    txn.rollback()
                self.open_dump.pop(h, None)
                return "ok"
            if tok == "w":
                if z._write_txn is not None or z._write_event is not None or len(z._write_waiters) > 0:
                    # Zone.writer() would block for ever (single-threaded history): a previous write transaction
                    # was never deregistered
                    raise RuntimeError("writer() would block: a finished write transaction is still registered")
                repl = (self.zkind == "btree" and len(self.committed) == 1) or (len(self.committed) % 5 == 4)
                self.calls += 1
                self.wtxn = z.writer(replacement=repl) if self.calls % 2 else z.writer(repl)
                return "ok"
            if tok[0] == "C":
                c, sn, ch = tok[1:].split(":")
                c, sn, ch = int(c), (None if sn == "-" else int(sn)), ch == "1"
                txn = self.wtxn
                if ch:
                    self.modify(txn, c, sn)
                    vid = txn.version.id
                    d = dump_version(txn.version)
                    self.cid[d] = c
                    self.committed.append((vid, c))
                txn.commit()
                self.wtxn = None
                return "ok"
            if tok == "R":
                self.calls += 1
                txn, self.wtxn = self.wtxn, None
                if self.calls % 3 == 0:
                    txn.rollback()
                else:
                    # leave the `with` body by an exception (an Exception, or a BaseException like KeyboardInterrupt):
                    # everything written so far is dropped and the write ends
                    exc = ValueError if self.calls % 3 == 1 else BoomBase
                    try:
                        with txn:
                            txn.replace(self.N(1), dns.rdataset.from_text("IN", "TXT", 60, '"never committed"'))
                            raise exc("leaving the transaction")
                    except exc:
                        pass
                return "ok"
            if tok[0] == "M":
                a = tok[1:]
                n = None if a == "none" else int(a)
                self.calls += 1
                if self.calls % 2:
                    z.set_max_versions(n)
                else:
                    z.set_max_versions(max_versions=n)
                self.policy = ("unlimited",) if n is None else ("max", n)
                return "ok"
            if tok[0] == "P":
                a = tok[1:]
                if a == "none":
                    z.set_pruning_policy(None)
                    self.policy = ("default",)
                else:
                    ids = frozenset() if a == "." else frozenset(int(x) for x in a.split(","))
                    # a predicate may answer None for "no" (bool | None in the signature)
                    z.set_pruning_policy(lambda zone, v, ids=ids: True if v.id in ids else (None if v.id % 2 else False))
                    self.policy = ("allowed", ids)
                return "ok"
            if tok[0] == "Q":
                a, b = (int(x) for x in tok[1:].split(":"))
                z.set_pruning_policy(lambda zone, v, a=a, b=b: (a * len(zone._versions) + v.id) % (b + 2) != 0)
                self.policy = ("modp", a, b)
                return "ok"
            if tok[0] == "O":
                h = int(tok[1:])
                txn = self.readers[h]
                d = dump_txn(txn)
                return f"P{txn.version.id}:{self.content_of(d)}"
        except KeyError:
            return "EKeyError"
        except ValueError:
            return "EValueError"
        except dns.transaction.AlreadyEnded:
            return "EAlreadyEnded"
        except Exception as e:  # noqa: BLE001
            return "X" + type(e).__name__
        raise ValueError(tok)


def policy_allows(policy, nvers, v):
    if policy[0] == "default":
        return True
    if policy[0] == "max":
        return nvers > policy[1]
    if policy[0] == "unlimited":
        return False
    if policy[0] == "modp":
        return (policy[1] * nvers + v.id) % (policy[2] + 2) != 0
    return v.id in policy[1]


def monitor(run, tok, out, before, fails):
    """the property's clauses on the implementation state after one operation.
    `before`: (list of version objects, policy, set of pinned ids) just before the operation."""
    z = run.zone
    zk = run.zkind
    vs = list(z._versions)
    ids = [v.id for v in vs]

    def bad(clause, what):
        fails.append((f"C11/{zk}/{clause}", f"after {tok} -> {out}: {what}"))

    if any(b <= a for a, b in zip(ids, ids[1:])):
        bad("ids-strictly-increase", f"retained ids {ids}")
    com_ids = [i for i, _ in run.committed]
    if any(b <= a for a, b in zip(com_ids, com_ids[1:])):
        bad("ids-strictly-increase", f"committed ids {com_ids}")
    ret = [(v.id, run.content_of(dump_version(v))) for v in vs]
    if not vs:
        bad("newest-retained", "no version retained")
        return
    if ret != run.committed[len(run.committed) - len(ret):]:
        bad("retained-contiguous", f"retained {ret} is not a contiguous run ending the committed history {run.committed}")
    if ret[-1] != run.committed[-1]:
        bad("newest-retained", f"newest committed {run.committed[-1]} is not retained ({ret})")
    pins = [t.version for t in z._readers]
    for t in z._readers:
        if not any(t.version is v for v in vs):
            bad("pinned-retained", f"version {t.version.id} pinned by an open reader is not retained ({ids})")
    open_txns = [run.readers[h] for h in run.open_dump]
    if sorted(id(t) for t in open_txns) != sorted(id(t) for t in z._readers):
        bad("pinned-retained", f"open readers {sorted(t.version.id for t in open_txns)} but registered {sorted(t.version.id for t in z._readers)}")
    # pruning: nothing prunable left at the front ...
    least = min((p.id for p in pins), default=vs[-1].id)
    if vs[0].id < least and policy_allows(run.policy, len(vs), vs[0]):
        bad("pruning-exact/left-over", f"oldest retained {vs[0].id} is below every pin/newest ({least}) and the policy {run.policy} allows pruning it")
    # ... and everything dropped by this operation was prunable when it was dropped
    bvs, bpolicy = before
    # reader(): the newest committed version; reader(id=, serial=): refused; set_max_versions(n < 1): refused
    if tok[0] == "o" and tok[1] == "L" and out.startswith("P"):
        got = int(out[1:].split(":")[0])
        if got != run.committed[-1][0]:
            bad("reader-lookup", f"reader() opened version {got}, the newest committed version is {run.committed[-1][0]}")
    if tok[0] == "o" and tok[1] == "B" and out != "EValueError":
        bad("reader-lookup/both-selectors", "reader(id=…, serial=…) must raise ValueError")
    if tok[0] == "M" and tok[1:] != "none" and int(tok[1:]) < 1 and out != "EValueError":
        bad("set_max_versions/accepts-nonpositive", f"set_max_versions({tok[1:]}) must raise ValueError (at least the newest version is always kept)")
    # reader(id=) / reader(serial=): the version chosen
    if tok[0] == "o" and tok[1] in "IS":
        want = int(tok[2:].split(":")[1])
        if tok[1] == "I":
            cands = [v for v in bvs_all(before) if v.id == want]
        else:
            cands = [v for v in bvs_all(before) if serial_of(v, z) == want]
        if out.startswith("P"):
            got = int(out[1:].split(":")[0])
            if not cands or got != max(v.id for v in cands):
                bad("reader-lookup", f"opened on version {got}; retained versions matching the request: {[v.id for v in cands]} (the newest must be chosen)")
        elif out == "EKeyError" and cands:
            bad("reader-lookup", f"KeyError although retained versions {[v.id for v in cands]} match the request")
    if tok[0] in "cCMPQ" and not out.startswith("E"):
        cur = list(bvs)
        if tok[0] == "C" and tok.endswith(":1"):
            cur = cur + [vs[-1]]
        dropped = [v for v in cur if not any(v is w for w in vs)]
        n = len(cur)
        for d in dropped:
            if not (cur and cur[0] is d):
                bad("retained-contiguous", f"version {d.id} dropped from the middle of {[v.id for v in cur]}")
                break
            if not (d.id < least and policy_allows(run.policy, n, d)):
                bad("pruning-exact/not-allowed", f"version {d.id} was pruned although it is pinned-or-newest-bounded ({least}) or the policy {run.policy} refuses it (len {n})")
            cur = cur[1:]
            n -= 1
    elif [id(v) for v in bvs] != [id(v) for v in vs] and not (tok[0] == "C"):
        bad("pruning-exact/unexpected", f"retained versions changed from {[v.id for v in bvs]} to {ids}")
    # snapshot stability through the public API
    for h, d0 in run.open_dump.items():
        d = dump_txn(run.readers[h])
        if d != d0:
            bad("snapshot-stable", f"reader {h} on version {run.readers[h].version.id} observed {d0} when opened and now observes {d}")
        elif d and d[0] == "INCONSISTENT":
            bad("snapshot-consistent", f"reader {h}: iterate_rdatasets / get / get_node disagree: {d}")


def bvs_all(before):
    return before[0]


def eval_history(ctx: Ctx, case: dict):
    zk = case["zone"]
    run = Run(zk, case.get("abs", False), case.get("ctor"))
    toks = case["ops"]
    outs = []
    fails = []
    pre_toks = []
    if case.get("ctor") is not None:
        # for the model a policy given to the constructor is a policy installed by the first operation
        pre_toks = [case["ctor"]]
        outs.append(f"ok|{run.state_tok()}")
    ctx.count(f"{zk}.{'absolute' if case.get('abs') else 'relativized'}" + (".ctor-policy" if pre_toks else ""))
    for tok in toks:
        before = (list(run.zone._versions), run.policy)
        out = run.apply(tok)
        outs.append(f"{out}|{run.state_tok()}")
        if out.startswith("X"):
            fails.append((f"C11/{zk}/raises/{tok[0]}", f"{tok} raised {out[1:]}"))
        monitor(run, tok, out, before, fails)
        ctx.count(f"{zk}.op.{tok[0:2] if tok[0] == 'o' else tok[0]}" + (".err" if out.startswith("E") else ""))
    ctx.count(f"{zk}.max-retained={min(9, max((len(o.split('|')[1].split(',')) for o in outs), default=0))}")
    ctx.corr("c11.run " + " ".join(pre_toks + toks), " ".join(["ok"] + outs), case)
    seen = set()
    for sig, what in fails:
        if sig not in seen:
            seen.add(sig)
            ctx.fail(sig, what, {"kind": "history", "case": case})
    # leave no transaction open (a versioned zone keeps references to its readers)
    return fails


# ------------------------------------------------------------------------------------------------
# immutability of everything reachable from a snapshot (enumeration)
# ------------------------------------------------------------------------------------------------
INPLACE = ["__setitem__", "__delitem__", "__iadd__", "__isub__", "__ior__", "__iand__", "__ixor__", "__imul__"]


def candidate_methods(obj):
    t = type(obj)
    return sorted(n for n in dir(t) if (not n.startswith("_") or n in INPLACE) and callable(getattr(t, n, None)))


def public_attrs(obj):
    names = set()
    for k in type(obj).__mro__:
        sl = k.__dict__.get("__slots__", ())
        names.update([sl] if isinstance(sl, str) else sl)
    names.update(getattr(obj, "__dict__", {}).keys())
    return sorted(n for n in names if not n.startswith("_") and hasattr(obj, n))


def arg_pool(zone):
    rd = dns.rdata.from_text("IN", "TXT", '"zz"')
    rd_a = dns.rdata.from_text("IN", "A", "10.9.9.9")
    other_txt = dns.rdataset.from_text("IN", "TXT", 5, '"zz"', '"yy"')
    other_a = dns.rdataset.from_text("IN", "A", 5, "10.9.9.9")
    name = dns.name.from_text("zz", None)
    name_a = dns.name.from_text("a", None)
    node = zone.node_factory()
    node.replace_rdataset(dns.rdataset.from_text("IN", "TXT", 5, '"node"'))
    TXT, A, NONE = dns.rdatatype.TXT, dns.rdatatype.A, dns.rdatatype.NONE
    one = [rd, rd_a, other_txt, other_a, name, name_a, node, 0, 1, 5, True, None, "x", [(name, node)], {name: node}, IN, TXT]
    tuples = [()] + [(v,) for v in one]
    tuples += [(rd, 5), (rd_a, 5), (0, rd), (0, rd_a), (name, node), (name_a, node), (name, None), (name_a, None),
               (IN, TXT), (IN, A), (IN, TXT, NONE), (IN, A, NONE), (IN, TXT, NONE, True), (IN, A, NONE, True),
               (IN, dns.rdatatype.MX, NONE, True), (slice(0, 1), [rd])]
    return tuples


def own_args(o):
    """arguments taken from the object itself, so that removals and replacements really apply"""
    out = []
    if isinstance(o, dns.rdataset.Rdataset) and len(o) > 0:
        me = dns.rdataset.Rdataset(o.rdclass, o.rdtype, o.covers, o.ttl)
        for rd in o:
            me.add(rd)
        one = dns.rdataset.Rdataset(o.rdclass, o.rdtype, o.covers, o.ttl)
        one.add(o[0])
        out += [(o[0],), (o[0], 1), (me,), (one,), (0,), (slice(0, 1),)]
    if isinstance(o, dns.node.Node) and len(o.rdatasets) > 0:
        r = o.rdatasets[0]
        out += [(r.rdclass, r.rdtype, r.covers), (r.rdclass, r.rdtype, r.covers, True)]
        full = [x for x in o.rdatasets if len(x) > 0]  # a node may hold rdatasets with no rdatas
        if full:
            rep = dns.rdataset.Rdataset(full[0].rdclass, full[0].rdtype, full[0].covers, 1)
            rep.add(full[0][0])
            out.append((rep,))
        out.append((dns.rdataset.Rdataset(r.rdclass, r.rdtype, r.covers, 1),))
    return out


def mutable_twin(obj, zone):
    """a mutable object with the same content and the same base class, or None"""
    if isinstance(obj, dns.rdataset.Rdataset):
        tw = dns.rdataset.Rdataset(obj.rdclass, obj.rdtype, obj.covers, obj.ttl)
        for rd in obj:
            tw.add(rd)
        return tw, dump_rds
    if isinstance(obj, dns.node.Node):
        tw = zone.node_factory()
        for rds in obj.rdatasets:
            t2 = dns.rdataset.Rdataset(rds.rdclass, rds.rdtype, rds.covers, rds.ttl)
            for rd in rds:
                t2.add(rd)
            tw.rdatasets.append(t2)
        return tw, lambda n: tuple(dump_rds(r) for r in n.rdatasets)
    if hasattr(obj, "keys") and hasattr(obj, "__getitem__") and not isinstance(obj, (str, bytes)):
        try:
            tw = dict(obj.items())
        except Exception:  # noqa: BLE001
            return None
        return tw, lambda m: tuple(sorted((k.to_text() if hasattr(k, "to_text") else repr(k), id(v)) for k, v in m.items()))
    if isinstance(obj, tuple):
        return list(obj), lambda x: tuple(id(v) for v in x)
    return None


def fresh_args(args):
    """arguments are themselves mutable (rdatasets, nodes): never share them between the twin and the snapshot call"""
    import copy

    out = []
    for a in args:
        if isinstance(a, dns.rdataset.Rdataset):
            out.append(a.copy())
        elif isinstance(a, (list, dict)):
            out.append(copy.copy(a))
        else:
            out.append(a)
    return tuple(out)


def build_snapshot_zone(zk, fresh):
    z = ZONES[zk](ORIGIN)
    if not fresh:
        with z.writer(True) as txn:
            txn.replace(dns.name.empty, dns.rdataset.from_text("IN", "SOA", 60, "ns. host. 1 1 1 1 1"))
            txn.replace(NAMES[1], dns.rdataset.from_text("IN", "TXT", 60, '"one"', '"two"'))
            txn.add(NAMES[1], dns.rdataset.from_text("IN", "A", 30, "10.0.0.1", "10.0.0.2"))
            txn.replace(NAMES[2], dns.rdataset.from_text("IN", "MX", 60, "10 mx."))
        with z.writer() as txn:
            txn.replace(NAMES[3], dns.rdataset.from_text("IN", "TXT", 60, '"three"'))  # `a`, `b` stay shared with version 2
    return z


def reachable(txn, zone, extended):
    """(label, object) for everything the public read API hands out: the results of txn.get / get_node /
    iterate_rdatasets / iterate_names and what their public attributes lead to (rdatasets tuple, items map, rdatas,
    names).  `extended` adds the version object and its node map (txn.version, txn.version.nodes): these are not
    results of the read API; what the enumeration finds there is recorded as an observation, not as a failure."""
    objs = []
    seen = set()

    def add(label, o):
        if o is None or id(o) in seen:
            return
        seen.add(id(o))
        objs.append((label, o))

    if extended:
        add("txn.version", txn.version)
        add("txn.version.nodes", txn.version.nodes)
        return objs
    for name in list(txn.iterate_names()):
        node = txn.get_node(name)
        add("txn.get_node()", node)
        add("node.rdatasets", getattr(node, "rdatasets", None))
        for rds in node:
            add("iter(node)", rds)
            add("txn.get()", txn.get(name, rds.rdtype, rds.covers))
            add("rdataset.items", getattr(rds, "items", None))
            for rd in rds:
                add("rdata", rd)
        add("zone.get_node()", zone.get_node(name))
        add("zone.find_node()", zone.find_node(name))
    for name, rds in txn.iterate_rdatasets():
        add("txn.iterate_rdatasets()", rds)
        add("zone.get_rdataset()", zone.get_rdataset(name, rds.rdtype, rds.covers))
        add("name", name)
    return objs


def eval_immutability(ctx: Ctx, case: dict):
    zk = case["zone"]
    fresh = case.get("fresh", False)
    extended = case.get("extended", False)
    fails = []
    surface = set()
    exercised = 0
    z = build_snapshot_zone(zk, fresh)
    txn = z.reader()
    pool = arg_pool(z)
    base = dump_txn(txn)
    allv = [dump_version(v) for v in z._versions]

    def snapshot_changed():
        try:
            return dump_txn(txn) != base or [dump_version(v) for v in z._versions] != allv
        except Exception:  # noqa: BLE001 - the snapshot cannot even be read any more
            return True

    def report(label, o, what, clause):
        cls = type(o).__name__
        if fresh:
            sig = SIG_INIT.format(z=zk)
        else:
            sig = f"C11/{zk}/immutability/{cls}.{what}/{clause}"
        fails.append((sig, f"{label} ({cls}) {what}: {clause} on a snapshot of a {'fresh' if fresh else 'committed'} {zk} zone"))

    for label, o in reachable(txn, z, extended):
        cls = type(o).__name__
        # attribute stores / deletes
        for a in public_attrs(o):
            for kind in ("set", "del"):
                try:
                    if kind == "set":
                        setattr(o, a, None)
                    else:
                        delattr(o, a)
                    raised = False
                except Exception:  # noqa: BLE001
                    raised = True
                exercised += 1
                if snapshot_changed():
                    report(label, o, f"{kind}attr:{a}", "changed")
                    return finish(ctx, case, fails, surface, exercised)
                if not raised:
                    report(label, o, f"{kind}attr:{a}", "no-raise")
        # methods
        for m in candidate_methods(o):
            for args in own_args(o) + pool:
                tw = mutable_twin(o, z)
                mutating = None
                if tw is not None:
                    twin, dfn = tw
                    if hasattr(twin, m):
                        d0 = dfn(twin)
                        try:
                            getattr(twin, m)(*fresh_args(args))
                            mutating = dfn(twin) != d0
                        except Exception:  # noqa: BLE001
                            mutating = dfn(twin) != d0
                try:
                    getattr(o, m)(*fresh_args(args))
                    raised = False
                except Exception:  # noqa: BLE001
                    raised = True
                exercised += 1
                if mutating:
                    surface.add(f"{cls}.{m}")
                if snapshot_changed():
                    report(label, o, m, "changed")
                    return finish(ctx, case, fails, surface, exercised)
                if mutating and not raised:
                    report(label, o, m, "no-raise")
    return finish(ctx, case, fails, surface, exercised, txn)


def finish(ctx, case, fails, surface, exercised, txn=None):
    zk = case["zone"]
    tag = f"{zk}.{'fresh' if case.get('fresh') else 'committed'}" + (".extended" if case.get("extended") else "")
    ctx.count(f"immutability.{tag}.calls", exercised)
    ctx.extra.setdefault("mutator_surface", {})[tag] = sorted(surface)
    seen = set()
    for sig, what in fails:
        if sig in seen:
            continue
        seen.add(sig)
        if case.get("extended"):
            # outside the read API's results: recorded, never reported as a violation
            ctx.extra.setdefault("observations_outside_read_api", []).append(what)
            ctx.count("immutability.observation")
        else:
            ctx.fail(sig, what, {"kind": "immutability", "case": case})
    return [] if case.get("extended") else fails


# ------------------------------------------------------------------------------------------------

# ------------------------------------------------------------------------------------------------
# immutability after write histories (delegations created / removed above existing names, NS at / above / below
# cuts, whole-node deletes): every node and rdataset object reachable from every retained version through every
# public route must be immutable, and nothing done through those routes may change what an open reader sees
# ------------------------------------------------------------------------------------------------
TREE = ["@", "sub", "a.sub", "b.a.sub", "c.b.a.sub", "x.sub", "other", "y.other", "z.y.other", "text", "ns1"]
TREE_NAMES = [dns.name.empty if t == "@" else dns.name.from_text(t, None) for t in TREE]


def spelled(zone, name, other):
    """`name` (relative, as in TREE_NAMES) in the zone's own spelling, or - `other` - in the spelling the zone does not
    store: absolute in a relativizing zone, relative in a zone that keeps absolute names.  Both are legal arguments of
    every writer call; the zone validates (relativizes / derelativizes) them"""
    own_abs = not zone.relativize
    return name.derelativize(ORIGIN) if (own_abs != bool(other)) else name


def apply_wop(txn, op):
    kind, i = op[0], op[1]
    zone = txn.manager
    key = spelled(zone, TREE_NAMES[i], False)            # the key under which the zone stores the node
    name = spelled(zone, TREE_NAMES[i], (op[2] + i) % 2 if len(op) > 2 else 0)  # what the caller writes
    if kind == "ns":
        txn.replace(name, dns.rdataset.from_text("IN", "NS", 300, f"ns{op[2] % 3}.sub.example."))
    elif kind == "delns":
        txn.delete(name, "NS")
    elif kind == "delnode":
        txn.delete(name)
    elif kind == "txt":
        txn.replace(name, dns.rdataset.from_text("IN", "TXT", 60, f'"t{op[2]}"'))
    elif kind == "a":
        txn.add(name, dns.rdataset.from_text("IN", "A", 30, "10.1.%d.%d" % (op[2] // 250 % 250, op[2] % 250)))
    elif kind == "deltxt":
        txn.delete(name, "TXT")
    elif kind == "empty":
        # an rdataset with no rdatas, through the transaction API
        rdtype = (dns.rdatatype.TXT, dns.rdatatype.A, dns.rdatatype.MX)[op[2] % 3]
        (txn.replace if op[2] % 2 else txn.add)(name, dns.rdataset.Rdataset(IN, rdtype, ttl=30))
    elif kind == "vempty":
        # ... and through the writable version's own put_rdataset
        rdtype = (dns.rdatatype.TXT, dns.rdatatype.A, dns.rdatatype.MX)[op[2] % 3]
        txn.version.put_rdataset(name, dns.rdataset.Rdataset(IN, rdtype, ttl=30))
    elif kind == "dellast":
        # delete every rdataset of the node one by one (the last deletion leaves an empty node behind or removes it)
        node = txn.get_node(name)
        for rds in list(node) if node is not None else []:
            txn.delete(name, rds.rdtype, rds.covers)
    elif kind == "rrset":
        txn.replace(dns.rrset.from_text(name, 60, "IN", "TXT", f'"r{op[2]}"'))
    elif kind == "ttlrd":
        txn.add(name, 45, dns.rdata.from_text("IN", "A", "10.2.%d.%d" % (op[2] // 250 % 250, op[2] % 250)))
    elif kind == "delexact":
        node = txn.get_node(name)
        for rds in list(node)[:1] if node is not None else []:
            txn.delete_exact(name, rds)
    elif kind == "nodeapi":
        # node-level API on the writer's own (copied) node: empty it without going through the transaction
        txn.replace(name, dns.rdataset.from_text("IN", "TXT", 60, f'"n{op[2]}"'))
        node = txn.version.nodes[key]
        for rds in list(node.rdatasets):
            node.delete_rdataset(rds.rdclass, rds.rdtype, rds.covers)
    else:
        raise ValueError(op)


SHORT_POOL = None


def short_pool(zone):
    rd = dns.rdata.from_text("IN", "TXT", '"zz"')
    other = dns.rdataset.from_text("IN", "TXT", 5, '"zz"')
    mx = dns.rdatatype.MX
    return [(), (rd,), (rd, 5), (other,), (0,), (5,), (IN, mx), (IN, mx, dns.rdatatype.NONE, True),
            (IN, dns.rdatatype.AAAA, dns.rdatatype.NONE, True)]


def routes(zone, readers):
    """(route label, owner text, object) for every node / rdataset object a public route hands out for any retained
    version.  Routes that return fresh copies by design (find_rrset, get_rrset) are not snapshot objects."""
    out = []

    def node_routes(label, name, node):
        if node is None:
            return
        out.append((label, name.to_text(), node))
        rdss = getattr(node, "rdatasets", ())
        for rds in rdss:
            out.append((label + " -> .rdatasets[]", name.to_text(), rds))
        for rds in node:
            out.append((label + " -> iter(node)", name.to_text(), rds))

    names = list(zone.keys())
    for name in names:
        node_routes("zone.get_node()", name, zone.get_node(name))
        node_routes("zone.find_node()", name, zone.find_node(name))
        node_routes("zone[name]", name, zone[name])
        node_routes("zone.get()", name, zone.get(name))
        node_routes("zone.nodes[name]", name, zone.nodes[name])
    for name, node in zone.items():
        node_routes("zone.items()", name, node)
    for name, node in zip(names, zone.values()):
        node_routes("zone.values()", name, node)
    for name, node in zone.nodes.items():
        node_routes("zone.nodes.items()", name, node)
    for name, rds in zone.iterate_rdatasets():
        out.append(("zone.iterate_rdatasets()", name.to_text(), rds))
    for name in names:
        for rds in list(zone.get_node(name)):
            out.append(("zone.get_rdataset()", name.to_text(), zone.get_rdataset(name, rds.rdtype, rds.covers)))
            out.append(("zone.find_rdataset()", name.to_text(), zone.find_rdataset(name, rds.rdtype, rds.covers)))
    for v in zone._versions:
        for name, node in v.nodes.items():
            node_routes(f"zone._versions[id={v.id}].nodes.items()", name, node)
            node_routes(f"version(id={v.id}).get_node()", name, v.get_node(name))
            node_routes(f"version(id={v.id}).nodes.get()", name, v.nodes.get(name))
    for h, txn in readers.items():
        v = txn.version
        for name, node in v.nodes.items():
            node_routes(f"reader{h}.version.nodes.items()", name, node)
            node_routes(f"reader{h}.version.nodes[name]", name, v.nodes[name])
        for name in list(txn.iterate_names()):
            node_routes(f"reader{h}.get_node()", name, txn.get_node(name))
        for name, rds in txn.iterate_rdatasets():
            out.append((f"reader{h}.iterate_rdatasets()", name.to_text(), rds))
            out.append((f"reader{h}.get()", name.to_text(), txn.get(name, rds.rdtype, rds.covers)))
    return out


MUT_CACHE = {}


def mutator_methods(o, zone, pool):
    """names of the public callables of type(o) that change a mutable twin of `o` for some argument tuple; computed
    from the class (dir) once per class and run, on the first instance met.  Without a twin: every candidate."""
    t = type(o)
    if t not in MUT_CACHE:
        names = []
        probe = mutable_twin(o, zone)
        for m in candidate_methods(o):
            if probe is None:
                names.append(m)
                continue
            if not hasattr(probe[0], m):
                continue
            for args in own_args(o) + pool:
                twin, dfn = mutable_twin(o, zone)
                d0 = dfn(twin)
                try:
                    getattr(twin, m)(*fresh_args(args))
                except Exception:  # noqa: BLE001
                    pass
                if dfn(twin) != d0:
                    names.append(m)
                    break
        MUT_CACHE[t] = names
    return MUT_CACHE[t]


def attack(o, zone, pool, changed_fn, attrs=True):
    """call every mutator of `o` (methods first, then attribute stores / deletes); returns (calls, problem) where
    problem is None or (what, clause) for the first call that did not raise although it mutates a mutable twin of
    the object, or after which the snapshots differ"""
    calls = 0
    for m in mutator_methods(o, zone, pool):
        for args in own_args(o) + pool:
            try:
                getattr(o, m)(*fresh_args(args))
                raised = False
            except Exception:  # noqa: BLE001
                raised = True
            calls += 1
            if not raised:
                if changed_fn():
                    return calls, (f"{m}{fmt_args(args)}", "changed")
                tw = mutable_twin(o, zone)
                if tw is not None:
                    twin, dfn = tw
                    d0 = dfn(twin)
                    try:
                        getattr(twin, m)(*fresh_args(args))
                    except Exception:  # noqa: BLE001
                        pass
                    if dfn(twin) != d0:
                        return calls, (f"{m}{fmt_args(args)}", "no-raise")
    if changed_fn():
        return calls, ("(a mutator call that raised)", "changed")
    for a in (public_attrs(o) if attrs else []):
        for kind in ("set", "del"):
            try:
                if kind == "set":
                    setattr(o, a, None)
                else:
                    delattr(o, a)
                raised = False
            except Exception:  # noqa: BLE001
                raised = True
            calls += 1
            if not raised:
                return calls, (f"{kind}attr:{a}", "changed" if changed_fn() else "no-raise")
    return calls, None


def fmt_args(args):
    def one(a):
        if isinstance(a, dns.rdataset.Rdataset):
            return f"<rdataset {dns.rdatatype.to_text(a.rdtype)} {[rd.to_text() for rd in a]}>"
        if isinstance(a, dns.rdata.Rdata):
            return f"<rdata {a.to_text()}>"
        return repr(a)

    return "(" + ", ".join(one(a) for a in args) + ")"


def eval_immhist(ctx: Ctx, case: dict):
    zk = case["zone"]
    z = ZONES[zk](ORIGIN, relativize=not case.get("abs", False))
    if case.get("keep_all", True):
        z.set_max_versions(None)
    readers = {}
    fails = []
    calls = 0
    objs = 0
    flips = 0
    for ti, ops in enumerate(case["txns"]):
        with z.writer(ti == 0) as txn:
            if ti == 0:
                oname = spelled(z, dns.name.empty, False)
                txn.replace(oname, dns.rdataset.from_text("IN", "SOA", 60, "ns1 host 1 1 1 1 1"))
                txn.replace(oname, dns.rdataset.from_text("IN", "NS", 60, "ns1"))
            for op in ops:
                try:
                    apply_wop(txn, op)
                except (KeyError, ValueError, dns.exception.DNSException):
                    ctx.count("immhist.writer-op-refused")  # e.g. the C10 defects; not this property's subject
        if ti in case.get("readers_at", []):
            readers[ti] = z.reader()
    # the deep dumps every mutator attempt is measured against
    def snap():
        return ([dump_version(v) for v in z._versions], {h: dump_txn(t) for h, t in readers.items()},
                [[(n.to_text(), int(getattr(nd, "flags", 0) or 0)) for n, nd in v.nodes.items()] for v in z._versions])

    base = snap()

    def changed():
        try:
            return snap() != base
        except Exception:  # noqa: BLE001
            return True

    pool = short_pool(z)
    seen = set()
    for label, owner, o in routes(z, readers):
        if id(o) in seen:
            continue
        seen.add(id(o))
        objs += 1
        if isinstance(o, dns.node.Node):
            if getattr(o, "flags", 0) and int(o.flags) & 4:
                flips += 1
            if not o.is_immutable():
                fails.append((f"C11/{zk}/immutability/{type(o).__name__}.is_immutable/false",
                              f"{label} for {owner}: a {type(o).__name__} inside a committed version says is_immutable() == False"))
        tw = mutable_twin(o, z)
        if tw is not None and isinstance(o, (dns.node.Node, dns.rdataset.Rdataset)):
            t = tw[0]
            if not (o == t and t == o) or (o != t) or (t != o) or not (o == o):
                fails.append((f"C11/{zk}/immutability/{type(o).__name__}.__eq__/asymmetric",
                              f"{label} for {owner}: the snapshot object and a mutable object with the same content compare "
                              f"o==t {o == t}, t==o {t == o}, o!=t {o != t}, t!=o {t != o}"))
        n, problem = attack(o, z, pool, changed)
        calls += n
        if problem is not None:
            what, clause = problem
            extra = ""
            if clause == "changed":
                try:
                    now = snap()
                    who = [h for h in readers if now[1].get(h) != base[1].get(h)]
                except Exception:  # noqa: BLE001
                    who = list(readers)
                extra = "; the deep dump of the retained versions changed" + (f" and open reader(s) {who} now observe different content" if who else "")
            fails.append((f"C11/{zk}/immutability/{type(o).__name__}.{what.split('(')[0]}/{clause}",
                          f"{label} for {owner} ({type(o).__name__}): {what} {'did not raise' if clause == 'no-raise' else 'did not raise / changed the snapshot'}{extra}"))
            break  # the snapshot is damaged from here on: one concrete failing call per history
    for t in readers.values():
        try:
            t.rollback()
        except Exception:  # noqa: BLE001
            pass
    ctx.count(f"immhist.{zk}.objects", objs)
    ctx.count(f"immhist.{zk}.calls", calls)
    ctx.count(f"immhist.{zk}.glue-flagged-nodes", flips)
    seen_sig = set()
    for sig, what in fails:
        if sig not in seen_sig:
            seen_sig.add(sig)
            ctx.fail(sig, what, {"kind": "immhist", "case": case})
    return fails


def eval_fresh(ctx: Ctx, case: dict):
    """regression witness of the repaired defect "version 1 of a fresh versioned / B-tree zone is mutable": before any
    commit, nothing but a transaction may alter the zone, and a reader pinned on version 1 keeps seeing the empty zone"""
    zk = case["zone"]
    z = ZONES[zk](ORIGIN)
    r0 = z.reader()
    fails = []

    def snap():
        return ([dump_version(v) for v in z._versions], dump_txn(r0), [v.id for v in z._versions])

    base = snap()

    def changed():
        try:
            return snap() != base
        except Exception:  # noqa: BLE001
            return True

    sig = SIG_INIT.format(z=zk)
    name = dns.name.from_text("x", None)
    direct = [
        ("zone[name] = node", lambda: z.__setitem__(name, z.node_factory())),
        ("zone.nodes[name] = node", lambda: z.nodes.__setitem__(name, z.node_factory())),
        ("reader.version.nodes[name] = node", lambda: r0.version.nodes.__setitem__(name, z.node_factory())),
        ("zone.replace_rdataset", lambda: z.replace_rdataset(name, dns.rdataset.from_text("IN", "TXT", 5, '"x"'))),
        ("zone.find_node(create=True)", lambda: z.find_node(name, create=True)),
        ("zone.find_rdataset(create=True)", lambda: z.find_rdataset(name, "TXT", create=True)),
    ]
    for what, fn in direct:
        try:
            fn()
            raised = False
        except Exception:  # noqa: BLE001
            raised = True
        if changed() or not raised:
            fails.append((sig, f"fresh {zk} zone, reader open on version 1: {what} {'did not raise' if not raised else 'raised'}"
                               f"{' and changed what the reader / version 1 holds' if changed() else ''}"))
            break
    if not fails:
        for label, o, attrs in (("zone.nodes", z.nodes, False), ("reader.version.nodes", r0.version.nodes, False),
                                ("reader.version", r0.version, True)):
            n, problem = attack(o, z, arg_pool(z), changed, attrs=attrs)
            ctx.count("fresh.calls", n)
            if problem is not None:
                fails.append((sig, f"fresh {zk} zone, reader open on version 1: {label}.{problem[0]}: {problem[1]}"))
                break
    if not fails:
        # ... and the first ordinary (non-replacement) writer works on it and leaves the pinned reader alone
        try:
            with z.writer() as txn:
                txn.replace(name, dns.rdataset.from_text("IN", "TXT", 5, '"x"'))
            if dump_txn(r0) != base[1]:
                fails.append((f"C11/{zk}/snapshot-stable", "reader on version 1 changed after the first commit"))
        except Exception as e:  # noqa: BLE001
            fails.append((f"C11/{zk}/initial-version/first-writer-raises", f"Zone.writer() on a fresh {zk} zone raised {e!r}"))
    try:
        r0.rollback()
    except Exception:  # noqa: BLE001
        pass
    for s_, what in fails:
        ctx.fail(s_, what, {"kind": "fresh", "case": case})
    return fails


def gen_immhist(rng, zk):
    ntx = rng.range(2, 5)
    txns = []
    # first (replacement) transaction: populate most of the tree, so later cuts appear *above existing names*
    first = []
    for i in range(1, len(TREE)):
        if rng.chance(3, 4):
            first.append(["txt" if rng.chance(1, 2) else "a", i, rng.below(1000)])
    if rng.chance(1, 3):
        first.append(["ns", rng.choice([1, 2, 6, 7]), rng.below(9)])
    txns.append(first)
    cuts = [1, 1, 2, 3, 6, 7, 0]
    for _ in range(ntx - 1):
        ops = []
        for _ in range(rng.choice([1, 1, 1, 2, 3])):
            x = rng.below(10)
            if x < 4:
                ops.append(["ns", rng.choice(cuts), rng.below(9)])
            elif x < 6:
                ops.append(["delns", rng.choice(cuts), 0])
            elif x < 7:
                ops.append(["delnode", rng.choice(cuts + [4, 5, 8]), 0])
            elif x < 8:
                ops.append([rng.choice(["txt", "a"]), rng.below(len(TREE)), rng.below(1000)])
            elif x < 9:
                ops.append([rng.choice(["empty", "vempty", "dellast", "rrset", "ttlrd", "delexact"]), rng.range(1, len(TREE) - 1), rng.below(1000)])
            else:
                ops.append(["deltxt", rng.below(len(TREE)), 0])
        txns.append(ops)
    readers_at = sorted(set([rng.below(ntx)] + ([ntx - 1] if rng.chance(1, 2) else [])))
    c = {"kind": "immhist", "zone": zk, "txns": txns, "readers_at": readers_at, "keep_all": rng.chance(2, 3)}
    if rng.chance(1, 3):
        c["abs"] = True
    return c


IMMHIST_BOUNDARY = [
    # owner names in the spelling the zone does not store (odd op[2] + index): every writer call form
    [[["txt", 1, 2], ["a", 2, 1], ["txt", 9, 3]], [["txt", 1, 0], ["rrset", 2, 1], ["ttlrd", 9, 0], ["txt", 5, 0], ["vempty", 6, 1]], [["delexact", 2, 1], ["deltxt", 1, 0], ["txt", 10, 1]]],
    # rdatasets with no rdatas: at a new name, at a name holding only that type, next to other data; via txn and via the
    # writable version; and nodes whose last rdataset is deleted
    [[["txt", 1, 1], ["a", 2, 2], ["txt", 9, 3]], [["empty", 5, 1], ["empty", 9, 1], ["empty", 2, 4], ["vempty", 6, 0]], [["txt", 10, 5]]],
    [[["txt", 1, 1], ["a", 2, 2], ["txt", 9, 3], ["a", 9, 4]], [["dellast", 9, 0], ["dellast", 2, 0], ["empty", 1, 3]], [["vempty", 1, 1], ["vempty", 8, 2]]],
    # a cut created above existing names, untouched in that transaction (glue re-flagging path)
    [[["txt", 1, 1], ["a", 2, 2], ["a", 3, 3], ["txt", 4, 4], ["a", 5, 5], ["txt", 9, 9]], [["ns", 1, 1]]],
    # ... and removed again, by deleting the NS rdataset / the whole node
    [[["txt", 1, 1], ["a", 2, 2], ["a", 3, 3], ["a", 5, 5]], [["ns", 1, 1]], [["delns", 1, 0]], [["ns", 1, 2]], [["delnode", 1, 0]]],
    # nested cuts, NS below a cut, NS at the origin
    [[["a", 2, 2], ["a", 3, 3], ["txt", 4, 4], ["a", 7, 7], ["a", 8, 8]], [["ns", 2, 1]], [["ns", 1, 1], ["ns", 0, 2]], [["delns", 1, 0]], [["ns", 6, 1], ["ns", 7, 1]]],
]



# ------------------------------------------------------------------------------------------------
# aliasing: a committed version must not share storage with objects the caller still holds
# ------------------------------------------------------------------------------------------------
def make_input(kind, name, c, n):
    """an object a caller would hand to a write transaction, plus everything mutable it was built from"""
    import dns.rrset

    rdtype = "TXT" if c % 2 else "A"
    texts = [(f'"v{c}-{j}"' if rdtype == "TXT" else "10.%d.%d.%d" % (c // 200 % 200, c % 200, j + 1)) for j in range(n)]
    if kind == "rds":
        o = dns.rdataset.from_text("IN", rdtype, 60 + c % 5, *texts)
        return o, [o], (name, o)
    if kind == "rrset":
        o = dns.rrset.from_text_list(name, 60 + c % 5, "IN", rdtype, texts)
        return o, [o], (o,)
    if kind == "rdlist":
        lst = [dns.rdata.from_text("IN", rdtype, t) for t in texts]
        o = dns.rdataset.from_rdata_list(60 + c % 5, lst)
        return o, [o, lst], (name, o)
    raise ValueError(kind)


MILD = [("add", lambda o: o.add(dns.rdata.from_text("IN", dns.rdatatype.to_text(o.rdtype), '"alias"' if o.rdtype == dns.rdatatype.TXT else "10.99.99.99"))),
        ("update_ttl", lambda o: o.update_ttl(1)),
        ("discard", lambda o: o.discard(o[0]))]


def mutate_held(o, zone, pool, full):
    """use the object's own public mutators, as its owner may; yields the name of each mutator applied"""
    if isinstance(o, dns.zone.Version):
        # the version object of a write transaction that has ended, through its own (public) methods and node map
        x = dns.name.from_text("alias", None if zone.relativize else ORIGIN)
        acts = [("nodes[name] = node", lambda: o.nodes.__setitem__(x, zone.node_factory())),
                ("put_rdataset", lambda: o.put_rdataset(x, dns.rdataset.from_text("IN", "TXT", 5, '"alias"'))),
                ("delete_node", lambda: [o.delete_node(n) for n in list(o.nodes.keys())[:1]]),
                ("nodes.clear", lambda: o.nodes.clear())]
        for what, fn in (acts if full else acts[:2]):
            try:
                fn()
            except Exception:  # noqa: BLE001
                pass
            yield what
        return
    if isinstance(o, list):
        for what, fn in (("list.append", lambda: o.append(dns.rdata.from_text("IN", "A", "10.99.99.98"))),
                         ("list.pop", lambda: o.pop(0)), ("list.clear", lambda: o.clear() if full else None)):
            try:
                fn()
            except Exception:  # noqa: BLE001
                pass
            yield what
        return
    if not full:
        for what, fn in MILD:
            try:
                fn(o)
            except Exception:  # noqa: BLE001
                pass
            yield what
        return
    try:
        methods, mine = mutator_methods(o, zone, pool), own_args(o)
    except Exception:  # noqa: BLE001 - an object its owner has already wrecked
        return
    for m in methods:
        for args in mine + pool:
            try:
                getattr(o, m)(*fresh_args(args))
            except Exception:  # noqa: BLE001
                pass
        yield m
    for a in public_attrs(o):
        try:
            setattr(o, a, 1 if a == "ttl" else None)
        except Exception:  # noqa: BLE001
            pass
        yield f"setattr:{a}"


def eval_alias(ctx: Ctx, case: dict):
    zk = case["zone"]
    z = ZONES[zk](ORIGIN)
    z.set_max_versions(None)
    readers = {}
    held = []  # (label, object)
    fails = []
    pool = short_pool(z)
    calls = 0

    def snap():
        return ([dump_version(v) for v in z._versions], {h: dump_txn(t) for h, t in readers.items()})

    def sweep(stage, full):
        nonlocal calls
        base = snap()
        done = set()
        for label, o in held:
            if id(o) in done:
                continue
            done.add(id(o))
            for what in mutate_held(o, z, pool, full):
                calls += 1
                try:
                    now = snap()
                except Exception as e:  # noqa: BLE001
                    now = ("unreadable", repr(e))
                if now != base:
                    who = [h for h in readers if isinstance(now[1], dict) and now[1].get(h) != base[1].get(h)]
                    vers = [z._versions[i].id for i in range(len(base[0])) if isinstance(now[0], list) and now[0][i] != base[0][i]]
                    fails.append((f"C11/{zk}/snapshot-stable/aliased:{label.split('#')[0]}",
                                  f"{stage}: after the caller's own {type(o).__name__}.{what} on the object it {label}, committed version(s) {vers} changed"
                                  + (f" and open reader(s) {who} observe different content" if who else "")))
                    return False
        return True

    ok = True
    for ti, ops in enumerate(case["txns"]):
        txn = z.writer(ti == 0)
        if ti == 0:
            txn.replace(dns.name.empty, dns.rdataset.from_text("IN", "SOA", 60, "ns1 host 1 1 1 1 1"))
        if case.get("hold_version", True):
            held.append((f"took as txn.version from the writer#{len(held)}", txn.version))
        for op in ops:
            kind = op[0]
            try:
                if kind in ("rds", "rrset", "rdlist"):
                    name = spelled(z, TREE_NAMES[op[1]], (op[2] + op[1]) % 2)
                    o, keep, args = make_input(kind, name, op[2], op[3])
                    (txn.replace if op[4] else txn.add)(*args)
                    for x in keep:
                        held.append((f"handed to txn.{'replace' if op[4] else 'add'} ({kind})#{len(held)}", x))
                elif kind == "reuse" and held:
                    label, o = held[op[2] % len(held)]
                    if isinstance(o, dns.rdataset.Rdataset) and not isinstance(o, dns.rdataset.ImmutableRdataset) and len(o) > 0:
                        if hasattr(o, "name"):
                            txn.replace(o)
                        else:
                            txn.replace(TREE_NAMES[op[1]], o)
                elif kind == "wget":
                    name = TREE_NAMES[op[1]]
                    node = txn.get_node(name)
                    if node is not None:
                        held.append((f"got from the writer's txn.get_node()#{len(held)}", node))
                        for rds in node:
                            held.append((f"got from iterating the writer's txn.get_node()#{len(held)}", rds))
                            held.append((f"got from the writer's txn.get()#{len(held)}", txn.get(name, rds.rdtype, rds.covers)))
                elif kind == "witer":
                    for name, rds in txn.iterate_rdatasets():
                        held.append((f"got from the writer's txn.iterate_rdatasets()#{len(held)}", rds))
            except (KeyError, ValueError, dns.exception.DNSException):
                ctx.count("alias.writer-op-refused")
        txn.commit()
        if ti in case.get("readers_at", []):
            readers[ti] = z.reader()
        ok = sweep(f"after commit {ti + 1}", False)
        if not ok:
            break
    if ok:
        sweep("after the last commit, every mutator", True)
    for t in readers.values():
        try:
            t.rollback()
        except Exception:  # noqa: BLE001
            pass
    ctx.count(f"alias.{zk}.held-objects", len(held))
    ctx.count(f"alias.{zk}.mutations", calls)
    seen = set()
    for sig, what in fails:
        if sig not in seen:
            seen.add(sig)
            ctx.fail(sig, what, {"kind": "alias", "case": case})
    return fails


def gen_alias(rng, zk):
    ntx = rng.range(1, 4)
    txns = []
    c = rng.below(1000)
    for ti in range(ntx):
        ops = []
        for _ in range(rng.range(1, 4)):
            x = rng.below(10)
            c += 1
            if x < 6 or ti == 0 and x < 8:
                ops.append([rng.choice(["rds", "rds", "rrset", "rdlist"]), rng.range(1, len(TREE) - 1), c, rng.range(1, 3), rng.below(2)])
            elif x < 7:
                ops.append(["reuse", rng.range(1, len(TREE) - 1), rng.below(8)])
            elif x < 9:
                ops.append(["wget", rng.range(0, len(TREE) - 1)])
            else:
                ops.append(["witer"])
        if rng.chance(1, 3):
            ops.append(["wget", ops[0][1]] if ops[0][0] in ("rds", "rrset", "rdlist") else ["witer"])
        txns.append(ops)
    readers_at = sorted(set([rng.below(ntx), ntx - 1]))
    return {"kind": "alias", "zone": zk, "txns": txns, "readers_at": readers_at}


ALIAS_BOUNDARY = [
    # the caller keeps its Rdataset / RRset / rdata list and edits it after the commit, with a reader open
    [[["rds", 1, 1, 2, 1]], [["rds", 2, 2, 1, 0]]],
    [[["rrset", 1, 3, 2, 0], ["rdlist", 2, 4, 2, 1]]],
    # the same object handed in twice, edited in between
    [[["rds", 1, 5, 2, 1]], [["reuse", 3, 0], ["wget", 1], ["witer"]], [["reuse", 1, 0]]],
    # objects taken out of the writer before the commit
    [[["rds", 1, 7, 2, 1], ["wget", 1], ["witer"]], [["rds", 1, 8, 1, 0], ["wget", 1]]],
]



# ------------------------------------------------------------------------------------------------
# the lock: every operation of the model is one atomic step.  A wrapping lock installed on the zone counts the
# critical sections of each call and lets a complete concurrent operation (what another thread would do the moment
# the lock is free) run at any release point inside the call.
# ------------------------------------------------------------------------------------------------
class HookLock:
    def __init__(self, real):
        self.real = real
        self.acquires = 0
        self.releases = 0
        self.fire_at = None  # index of the release after which `hook` runs (once)
        self.hook = None
        self.trace = []

    def acquire(self, *a, **kw):
        r = self.real.acquire(*a, **kw)
        self.acquires += 1
        self.trace.append("acquire")
        return r

    def release(self):
        self.real.release()
        self.trace.append("release")
        k = self.releases
        self.releases += 1
        if self.hook is not None and self.fire_at == k:
            hook, self.hook = self.hook, None
            self.trace.append("<concurrent operation runs here>")
            hook()

    def locked(self):
        return self.real.locked()

    def __enter__(self):
        self.acquire()
        return self

    def __exit__(self, *exc):
        self.release()
        return False


def lockhook_once(case, at):
    """prefix (plain), then `op` with `hook` tokens run as one concurrent burst right after release number `at`
    inside the call (None: no hook).  Returns (run, lock, prefix outs, op out, state at hook start, hook outs)."""
    run = Run(case["zone"])
    pre = []
    for tok in case["prefix"]:
        out = run.apply(tok)
        pre.append(f"{out}|{run.state_tok()}")
    lock = HookLock(run.zone._version_lock)
    run.zone._version_lock = lock
    mid = {}
    houts = []

    def hook():
        mid["state"] = run.state_tok()
        for tok in case["hook"]:
            out = run.apply(tok)
            houts.append(f"{out}|{run.state_tok()}")

    if at is not None:
        lock.fire_at, lock.hook = at, hook
    out = run.apply(case["op"])
    return run, lock, pre, out, mid.get("state"), houts


def close_all(run):
    for t in list(run.zone._readers):
        try:
            t.rollback()
        except Exception:  # noqa: BLE001
            pass


def eval_lockhook(ctx: Ctx, case: dict):
    zk = case["zone"]
    op = case["op"]
    fails = []
    # 1. how many critical sections does the call have?  (the model: one)
    run0, lock0, _, out0, _, _ = lockhook_once(case, None)
    n_acq, n_rel = lock0.acquires, lock0.releases
    close_all(run0)
    ctx.count(f"lockhook.{zk}.sections.{op[0:2] if op[0] == 'o' else op[0]}={n_acq}")
    if not out0.startswith("E"):
        ctx.corr(f"c11.sections {op}", f"ok {n_acq}", case)
    # 2. a complete concurrent operation at every release point inside the call
    points = range(n_rel) if case.get("at") is None else [case["at"]]
    for at in points:
        run, lock, pre, out, mid, houts = lockhook_once(case, at)
        z = run.zone
        what_at = f"{op} with [{' '.join(case['hook'])}] run by another thread right after release #{at + 1} of _version_lock inside the call"
        local = []
        if lock.hook is not None:
            close_all(run)
            continue  # the release point was not reached this time
        if out.startswith("X") or any(h.startswith("X") for h in houts):
            local.append((f"C11/{zk}/interleaved/raises", f"{out} / {houts}"))
        monitor(run, "O0", out, (list(z._versions), run.policy), local)
        if op[0] == "o" and out.startswith("P"):
            vid = int(out[1:].split(":")[0])
            ids = [v.id for v in z._versions]
            if vid not in ids:
                local.append((f"C11/{zk}/pinned-retained", f"version {vid} handed to the reader is not retained ({ids})"))
            try:
                z.reader(id=vid).rollback()
            except KeyError:
                local.append((f"C11/{zk}/pinned-retained", f"reader(id={vid}) raises KeyError while the first reader on version {vid} is still open (retained {ids})"))
            sn = serial_of(run.readers[int(op[2:].split(':')[0])].version, z)
            if sn is not None:
                try:
                    r2 = z.reader(serial=sn)
                    if r2.version.id < vid:
                        local.append((f"C11/{zk}/reader-lookup", f"reader(serial={sn}) opened {r2.version.id}, older than the pinned version {vid} with that serial"))
                    r2.rollback()
                except KeyError:
                    local.append((f"C11/{zk}/pinned-retained", f"reader(serial={sn}) raises KeyError while version {vid} with that serial is pinned"))
        for sig, what in local:
            fails.append((sig, f"{what_at}: {what}", at, list(lock.trace)))
        # 3. the model, in lock-acquisition order: the call is one section, so everything the other thread did comes after it
        if n_acq == 1 and n_rel == 1 and mid is not None and not local:
            toks = case["prefix"] + [op] + case["hook"]
            ctx.corr("c11.run " + " ".join(toks), " ".join(["ok"] + pre + [f"{out}|{mid}"] + houts), case)
        close_all(run)
        ctx.count(f"lockhook.{zk}.interleavings")
    seen = set()
    for sig, what, at, trace in fails:
        if sig not in seen:
            seen.add(sig)
            ctx.fail(sig, what, {"kind": "lockhook", "case": dict(case, at=at), "interleaving": trace})
    return [(s_, w) for s_, w, _, _ in fails]


def gen_lockhook(rng, zk):
    h = gen_history(rng, zk)
    h.pop("abs", None)
    h.pop("ctor", None)  # the interleaving cases run on a plain relativized zone: the prefix must be executable there
    base = executable(h)
    ops = base["ops"][: rng.choice([0, 2, 4, 8, 12])]
    # replay the prefix to know what is open
    run = Run(zk)
    for t in ops:
        run.apply(t)
    open_h = sorted(run.open_dump)
    writer_open = run.wtxn is not None
    ids = [v.id for v in run.zone._versions]
    serials = [s_ for s_ in (serial_of(v, run.zone) for v in run.zone._versions) if s_ is not None]
    close_all(run)
    x = rng.below(10)
    if x < 5:
        op = "oL90"
    elif x < 7:
        op = f"oI90:{rng.choice(ids)}"
    elif x < 8 and serials:
        op = f"oS90:{rng.choice(serials)}"
    elif x < 9 and open_h:
        op = f"c{rng.choice(open_h)}"
    else:
        op = rng.choice(["M1", "M2", "Pnone", "Mnone"])
    if not writer_open:
        hook = ["w", f"C{900 + rng.below(50)}:{rng.choice(['-', '5', '6'])}:1"]
        if rng.chance(1, 3):
            hook += ["w", f"C{950 + rng.below(40)}:7:1"]
    else:
        hook = [rng.choice(["M1", "Pnone"])]
    cand = [h for h in open_h if not (op[0] == "c" and int(op[1:]) == h)]
    if cand and rng.chance(1, 3):
        hook.append(f"c{rng.choice(cand)}")
    return {"kind": "lockhook", "zone": zk, "prefix": ops, "op": op, "hook": hook}


LOCKHOOK_BOUNDARY = [
    # a commit lands while reader() is running (default policy: everything below the pins goes)
    {"prefix": ["w", "C1:1:1"], "op": "oL90", "hook": ["w", "C2:2:1"]},
    {"prefix": ["w", "C1:1:1"], "op": "oI90:2", "hook": ["w", "C2:2:1", "w", "C3:3:1"]},
    {"prefix": ["w", "C1:5:1"], "op": "oS90:5", "hook": ["w", "C2:6:1"]},
    # a commit lands while another reader is being closed / the policy is being changed
    {"prefix": ["oL1", "w", "C1:1:1", "oL2"], "op": "c1", "hook": ["w", "C2:2:1", "c2"]},
    {"prefix": ["Mnone", "w", "C1:1:1", "w", "C2:2:1", "oI1:2"], "op": "M1", "hook": ["w", "C3:3:1"]},
    # a reader is opened while a commit is in progress
    {"prefix": ["w"], "op": "C1:1:1", "hook": ["oL90", "M1"]},
]



# ------------------------------------------------------------------------------------------------
# the copy-on-write bookkeeping of a write transaction (tie of Model.Versioned.CowState)
# ------------------------------------------------------------------------------------------------
def eval_cow(ctx: Ctx, case: dict):
    """after every operation of every write transaction: which names are in `version.changed`, and which names have
    a node object of their own (not the object of the version the transaction started from) - against the model;
    and directly: a name not in `changed` must still carry the base version's (immutable) node object, a name in
    `changed` must not"""
    zk = case["zone"]
    z = ZONES[zk](ORIGIN)
    z.set_max_versions(None)
    toks, outs, fails = [], [], []
    idx = {n: i for i, n in enumerate(TREE_NAMES)}

    def observe(txn, base_nodes):
        v = txn.version
        for n in v.changed:
            if n not in idx:
                fails.append((f"C11/{zk}/cow/changed-spelling", f"version.changed holds {n}, which is not the key under which the zone stores that node (the caller's spelling was recorded): the node will be committed unfrozen"))
        changed = sorted(idx[n] for n in v.changed if n in idx)
        fresh = sorted(idx[n] for n, node in v.nodes.items() if node is not base_nodes.get(n))
        for n, node in v.nodes.items():
            if n not in v.changed:
                if node is not base_nodes.get(n):
                    fails.append((f"C11/{zk}/cow/private-node-not-in-changed", f"{n} has a node of its own in the write transaction but is not in version.changed: it will be committed unfrozen"))
                elif not node.is_immutable():
                    fails.append((f"C11/{zk}/cow/shared-node-mutable", f"{n} is shared with the base version but its node is mutable"))
            elif node is base_nodes.get(n):
                fails.append((f"C11/{zk}/cow/changed-name-shares-node", f"{n} is in version.changed but still carries the base version's node object"))
        j = lambda l: ",".join(map(str, l)) or "-"
        return f"c{j(changed)}|f{j(fresh)}|v{len(z._versions)}"

    expected = set()
    for ti, ops in enumerate(case["txns"]):
        repl = ti == 0
        base_nodes = {} if repl else dict(z._versions[-1].nodes.items())
        if repl:
            expected = set()
        effective = 0
        txn = z.writer(repl)
        toks.append("b1" if repl else "b0")
        outs.append(observe(txn, base_nodes))
        for op in ops:
            kind, i = op[0], op[1]
            name = TREE_NAMES[i]
            v = txn.version
            dels = getattr(v, "delegations", None)
            was_cut = dels is not None and name in dels
            exists = name in v.nodes
            if kind == "del" and not exists:
                continue
            below = sorted(idx[n] for n in v.nodes.keys() if n != name and n.is_subdomain(name)) if i != 0 else []
            try:
                apply_wop(txn, ["delnode", i, 0] if kind == "del" else [("ns" if kind == "ns" else "txt"), i, op[2]])
            except (KeyError, ValueError, dns.exception.DNSException):
                ctx.count("cow.writer-op-refused")
                break
            except BaseException:
                txn.rollback()  # never leave the zone with an open writer: the next writer() would block for ever
                raise
            is_cut = dels is not None and name in v.delegations
            effective += 1
            (expected.discard if kind == "del" else expected.add)(name)
            if kind == "del":
                if was_cut and below:
                    toks.append("f0:" + ",".join(map(str, below)))
                    outs.append(None)
                toks.append(f"d{i}")
            else:
                toks.append(f"p{i}:{op[2]}")
                if is_cut and not was_cut and below:
                    outs.append(None)
                    toks.append("f4:" + ",".join(map(str, below)))
            outs.append(observe(txn, base_nodes))
        nbefore = len(z._versions)
        txn.commit()
        toks.append("K")
        outs.append(f"c-|f-|v{len(z._versions)}")
        got = set(z._versions[-1].nodes.keys())
        if effective and (len(z._versions) != nbefore + 1 or got != expected):
            fails.append((f"C11/{zk}/cow/commit-lost-change",
                          f"transaction {ti + 1} ({ops}) committed: {len(z._versions) - nbefore} new version(s), newest holds "
                          f"{sorted(n.to_text() for n in got)}, expected {sorted(n.to_text() for n in expected)}"))
    # intermediate model states inside one implementation call (between the put and the re-flagging) are not observable
    keep = [k for k, o in enumerate(outs) if o is not None]
    ctx.corr("c11.cow " + " ".join(toks) + " #" + ",".join(map(str, keep)), " ".join(["ok"] + [outs[k] for k in keep]), case)
    ctx.count(f"cow.{zk}.ops", len(toks))
    seen = set()
    for sig, what in fails:
        if sig not in seen:
            seen.add(sig)
            ctx.fail(sig, what, {"kind": "cow", "case": case})
    return fails


COW_BOUNDARY = [
    # a transaction that only deletes a node must still produce a version
    [[["put", 1, 1], ["put", 2, 2], ["put", 9, 3]], [["del", 9]], [["del", 2], ["del", 1]]],
    # cut created above existing names, then removed by deleting the node
    [[["put", 1, 1], ["put", 2, 2], ["put", 3, 3], ["put", 5, 4]], [["ns", 1, 5]], [["del", 1]]],
]


def gen_cow(rng, zk):
    txns = []
    c = rng.below(500)
    for ti in range(rng.range(2, 4)):
        ops = []
        for _ in range(rng.range(1, 5) if ti else rng.range(4, 8)):
            c += 1
            x = rng.below(10)
            i = rng.range(1, len(TREE) - 1)
            if x < 5 or ti == 0:
                ops.append(["put", i, c])
            elif x < 8:
                ops.append(["ns", rng.choice([1, 1, 2, 3, 6, 7]), c])
            else:
                ops.append(["del", i])
        txns.append(ops)
    return {"kind": "cow", "zone": zk, "txns": txns}



# ------------------------------------------------------------------------------------------------
# sizes beyond the comfortable: hundreds of retained versions and dozens of readers
# ------------------------------------------------------------------------------------------------
def eval_bigversions(ctx: Ctx, case: dict):
    """keep-all, `n` commits with readers pinned along the way, some closed again, then a policy that prunes hard;
    the invariant monitor runs on the final states only (dumping hundreds of versions after every operation is
    quadratic), the model is compared on the last operation of each phase"""
    zk = case["zone"]
    n, step = case["n"], case["step"]
    run = Run(zk)
    fails = []
    toks = ["Mnone"]
    run.apply("Mnone")
    h = 0
    for c in range(1, n + 1):
        for tok in ("w", f"C{c}:{c % 7}:1"):
            run.apply(tok)
            toks.append(tok)
        if c % step == 0:
            h += 1
            tok = f"oI{h}:{c - (h % 3)}" if h % 2 else f"oL{h}"
            run.apply(tok)
            toks.append(tok)
    phases = [[f"c{x}" for x in range(1, h + 1, 3)], [case["policy"]], [f"c{x}" for x in range(2, h + 1)], ["Pnone"]]
    for ph in phases:
        for tok in ph:
            before = (list(run.zone._versions), run.policy)
            out = run.apply(tok)
            toks.append(tok)
        monitor(run, tok, out, before, fails)
        ctx.corr("c11.last " + " ".join(toks), f"ok {out}|{run.state_tok()}", case)
        ctx.count(f"big.{zk}.retained={len(run.zone._versions)}")
    close_all(run)
    seen = set()
    for sig, what in fails:
        if sig not in seen:
            seen.add(sig)
            ctx.fail(sig, what, {"kind": "bigversions", "case": case})
    return fails



# ------------------------------------------------------------------------------------------------
# a pruning policy that is interrupted (raises an Exception, or a BaseException that is not one: Ctrl-C, task
# cancellation) inside commit / reader close / set_pruning_policy: the zone must stay consistent and usable
# ------------------------------------------------------------------------------------------------
class ArmedPolicy:
    def __init__(self, exc, at):
        self.exc, self.at, self.calls, self.armed = exc, at, 0, True

    def __call__(self, zone, version):
        self.calls += 1
        if self.armed and self.calls == self.at:
            self.armed = False
            raise self.exc("policy interrupted")
        return True


def eval_raisepol(ctx: Ctx, case: dict):
    zk = case["zone"]
    run = Run(zk)
    fails = []
    for tok in ["Mnone"] + case["prefix"]:
        run.apply(tok)
    exc = {"ValueError": ValueError, "BoomBase": BoomBase, "KeyboardInterrupt": KeyboardInterrupt}[case["exc"]]
    z = run.zone
    pol = ArmedPolicy(exc, case["at"])
    op = case["op"]
    what = f"{op} with a pruning policy that raises {case['exc']} on its call #{case['at']}"
    raised = False
    try:
        if op == "P":
            run.policy = ("default",)
            z.set_pruning_policy(pol)
        else:
            z._pruning_policy = pol  # installed without pruning (set_pruning_policy itself prunes)
            run.policy = ("default",)
            if op == "C":
                if run.wtxn is None:
                    run.apply("w")
                txn, run.wtxn = run.wtxn, None
                run.modify(txn, 800 + case["at"], 9)
                vid, d = txn.version.id, None
                txn.commit()
                # not interrupted: an ordinary commit
                run.cid[dump_version(z._versions[-1])] = 800 + case["at"]
                run.committed.append((vid, 800 + case["at"]))
            else:
                h = sorted(run.open_dump)[0]
                run.open_dump.pop(h)
                run.readers[h].rollback()
    except exc:
        raised = True
    except Exception as e:  # noqa: BLE001
        fails.append((f"C11/{zk}/interrupted-policy/raises", f"{what}: {type(e).__name__} {e}"))
    ctx.count(f"raisepol.{zk}.{op}." + ("interrupted" if raised else "not-triggered"))
    pol.armed = False

    def bad(clause, msg):
        fails.append((f"C11/{zk}/interrupted-policy/{clause}", f"{what}: {msg}"))

    vs = list(z._versions)
    ret = [(v.id, run.content_of(dump_version(v))) for v in vs]
    if not vs or ret != run.committed[len(run.committed) - len(ret):]:
        bad("retained-contiguous", f"retained {ret} is not a run ending the committed history {run.committed[-4:]} (an unpublished version is visible, or the newest is gone)")
    if vs and z.nodes is not vs[-1].nodes:
        bad("published", f"zone.nodes is not the node map of the newest retained version {vs[-1].id}")
    if run.wtxn is None and z._write_txn is not None:
        bad("write-not-ended", "the interrupted commit left its write transaction registered: every later writer() blocks")
    for t in z._readers:
        if not any(t.version is v for v in vs):
            bad("pinned-retained", f"version {t.version.id} of an open reader is not retained ({[v.id for v in vs]})")
    if sorted(id(run.readers[h]) for h in run.open_dump) != sorted(id(t) for t in z._readers):
        bad("readers", "registered readers differ from the open ones")
    for h, d0 in run.open_dump.items():
        if dump_txn(run.readers[h]) != d0:
            bad("snapshot-stable", f"reader {h} changed")
    if not fails:
        # the zone keeps working: a reader sees the last committed version, the next commit gets the next id
        for tok in (["oL95"] if True else []) + ([] if run.wtxn is not None else ["w"]) + ["C850:8:1", "O95", "c95"]:
            before = (list(z._versions), run.policy)
            out = run.apply(tok)
            if out.startswith("X"):
                bad("unusable", f"afterwards {tok} raises {out[1:]}")
                break
            local = []
            monitor(run, tok, out, before, local)
            # an interrupted prune legitimately leaves prunable versions behind until the next operation that prunes
            fails.extend(x for x in local if not (tok[0] in "ow" and x[0].endswith("pruning-exact/left-over")))
    close_all(run)
    seen = set()
    for sig, msg in fails:
        if sig not in seen:
            seen.add(sig)
            ctx.fail(sig, msg, {"kind": "raisepol", "case": case})
    return fails


def gen_raisepol(rng, zk):
    h = gen_history(rng, zk)
    h.pop("abs", None)
    h.pop("ctor", None)
    ops = [t for t in executable(h)["ops"] if t[0] not in "MPQ"][: rng.choice([4, 8, 14, 20])]
    run = Run(zk)
    for t in ["Mnone"] + ops:
        run.apply(t)
    has_reader = bool(run.open_dump)
    close_all(run)
    op = rng.choice(["C", "C", "P"] + (["c", "c"] if has_reader else []))
    return {"kind": "raisepol", "zone": zk, "prefix": ops, "op": op, "at": rng.choice([1, 1, 2, 3]),
            "exc": rng.choice(["ValueError", "BoomBase", "KeyboardInterrupt"])}


RAISEPOL_BOUNDARY = [
    {"prefix": ["w", "C1:1:1", "w", "C2:2:1"], "op": "C", "at": 1, "exc": "KeyboardInterrupt"},
    {"prefix": ["w", "C1:1:1", "w", "C2:2:1"], "op": "C", "at": 2, "exc": "ValueError"},
    {"prefix": ["oL1", "w", "C1:1:1", "w", "C2:2:1", "oL2"], "op": "c", "at": 1, "exc": "BoomBase"},
    {"prefix": ["w", "C1:1:1", "w", "C2:2:1", "oI1:2"], "op": "P", "at": 1, "exc": "KeyboardInterrupt"},
]


class Hang(BaseException):
    pass


def _alarm(signum, frame):
    raise Hang("no result within 30 s")


def eval_case(ctx: Ctx, case: dict):
    import signal

    signal.signal(signal.SIGALRM, _alarm)
    signal.alarm(30)
    try:
        if case["kind"] == "history":
            return eval_history(ctx, case)
        if case["kind"] == "immutability":
            return eval_immutability(ctx, case)
        if case["kind"] == "immhist":
            return eval_immhist(ctx, case)
        if case["kind"] == "fresh":
            return eval_fresh(ctx, case)
        if case["kind"] == "alias":
            return eval_alias(ctx, case)
        if case["kind"] == "lockhook":
            return eval_lockhook(ctx, case)
        if case["kind"] == "cow":
            return eval_cow(ctx, case)
        if case["kind"] == "bigversions":
            return eval_bigversions(ctx, case)
        if case["kind"] == "raisepol":
            return eval_raisepol(ctx, case)
    except Exception as e:  # noqa: BLE001 - e.g. the zone constructor itself raises (the initial version is pruned away)
        import traceback

        where = traceback.extract_tb(e.__traceback__)[-1]
        sig = f"C11/{case.get('zone')}/raises/{type(e).__name__}:{where.name}"
        what = f"{case['kind']} case on a {case.get('zone')} zone raised {e!r} in {where.name} ({os.path.basename(where.filename)}:{where.lineno})"
        ctx.fail(sig, what, {"kind": case["kind"], "case": case})
        return [(sig, what)]
    finally:
        signal.alarm(0)
    raise ValueError(case["kind"])


# ------------------------------------------------------------------------------------------------
# generator: tracks what the model would do, so that only executable operations are produced
# ------------------------------------------------------------------------------------------------
def gen_history(rng, zk):
    n = rng.choice([1, 3, 6, 10, 16, 25, 40, 60])
    ops = []
    next_h = 1
    open_h = []
    closed_h = []
    writer = False
    next_c = 1
    newest = 1
    serial = None
    serials = []
    max_readers = rng.choice([1, 2, 3, 6])
    for _ in range(n):
        x = rng.below(100)
        if x < 22:
            if writer:
                y = rng.below(10)
                if y < 7:
                    s = rng.choice([serial, None, ((serial or 0) + 1) % 2 ** 32, rng.below(5), rng.choice([0, 2 ** 31 - 1, 2 ** 31, 2 ** 32 - 1])])
                    ops.append(f"C{next_c}:{'-' if s is None else s}:1")
                    serial = s
                    if s is not None:
                        serials.append(s)
                    next_c += 1
                    newest += 1
                elif y < 8:
                    ops.append(f"C{next_c}:-:0")
                else:
                    ops.append("R")
                writer = False
            else:
                ops.append("w")
                writer = True
        elif x < 45 and len(open_h) < max_readers:
            y = rng.below(10)
            if y < 5:
                ops.append(f"oL{next_h}")
                open_h.append(next_h)
            elif y < 8:
                i = rng.choice([newest, newest, max(1, newest - 1), max(1, newest - 2), rng.range(1, newest + 1), newest + 1, 0])
                ops.append(f"oI{next_h}:{i}")
                open_h.append(next_h)  # may fail; resolved by the harness below
            else:
                s = rng.choice(serials + [0, 7]) if serials else rng.below(3)
                if rng.chance(1, 6):
                    ops.append(f"oB{next_h}:{rng.choice([newest, 1, 0])}:{s}")
                else:
                    ops.append(f"oS{next_h}:{s}")
                open_h.append(next_h)
            next_h += 1
        elif x < 65 and open_h:
            h = rng.choice(open_h)
            ops.append(f"c{h}")
            open_h.remove(h)
            closed_h.append(h)
        elif x < 68 and closed_h:
            ops.append(f"c{rng.choice(closed_h)}")  # double close
        elif x < 78:
            ops.append("M" + rng.choice(["none", "-1", "0", "1", "1", "2", "2", "3", "4"]))
        elif x < 88:
            y = rng.below(5)
            if y == 0:
                ops.append("Pnone")
            elif y == 4:
                ops.append(f"Q{rng.below(3)}:{rng.below(3)}")
            else:
                ids = sorted(set(rng.range(1, newest + 2) for _ in range(rng.below(5))))
                ops.append("P" + (",".join(map(str, ids)) if ids else "."))
        elif open_h or closed_h:
            ops.append(f"O{rng.choice(open_h * 4 + closed_h)}")
        else:
            ops.append(f"oL{next_h}")
            open_h.append(next_h)
            next_h += 1
    case = {"kind": "history", "zone": zk, "ops": ops}
    if rng.chance(1, 4):
        case["abs"] = True
    if rng.chance(1, 5):
        ids = sorted(set(rng.range(1, 4) for _ in range(rng.below(4))))
        case["ctor"] = rng.choice(["P" + (",".join(map(str, ids)) if ids else "."), f"Q{rng.below(3)}:{rng.below(3)}", "P."])
    return case


def executable(case):
    """drop operations that refer to a reader whose open failed (KeyError): there is no transaction object to use"""
    try:
        return _executable(case)
    except Exception:  # noqa: BLE001 - reported when the case is evaluated
        return case


def _executable(case):
    run = Run(case["zone"], case.get("abs", False), case.get("ctor"))
    ops = []
    failed = set()
    for tok in case["ops"]:
        if tok[0] in "cO" and int(tok[1:]) in failed:
            continue
        out = run.apply(tok)
        if tok[0] == "o" and out.startswith("E"):
            failed.add(int(tok[2:].split(":")[0]))
        ops.append(tok)
    for t in list(run.zone._readers):
        t.rollback()
    return dict(case, ops=ops)


def case_key(case):
    return json.dumps(case, sort_keys=True)


def nontrivial(case):
    ops = case.get("ops", [])
    return sum(1 for t in ops if t[0] == "C" and t.endswith(":1")) >= 2 and any(t[0] == "o" for t in ops)


BOUNDARY = [
    # reader pins an old version across commits; default policy prunes on close
    ["oL1", "w", "C1:5:1", "O1", "w", "C2:6:1", "O1", "oL2", "c1", "O2", "c2"],
    # keep 2; reader by id and by serial; pruned id -> KeyError
    ["M2", "w", "C1:5:1", "w", "C2:6:1", "w", "C3:6:1", "oI1:2", "oI2:1", "oS3:6", "oS4:5", "O1", "O3", "c1", "c3"],
    # arbitrary predicate: refuses the oldest, so nothing behind it goes either
    ["Mnone", "w", "C1:1:1", "w", "C2:2:1", "w", "C3:3:1", "P2,3", "P1", "P1,2,3,4", "Mnone"],
    # pin in the middle, policy allows everything
    ["Mnone", "w", "C1:1:1", "w", "C2:2:1", "oI1:2", "w", "C3:3:1", "Pnone", "c1"],
    # empty commit and rollback make no version; bad max
    ["w", "C1:-:0", "w", "R", "w", "C1:-:1", "M0", "M-1", "M1"],
    # several retained versions with the same serial: reader(serial=) takes the newest; a pruned serial -> KeyError
    ["Mnone", "w", "C1:6:1", "w", "C2:6:1", "w", "C3:7:1", "w", "C4:6:1", "oS1:6", "oS2:7", "oS3:5", "O1", "M1", "c1", "c2", "oS4:7", "oS5:6"],
    # SOA dropped in a middle version whose origin node stays: reader(serial=) must look past it; both selectors refused
    ["Mnone", "w", "C2:5:1", "w", "C4:-:1", "w", "C6:-:1", "oS1:5", "oS2:4", "oB3:2:5", "oB4:9:9", "O1"],
    # policies that are monotone neither in the id nor in the count
    ["Q1:1", "w", "C1:1:1", "w", "C2:2:1", "w", "C3:3:1", "Q0:0", "w", "C4:4:1", "Q2:1", "w", "C5:5:1", "Pnone"],
]


def generate(ctx: Ctx, scale: int, rng):
    for i in range(60 * scale):
        c = gen_raisepol(rng, "btree" if i % 2 else "versioned")
        ctx.case(case_key(c), True, sample=c if i < 2 else None)
        eval_case(ctx, c)
    for i in range(120 * scale):
        c = gen_cow(rng, "btree" if i % 3 else "versioned")
        ctx.case(case_key(c), True, sample=c if i < 2 else None)
        eval_case(ctx, c)
    for i in range(150 * scale):
        c = gen_lockhook(rng, "btree" if i % 2 else "versioned")
        ctx.case(case_key(c), True, sample=c if i < 2 else None)
        eval_case(ctx, c)
    for i in range(60 * scale):
        c = gen_alias(rng, "btree" if i % 2 else "versioned")
        ctx.case(case_key(c), True, sample=c if i < 2 else None)
        eval_case(ctx, c)
    for i in range(60 * scale):
        c = gen_immhist(rng, "btree" if i % 3 else "versioned")
        ctx.case(case_key(c), True, sample=c if i < 2 else None)
        eval_case(ctx, c)
    for i in range(1100 * scale):
        zk = "versioned" if i % 2 == 0 else "btree"
        c = executable(gen_history(rng, zk))
        ctx.case(case_key(c), nontrivial(c), sample=c if len(c["ops"]) <= 12 else None)
        eval_case(ctx, c)


def run(ctx: Ctx):
    for p in sorted(glob.glob(os.path.join(VERIF, "corpus", "C11", "*.json"))):
        c = json.load(open(p))
        ctx.case(("corpus", os.path.basename(p)), sample=None)
        eval_case(ctx, c)
        ctx.count("corpus")
    for zk in ZONES:
        for ops in BOUNDARY:
            for extra in ({}, {"abs": True}, {"ctor": "P."}, {"ctor": "Q1:1", "abs": True}):
                c = executable(dict({"kind": "history", "zone": zk, "ops": ops}, **extra))
                ctx.case(case_key(c))
                eval_case(ctx, c)
                ctx.count("boundary")
        for fresh, extended in ((False, False), (False, True), (True, True)):
            c = {"kind": "immutability", "zone": zk, "fresh": fresh, "extended": extended}
            ctx.case(case_key(c))
            eval_case(ctx, c)
    for zk, pol in (("versioned", "M3"), ("btree", "Q1:1")):
        c = {"kind": "bigversions", "zone": zk, "n": 400, "step": 9, "policy": pol}
        ctx.case(case_key(c))
        eval_case(ctx, c)
    for zk in ZONES:
        for b in RAISEPOL_BOUNDARY:
            c = dict(b, kind="raisepol", zone=zk)
            ctx.case(case_key(c))
            eval_case(ctx, c)
            ctx.count("boundary.raisepol")
    for zk in ZONES:
        for txns in COW_BOUNDARY:
            c = {"kind": "cow", "zone": zk, "txns": txns}
            ctx.case(case_key(c))
            eval_case(ctx, c)
            ctx.count("boundary.cow")
    for zk in ZONES:
        for b in LOCKHOOK_BOUNDARY:
            c = dict(b, kind="lockhook", zone=zk)
            ctx.case(case_key(c))
            eval_case(ctx, c)
            ctx.count("boundary.lockhook")
    for zk in ZONES:
        for txns in ALIAS_BOUNDARY:
            c = {"kind": "alias", "zone": zk, "txns": txns, "readers_at": [0, len(txns) - 1]}
            ctx.case(case_key(c))
            eval_case(ctx, c)
            ctx.count("boundary.alias")
    for zk in ZONES:
        for txns in IMMHIST_BOUNDARY:
            for ra, ab in (([0], False), ([len(txns) - 1], False), ([len(txns) - 1], True)):
                c = {"kind": "immhist", "zone": zk, "txns": txns, "readers_at": ra, "keep_all": True, "abs": ab}
                ctx.case(case_key(c))
                eval_case(ctx, c)
                ctx.count("boundary.immhist")
    generate(ctx, 1 if ctx.tier == "quick" else 20, ctx.rng)


def search(ctx: Ctx):
    for m in ctx.mismatches[:50]:
        if m.case is not None:
            eval_case(ctx, m.case)
    generate(ctx, 3 if ctx.tier == "quick" else 30, ctx.rng.fork(7))


def replay(ctx: Ctx, obj: dict):
    fails = eval_case(ctx, obj["case"])
    return [w for _, w in fails]


LEVEL = {
    "text": "Lean 4 theorems, by induction over arbitrary operation lists (reader open by latest/id/serial, close, writer open, commit, empty commit, rollback, set_max_versions, set_pruning_policy with an arbitrary predicate), about an executable model of dns/versioned.py's version deque, reader set and _prune_versions_unlocked: version ids strictly increase and are consecutive; the retained versions are a suffix of everything ever committed (a contiguous run containing the newest); every version pinned by an open reader is retained; for an arbitrary pure policy callable of (number retained, version) - monotone or not - pruning retains the longest suffix of the deque whose first version is not prunable at its turn (at or above the smallest pin / the newest, or refused by the policy), drops exactly the prefix before it, and in every reachable state nothing prunable is left at the front; reader(serial=) opens the newest retained version with that serial and reader(id=) the one with that id, KeyError exactly when there is none; what a reader observes never changes while it is open. The model is tied to both dns.versioned.Zone and dns.btreezone.Zone by a differential correspondence check after every operation. Snapshot isolation is also proved by mechanism on a second model with node identity (a heap of cells shared between versions, writes hit cells; WritableVersion.changed, _maybe_cow_with_name, delete_node, B-tree update_glue_flag, ImmutableVersion freezing the changed names): every node of every committed version is frozen and no later transaction changes what a committed version shows; that model is tied to both zone classes by comparing version.changed and the set of private nodes after every writer operation. Python-level immutability of everything reachable from a snapshot is established by enumerating, on every run, every public callable, in-place operator and attribute store of every reachable object and checking that mutating calls raise and nothing changes, both on a fixed snapshot and after generated write histories (cuts created/removed above existing names, nested cuts, node deletes) through every public route to every retained version's nodes (partial: enumeration, not proof).",
    "note": "Trusted: Lean kernel + standard axioms; the statements in lean/Props/C11.lean; the correspondence harness and its generators; Python reference semantics (a transaction keeps its version object alive). Versions are persistent values in the model, so snapshot isolation is true by construction there and its real content is carried by the correspondence check and the enumeration. Writer admission under concurrency is C12.",
    "technique": "Lean 4 proof (state invariants by induction over operation lists, exact characterisation of the pruning loop) + model-vs-implementation correspondence + enumeration of the mutator surface",
    "design_ref": "DESIGN.md §7 C11",
}

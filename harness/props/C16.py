"""C16 — stub resolution reaches the documented outcome under every fault sequence.

Correspondence: dns.resolver.Resolver.resolve / dns.asyncresolver.Resolver.resolve (working tree) driven by scripted
`dns.nameserver.Nameserver` objects on a virtual clock, vs lean/Model/Resolver.lean through the driver: the
sequence of (candidate name, server, tcp, timeout, outcome) queries, the sleeps, the result / exception class with its
fields, the end time and the live cache contents.  Also `_get_qnames_to_try` and `resolve_chaining` on their own.
Oracle: the clauses of the property evaluated as monitors on the implementation's own trace (independent of Lean).
"""
import asyncio
import glob
import json
import os
import socket

import dns.asyncbackend
import dns.asyncresolver
import dns.exception
import dns.flags
import dns.message
import dns.name
import dns.nameserver
import dns.query
import dns.rcode
import dns.rdata
import dns.rdataclass
import dns.rdatatype
import dns.resolver
import dns.reversename
import dns.rrset
import dns.tsig

from harness.core import VERIF, Ctx, enc_labels
from harness.vclock import VClock, VirtualTimeLoop, patched, to_ms

RULE = (
    "cases are generated from one SplitMix64 state: a resolver configuration (0-4 scripted nameservers incl. duplicates "
    "and always-max-size ones, search list / domain / ndots, timeout and lifetime from dyadic pools, retry_servfail, "
    "cache none/Cache/LRUCache), 1-3 resolutions sharing the cache with clock gaps, and a script of per-query outcomes "
    "chosen adaptively while the synchronous resolver runs (answer, no-data, CNAME chains incl. too long and looping, "
    "NXDOMAIN valid and with answer, YXDOMAIN, SERVFAIL, other rcodes, non-responses, FormError/EOF/OSError/"
    "NotImplementedError families, truncation, timeout, other exceptions; durations around the timeout and the lifetime), "
    "recorded and replayed against the async resolver and the model; option values incl. falsy ones (lifetime/timeout 0), "
    "name/type/class as text, nameservers as address strings (Do53 enrichment, per-server ports), source address/port, "
    "one name asked for types X/Y/X; plus stand-alone candidate-name, chaining and _compute_timeout (clock also running "
    "backwards) cases; resolve_name for AF_UNSPEC/AF_INET/AF_INET6 (first lookup often using up most of the lifetime), "
    "canonical_name, resolve_address, zone_for_name; call routes (all positional, all defaults omitted, enum members, "
    "module-level resolve on the default resolver, deprecated query()), set_flags (incl. 0) / use_edns, nameservers and search "
    "as tuples, a BaseException from the transport followed by further use of the resolver, TTLs up to 2^32-1, extended "
    "rcodes, a clock beyond 2^32 s; multi-name request sequences through cache None / Cache() / "
    "LRUCache(1|2|3) with clock advances across TTLs (expiry, re-resolve, churn past capacity); "
    "a case is non-trivial if its key (configuration, requests, script) is new and it issued at least one query or cache probe"
)
TRUSTED_BASE = [
    "harness/vclock.py: virtual clock returning exact Fractions, asyncio loop with virtual time",
    "scripted dns.nameserver.Nameserver subclasses standing for the transports (their contract: honour the timeout, "
    "return only responses to the request - the latter is C18)",
]
ASSUMPTIONS = [
    "sync = async: async_eq_sync is about the coroutine model of the asyncio loop driven by an exact-timer event loop; the "
    "model is tied to asyncresolver.py by identical traces/transport parameters/payloads on the same scripts and by the "
    "run-time structural comparison of the two resolve bodies (equal modulo await / backend.sleep / async_query(backend=))",
    "rotate off; the clock is monotone (the two 'time went backwards' branches of _compute_timeout are not modelled)",
    "a nameserver returns a response whose question is the request's (C18); responses are QueryMessages",
    "broken-server exclusion is per candidate name: the code rebuilds the server list for each candidate (DESIGN §7 C16)",
    "timeouts/lifetimes are exact binary fractions of a second in generated cases so that float and integer-millisecond arithmetic agree",
    "TSIG/EDNS request decoration, DoH/DoT/DoQ transports and resolv.conf parsing are outside the model",
    "the cache of the Lean model is the unbounded timed map; histories in which a small LRUCache (capacity 1-3) had to evict "
    "are judged by the oracle's own reference LRU (served from cache within TTL, asked again after expiry, contents after "
    "every resolution, no foreign exception) and by the sync/async comparison, not by the model (LRU internals are C17)",
    "the nameserver classes' plumbing (what Do53/DoT/DoH/DoQ query/async_query hand to dns.query / dns.asyncquery) is checked by "
    "the oracle only: keyword sets sync vs async and vs a table written from the documented behaviour, and for Do53 over fakes of "
    "dns.query.udp/tcp that obey those keywords; what dns.query does with a socket is C18",
    "composite entry points: resolve_name is modelled and proved; canonical_name, resolve_address (sync + asyncio) and the "
    "synchronous zone_for_name are driven and checked by the oracle only (each inner resolve as a resolution of its own, the "
    "shared lifetime as a budget); try_ddr, resolve_at/make_resolver_at and the module-level wrappers around the default "
    "resolver are not driven",
    "whether the back-off sleep is clipped to the remaining lifetime is observed on the working tree on every run "
    "(ConstsC16.clipSleep); ends_within_lifetime is an obligation about that value; the unclipped variant of the model is retained",
]
LEVEL = {
    "text": "Lean 4 theorems (lean/Props/C16.lean, 32 statements, no sorry) over an executable model of _get_qnames_to_try, "
            "_Resolution.{next_request,next_nameserver,query_result}, _compute_timeout, the Resolver.resolve loop on an "
            "integer-millisecond clock driven by an arbitrary finite script of per-query outcomes with durations, "
            "QueryMessage.resolve_chaining and the cache as a timed map. resolve = spec for every script, where spec is an "
            "independent nested-recursion definition of the documented behaviour (candidate by candidate, round by round, server "
            "by server; result, clock, cache and unread script all equal); the loop ends within a computed number of iterations "
            "(potential function) and, for the code as it is (constants incl. the clipping of the back-off sleep regenerated on "
            "every run), never later than start + lifetime; result classification by the last step; NXDOMAIN only if every "
            "candidate has evidence, traced to a validated NXDOMAIN response of this resolution or an NXDOMAIN entry of the "
            "initial cache; NoNameservers iff every configured server proved broken for the current candidate; a broken server is "
            "never re-asked for the same candidate; one immediate TCP retry on the same server after UDP truncation (trace "
            "monitor accepted by every run); search/ndots candidate order; bounded CNAME chain with exact minimum TTL and negative "
            "TTL from the closest SOA; the cache changes only under (candidate,type,class)/(candidate,ANY,class). Tied to the code "
            "by scripted-nameserver correspondence on a virtual clock (sync and asyncio; model and spec both run in the driver). "
            "resolve_name (AAAA then A under one deadline) is modelled as a composition (Model/ResolverName.lean) and proved to end "
            "within the caller's lifetime for every family and script (resolve_name_within_lifetime).",
    "note": "sync = async: the asyncio resolve loop is modelled separately as a coroutine with its two suspension points "
            "(Model/ResolverAsync.lean) and proved to produce, on an event loop whose timers fire on time, exactly the synchronous "
            "event sequence, result and final state (async_eq_sync); that this coroutine model is asyncresolver.py is the tie "
            "(identical traces, transport parameters and exception payloads on every script, plus a run-time structural "
            "comparison of the two resolve bodies). Trusted: Lean kernel, statements in "
            "lean/Props/C16.lean and the definition of spec in lean/Proofs/ResolverSpec.lean, harness/props/C16.py + "
            "harness/vclock.py, harness/extract_C16.py.",
    "technique": "Lean 4 proof (simulation of the state machine by an independent specification, state-machine invariants, "
                 "potential-function termination, trace monitor) + model-vs-implementation correspondence on scripted fault sequences",
    "design_ref": "DESIGN.md §7 C16",
}

A, NS_T, CNAME, SOA, MX, TXT, AAAA, ANY = 1, 2, 5, 6, 15, 16, 28, 255
IN, CH = 1, 3
NOERROR, SERVFAIL, NXDOMAIN, YXDOMAIN = 0, 2, 3, 6


# ------------------------------------------------------------------------------------------------
# encoding helpers
# ------------------------------------------------------------------------------------------------
def hexl(labels):
    return [bytes(l).hex() for l in labels]


def unhexl(hl):
    return [bytes.fromhex(x) for x in hl]


def encn(hl):
    """protocol form of a name given as list of hex labels"""
    return enc_labels(unhexl(hl))


def enc_list(xs):
    xs = list(xs)
    return "/".join(xs) if xs else "_"


def lower_labels(labels):
    return tuple(bytes(l).lower() for l in labels)


def b01(x):
    return "1" if x else "0"


def opt(x):
    return "none" if x is None else str(x)


# ------------------------------------------------------------------------------------------------
# responses: built as real messages (rendered and parsed back); the abstract view the model gets is read off
# the parsed message
# ------------------------------------------------------------------------------------------------
def _rdata_text(rdtype, target_labels, salt):
    if rdtype == A:
        return f"10.0.{salt % 200}.{1 + salt % 7}"
    if rdtype == AAAA:
        return f"2001:db8::{1 + salt % 9}"
    if rdtype == TXT:
        return f'"t{salt % 5}"'
    if rdtype == CNAME or rdtype == NS_T:
        return dns.name.Name(target_labels).to_text()
    if rdtype == MX:
        return "10 " + dns.name.Name(target_labels).to_text()
    if rdtype == 12:  # PTR
        return dns.name.Name(target_labels).to_text()
    if rdtype == SOA:
        return f"ns. hostmaster. {salt} 7200 900 1209600 60"
    raise ValueError(rdtype)


def build_response(request, spec):
    """real QueryMessage for a response spec {'rcode','qr','qc','an':[[owner,cls,type,ttl,target]],'au':[[owner,cls,ttl,min]]}"""
    r = dns.message.make_response(request)
    r.set_rcode(spec["rcode"])
    salt = 0
    for owner, cls, ty, ttl, target in spec["an"]:
        salt += 1
        tl = unhexl(target) if target is not None else [b"x", b""]
        rd = dns.rdata.from_text(cls, ty, _rdata_text(ty, tl, salt))
        rrs = r.find_rrset(r.answer, dns.name.Name(unhexl(owner)), cls, ty, create=True)
        rrs.add(rd, ttl)
    for owner, cls, ttl, minimum in spec["au"]:
        rd = dns.rdata.from_text(cls, SOA, f"ns. hostmaster. 1 7200 900 1209600 {minimum}")
        rrs = r.find_rrset(r.authority, dns.name.Name(unhexl(owner)), cls, SOA, create=True)
        rrs.add(rd, ttl)
    m = dns.message.from_wire(r.to_wire(max_size=65535))
    if not spec["qr"]:
        m.flags &= ~dns.flags.QR
    if spec["qc"] == 0:
        m.question = []
    elif spec["qc"] == 2:
        m.question = list(m.question) + [dns.rrset.RRset(dns.name.from_text("extra."), IN, A)]
    return m


def abstract_response(m):
    """(rcode, qr, qcount, answer, authority) of a real message, in protocol form"""
    an = []
    for rrs in m.answer:
        if rrs.covers != dns.rdatatype.NONE or rrs.deleting is not None:
            continue
        target = "@"
        if rrs.rdtype == CNAME and len(rrs) > 0:
            target = enc_labels(list(rrs)[0].target.labels)
        an.append(f"{enc_labels(rrs.name.labels)}+{int(rrs.rdclass)}+{int(rrs.rdtype)}+{int(rrs.ttl)}+{target}")
    au = []
    for rrs in m.authority:
        if rrs.rdtype == SOA and rrs.covers == dns.rdatatype.NONE and len(rrs) > 0:
            au.append(f"{enc_labels(rrs.name.labels)}+{int(rrs.rdclass)}+{int(rrs.ttl)}+{int(rrs[0].minimum)}")
    return int(m.rcode()), b01(m.flags & dns.flags.QR), len(m.question), enc_list(an), enc_list(au)


_PROBE_REQ = None


def step_token(spec):
    """protocol token of a script step"""
    if spec["k"] == "x":
        return f"x:{spec['e']}:{spec['d']}"
    global _PROBE_REQ
    if _PROBE_REQ is None:
        _PROBE_REQ = dns.message.make_query("probe.", "A")
    m = build_response(_PROBE_REQ, spec)
    rcode, qr, qc, an, au = abstract_response(m)
    if spec["qc"] != 1:
        qc = spec["qc"]
    return f"r:{spec['d']}:{rcode}:{qr}:{qc}:{an}:{au}"


EXC_POOL = {
    "form": [lambda: dns.exception.FormError(), lambda: dns.message.ShortHeader(), lambda: dns.query.BadResponse(),
             lambda: dns.message.TrailingJunk(), lambda: dns.name.BadLabelType()],
    "eof": [lambda: EOFError()],
    "os": [lambda: OSError("net"), lambda: ConnectionRefusedError(), lambda: ConnectionResetError(), lambda: TimeoutError(),
           lambda: socket.gaierror("x"), lambda: BrokenPipeError()],
    "notimpl": [lambda: NotImplementedError()],
    "trunc": [lambda: dns.message.Truncated()],
    "timeout": [lambda: dns.exception.Timeout(timeout=1.0)],
    "abort": [lambda: Abort("interrupted")],
    "other": [lambda: dns.query.UnexpectedSource("u"), lambda: dns.tsig.BadSignature(), lambda: RuntimeError("r"),
              lambda: ValueError("v"), lambda: KeyError("k"), lambda: dns.exception.DNSException("d"),
              lambda: dns.exception.SyntaxError("s")],
}


# ------------------------------------------------------------------------------------------------
# the scripted world
# ------------------------------------------------------------------------------------------------
class Abort(BaseException):
    """a non-`Exception` raised by a transport in mid-query (the kind of thing KeyboardInterrupt is): the resolver must let
    it through, and must be usable afterwards"""


class Runaway(BaseException):
    """raised by the scripted nameservers when one resolution has issued far more queries than any terminating
    resolution can (a BaseException, so that the resolver's own `except Exception` cannot swallow it)"""


# hard bounds on what one top-level call may do in the fake world (a terminating resolution stays far below them: its
# sleeps alone add up to at most the lifetime, and a round asks every server at most twice)
STEP_LIMIT = 1500          # queries + sleeps
QUERY_LIMIT = STEP_LIMIT   # (name used in messages)


def ran_away(obs):
    """did a call hit the fake world's step bounds?  Then the oracle has its counterexample; the model comparison and the
    asyncio twin (which would only spin to the same bound) are skipped"""
    def one(r):
        return r.get("cls") == "FOREIGN" and str(r.get("exc", "")).startswith("Runaway")
    return any(one(o["result"]) or any(one(c["result"]) for c in o.get("calls", [])) for o in obs)


def _harness_signal(e):
    """True for the harness's own control-flow exceptions (core.Stalled, …): they must never be classified as an outcome
    of the implementation"""
    return type(e).__name__ == "Stalled" and type(e).__module__.startswith("harness")



class World:
    """shared by the scripted nameservers of one case: the script, the virtual clock, the trace"""

    def __init__(self, clock, script, gen=None):
        self.clock = clock
        self.script = script  # list of step specs; extended by gen() when exhausted (adaptive generation)
        self.gen = gen
        self.pos = 0
        self.events = []  # of the current resolution
        self.tokens = {}  # script position -> protocol token read off the message actually delivered
        self.nservers = 1
        clock.on_sleep = self._sleep
        self.reset()

    def reset(self):
        """a new top-level call begins"""
        self.events = []
        self.steps = 0
        self.noprog = 0
        self.last_ms = self.clock.ms

    def _tick(self, what):
        """every query and every sleep passes here: bounded number of steps, bounded run of steps during which the
        clock stands still"""
        self.steps += 1
        if self.clock.ms > self.last_ms:
            self.last_ms = self.clock.ms
            self.noprog = 0
        else:
            self.noprog += 1
        if self.steps > STEP_LIMIT:
            raise Runaway(f"{STEP_LIMIT} queries and sleeps in one call and it still runs")
        if self.noprog > (2 * self.nservers + 2) * 8 + 6:  # a round asks each server at most twice; ≤ 7 candidates
            raise Runaway(f"{self.noprog} queries and sleeps in a row without the clock advancing (at {what})")

    def _sleep(self, ms):
        self._tick("a sleep")
        self.events.append({"ev": "s", "ms": ms, "t0": self.clock.ms})

    def next_step(self, ns, request, timeout_ms, tcp):
        if self.pos >= len(self.script) and self.gen is not None:
            self.script.append(self.gen(self, ns, request, timeout_ms, tcp))
        if self.pos < len(self.script):
            spec = self.script[self.pos]
            self.pos += 1
        else:
            spec = {"k": "x", "e": "timeout", "v": 0, "d": 0}
        if spec["k"] == "x" and spec["e"] == "timeout":
            return spec, "timeout", timeout_ms
        if spec["d"] < timeout_ms:
            return spec, (spec["e"] if spec["k"] == "x" else None), spec["d"]
        return {"k": "x", "e": "timeout", "v": 0, "d": 0}, "timeout", timeout_ms

    def begin(self, ns, request, timeout, tcp, source=None, source_port=0):
        self._tick("a query")
        to = to_ms(timeout)
        spec, tag, dur = self.next_step(ns, request, to, tcp)
        q = request.question[0]
        sid = ns.sid if hasattr(ns, "sid") else addr_sid(ns.address)
        ev = {"ev": "q", "cand": hexl(q.name.labels), "sid": sid, "tcp": bool(tcp), "to": to, "t0": self.clock.ms,
              "spec": spec, "dur": dur, "qty": int(q.rdtype), "qcls": int(q.rdclass), "pos": self.pos - 1,
              "src": source, "sport": source_port, "port": ns.answer_port(), "nsstr": str(ns),
              "rflags": int(request.flags), "redns": (int(request.edns), int(request.ednsflags), int(request.payload))}
        self.events.append(ev)
        return spec, tag, dur, ev

    def finish(self, request, spec, tag, ev):
        if tag is not None:
            ev["tag"] = tag
            pool = EXC_POOL[tag]
            raise pool[spec.get("v", 0) % len(pool)]()
        m = build_response(request, spec)
        rc, qr, qc, an, au = abstract_response(m)
        ev["tag"] = f"rc{rc}"
        self.tokens[ev["pos"]] = f"r:{spec['d']}:{rc}:{qr}:{len(m.question)}:{an}:{au}"
        ev["resp"] = {"rcode": rc, "qr": qr == "1", "qc": len(m.question), "msg": m}
        return m


def addr_sid(address):
    """nameserver id of an address `10.0.0.<id+1>` (string-nameserver route)"""
    return int(str(address).rsplit(".", 1)[1]) - 1


def sid_addr(sid):
    return f"10.0.0.{sid + 1}"


def ns_port(sid):
    return 5300 + sid


CURRENT_WORLD = None  # world serving the patched Do53Nameserver methods (string-nameserver route)


def _do53_query(self, request, timeout, source, source_port, max_size, one_rr_per_rrset=False, ignore_trailing=False):
    w = CURRENT_WORLD
    spec, tag, dur, ev = w.begin(self, request, timeout, max_size, source, source_port)
    w.clock.advance(dur)
    return w.finish(request, spec, tag, ev)


async def _do53_async_query(self, request, timeout, source, source_port, max_size, backend, one_rr_per_rrset=False,
                            ignore_trailing=False):
    w = CURRENT_WORLD
    spec, tag, dur, ev = w.begin(self, request, timeout, max_size, source, source_port)
    if dur > 0:
        await asyncio.sleep(dur / 1000.0)
    return w.finish(request, spec, tag, ev)


class _WireNS:
    """what the fake dns.query / dns.asyncquery functions know of the server they were pointed at"""

    def __init__(self, where, port):
        self.address, self.port = where, port

    def answer_port(self):
        return self.port

    def __str__(self):
        return f"Do53:{self.address}@{self.port}"


def _wire_junk(spec, ev, tcp, kw):
    """the datagrams that arrive before the scripted reply (UDP only): undecodable garbage, a reply with a foreign id, a
    datagram from a foreign source.  A transport asked to ignore them reads on; otherwise it raises what dns.query raises."""
    if tcp:
        return
    for j in spec.get("pre", []):
        if j in ("garbage", "badid") and not kw.get("ignore_errors", False):
            ev["tag"], ev["junk_leak"] = "form", j
            raise (dns.message.ShortHeader() if j == "garbage" else dns.query.BadResponse())
        if j == "badsrc" and not kw.get("ignore_unexpected", False):
            ev["tag"], ev["junk_leak"] = "other", j
            raise dns.query.UnexpectedSource("reply from an unexpected source")


def doc_accept(spec):
    """the documented acceptance of a reply (RFC 1035 matching as dns.message documents `is_response`): a response (QR) that
    echoes the question — or carries none at all when its rcode is FORMERR, SERVFAIL, NOTIMP or REFUSED"""
    qc = spec.get("qc", 1)
    return bool(spec.get("qr", 1)) and (qc == 1 or (qc == 0 and spec["rcode"] in (1, 2, 4, 5)))


def _wire_decide(w, q, spec, tag, ev, tcp, kw):
    """what the transport does with the scripted reply: ('msg', m) | ('raise', exc) | ('wait', exc) (keep waiting until the
    timeout, then exc).  Whether a decodable reply is *the* response is decided, as in dns.query, by the real
    `query.is_response(reply)`; what the documentation says it should be is recorded next to it."""
    if tag == "trunc" and not tcp and not kw.get("raise_on_truncation", False):
        ev["tag"], ev["junk_leak"] = "rc0", "truncation-not-raised"
        m = dns.message.make_response(q)
        m.flags |= dns.flags.TC
        return ("msg", m)
    if tag is not None:
        try:
            w.finish(q, spec, tag, ev)
        except BaseException as e:
            if _harness_signal(e):
                raise
            return ("raise", e)
    m = w.finish(q, spec, None, ev)
    want = doc_accept(spec)
    ev["want_tag"] = ev["tag"] if want else ("form" if tcp else "timeout")
    if not want:  # the model is told the documented outcome of this step on this transport
        w.tokens[ev["pos"]] = f"x:form:{spec['d']}" if tcp else "x:timeout:0"
    if q.is_response(m):
        return ("msg", m)
    ev.pop("resp", None)
    if tcp or not kw.get("ignore_errors", False):
        ev["tag"], ev["excname"] = "form", "BadResponse"
        return ("raise", dns.query.BadResponse())
    ev["tag"], ev["excname"] = "timeout", "Timeout"  # ignored: the receive loop waits on until the timeout
    return ("wait", dns.exception.Timeout(timeout=1.0))


def _wire_sync(tcp):
    def fake(q, where, timeout=None, port=53, source=None, source_port=0, **kw):
        w = CURRENT_WORLD
        spec, tag, dur, ev = w.begin(_WireNS(where, port), q, timeout, tcp, source, source_port)
        ev["kw"] = dict(kw)
        _wire_junk(spec, ev, tcp, kw)
        w.clock.advance(dur)
        what, x = _wire_decide(w, q, spec, tag, ev, tcp, kw)
        if what == "msg":
            return x
        if what == "wait":
            w.clock.advance(max(ev["to"] - dur, 0))
            ev["dur"] = max(ev["to"], dur)
        raise x
    return fake


def _wire_async(tcp):
    async def fake(q, where, timeout=None, port=53, source=None, source_port=0, **kw):
        w = CURRENT_WORLD
        spec, tag, dur, ev = w.begin(_WireNS(where, port), q, timeout, tcp, source, source_port)
        ev["kw"] = {k: v for k, v in kw.items() if k != "backend"}
        _wire_junk(spec, ev, tcp, kw)
        if dur > 0:
            await asyncio.sleep(dur / 1000.0)
        what, x = _wire_decide(w, q, spec, tag, ev, tcp, kw)
        if what == "msg":
            return x
        if what == "wait":
            if ev["to"] - dur > 0:
                await asyncio.sleep((ev["to"] - dur) / 1000.0)
            ev["dur"] = max(ev["to"], dur)
        raise x
    return fake


class ScriptedNS(dns.nameserver.Nameserver):
    def __init__(self, sid, always_max, world):
        super().__init__()
        self.sid, self.always_max, self.world = sid, always_max, world

    def __str__(self):
        return f"scripted:{self.sid}"

    def kind(self):
        return "scripted"

    def is_always_max_size(self):
        return self.always_max

    def answer_nameserver(self):
        return str(self.sid)

    def answer_port(self):
        return ns_port(self.sid)

    def query(self, request, timeout, source, source_port, max_size, one_rr_per_rrset=False, ignore_trailing=False):
        w = self.world
        spec, tag, dur, ev = w.begin(self, request, timeout, max_size, source, source_port)
        w.clock.advance(dur)
        return w.finish(request, spec, tag, ev)

    async def async_query(self, request, timeout, source, source_port, max_size, backend, one_rr_per_rrset=False,
                          ignore_trailing=False):
        w = self.world
        spec, tag, dur, ev = w.begin(self, request, timeout, max_size, source, source_port)
        if dur > 0:
            await asyncio.sleep(dur / 1000.0)
        return w.finish(request, spec, tag, ev)


class RecBackend(type(dns.asyncbackend.get_backend("asyncio"))):
    """the asyncio backend, reporting back-off sleeps to the trace"""

    def __init__(self, world):
        super().__init__()
        self.world = world

    async def sleep(self, interval):
        self.world._sleep(to_ms(interval))
        await super().sleep(interval)


def _rebased(loop):
    """the loop with its epoch moved to the present (exact float deadlines whatever the absolute clock value)"""
    loop.rebase()
    return loop


_LOOP = None


def get_loop():
    global _LOOP
    if _LOOP is None or _LOOP.is_closed():
        _LOOP = VirtualTimeLoop(VClock())
    return _LOOP


def seconds(ms):
    """milliseconds -> the number of seconds handed to the library: an int, or an exact Fraction.  With the clock exact
    (harness/vclock.py) every budget the library derives (`lifetime - duration`, the lifetime `resolve_name` hands to its
    lookups) stays an exact number of milliseconds; binary floats would leave residues below the clock's resolution."""
    from fractions import Fraction
    return Fraction(ms, 1000) if ms % 1000 else ms // 1000


def configure(res, cfg, world):
    world.nservers = max(1, len(cfg["servers"]))
    objs = {}
    servers = []
    if cfg.get("route") in ("str", "wire"):
        # nameservers given as address strings: `_enrich_nameservers` makes Do53Nameserver objects (anew for every
        # candidate) whose query methods are patched to the scripted world; ports come from nameserver_ports / port
        servers = [sid_addr(sid) for sid, _ in cfg["servers"]]
        res.port = ns_port(cfg["servers"][0][0]) if cfg["servers"] else 53
        res.nameserver_ports = {sid_addr(sid): ns_port(sid) for sid, _ in cfg["servers"][1:]}
    else:
        for sid, am in cfg["servers"]:
            if sid not in objs:
                objs[sid] = ScriptedNS(sid, bool(am), world)
            servers.append(objs[sid])  # the same id twice = the same object listed twice
    res.nameservers = tuple(servers) if cfg.get("nstuple") else servers
    res.search = [dns.name.Name(unhexl(s)) for s in cfg["search"]]
    res.domain = None if cfg["domain"] is None else dns.name.Name(unhexl(cfg["domain"]))
    res.ndots = cfg["ndots"]
    res.use_search_by_default = bool(cfg["usd"])
    res.timeout = seconds(cfg["timeout"])
    res.lifetime = seconds(cfg["lifetime"])
    res.retry_servfail = bool(cfg["rsf"])
    res.rotate = False
    if cfg.get("flags") is not None:
        res.set_flags(cfg["flags"])
    if cfg.get("edns") is not None:
        res.use_edns(0, cfg["edns"][0], cfg["edns"][1])
    if cfg.get("nstuple"):
        res.search = tuple(res.search)
    if cfg["cache"] == 1:
        res.cache = dns.resolver.Cache()
    elif cfg["cache"] == 2:
        res.cache = dns.resolver.LRUCache(cfg.get("lru", 50))
    else:
        res.cache = None


def cache_items(res):
    c = res.cache
    if c is None:
        return []
    if isinstance(c, dns.resolver.LRUCache):
        return [(k, n.value) for k, n in c.data.items()]
    return list(c.data.items())


def cache_view(res, now_ms):
    """live entries: {(lower labels, type, class): (exp_ms, hasrr, rcode, answer)}"""
    out = {}
    for k, a in cache_items(res):
        exp = to_ms(a.expiration)
        if exp > now_ms:
            out[(lower_labels(k[0].labels), int(k[1]), int(k[2]))] = (exp, a.rrset is not None, int(a.response.rcode()), a)
    return out


def show_cache(view):
    strs = sorted(f"{enc_labels(k[0])}/{k[1]}/{k[2]}/{v[0]}/{b01(v[1])}/{v[2]}" for k, v in view.items())
    return ";".join(strs) if strs else "_"


def result_of(fn):
    """(canonical result string, structured result) of one resolve call"""
    try:
        a = fn()
    except dns.resolver.NXDOMAIN as e:
        qn = [hexl(n.labels) for n in e.qnames()]
        rs = [hexl(n.labels) for n in e.responses().keys()]
        return (f"NXDOMAIN:{enc_list(encn(n) for n in qn)}:{enc_list(encn(n) for n in rs)}",
                {"cls": "NXDOMAIN", "qnames": qn, "responses": rs, "msgs": list(e.responses().values())})
    except dns.resolver.NoAnswer as e:
        return "NoAnswer", {"cls": "NoAnswer", "msg": e.kwargs.get("response")}
    except dns.resolver.YXDOMAIN:
        return "YXDOMAIN", {"cls": "YXDOMAIN"}
    except dns.resolver.NoNameservers as e:
        return "NoNameservers", {"cls": "NoNameservers", "errors": list(e.kwargs.get("errors", [])), "request": e.kwargs.get("request")}
    except dns.resolver.LifetimeTimeout as e:
        return "LifetimeTimeout", {"cls": "LifetimeTimeout", "errors": list(e.kwargs.get("errors", [])), "elapsed": e.kwargs.get("timeout")}
    except dns.resolver.NoMetaqueries:
        return "NoMetaqueries", {"cls": "NoMetaqueries"}
    except (dns.name.NameTooLong, dns.name.LabelTooLong, dns.name.EmptyLabel, dns.name.AbsoluteConcatenation) as e:
        return f"NameError:{type(e).__name__}", {"cls": "NameError"}
    except Abort:
        return "Abort", {"cls": "Abort"}
    except BaseException as e:  # not a documented outcome
        if _harness_signal(e):
            raise
        return f"FOREIGN:{type(e).__name__}", {"cls": "FOREIGN", "exc": repr(e)}
    hasrr = a.rrset is not None
    s = {"cls": "Answer", "qname": hexl(a.qname.labels), "ty": int(a.rdtype), "rdcls": int(a.rdclass),
         "canon": hexl(a.canonical_name.labels), "hasrr": hasrr, "minttl": int(a.chaining_result.minimum_ttl),
         "exp": to_ms(a.expiration), "server": a.nameserver, "obj": a, "port": a.port, "msg": a.response,
         "rrname": hexl(a.rrset.name.labels) if hasrr else None, "rrttl": int(a.rrset.ttl) if hasrr else None}
    srv = a.nameserver
    if srv is not None and "." in str(srv):
        srv = addr_sid(srv)  # string-nameserver route: the answer names the address
        s["server"] = str(srv)
    line = (f"ans:{encn(s['qname'])}:{s['ty']}:{s['rdcls']}:{encn(s['canon'])}:{b01(hasrr)}:{s['minttl']}:{s['exp']}:"
            f"{'none' if srv is None else srv}")
    return line, s


def show_event(e):
    if e["ev"] == "s":
        return f"s{e['ms']}"
    return f"q:{encn(e['cand'])}:{e['sid']}:{b01(e['tcp'])}:{e['to']}:{e['tag']}"


def run_impl(case, mode, gen=None):
    """run the whole history of a case on the implementation; returns (line, per-resolution observations)"""
    cfg = case["cfg"]
    clock = VClock(0)
    world = World(clock, case["script"], gen)
    obs = []
    lines = []
    if mode == "async":
        loop = get_loop()
        loop.vclock = clock
    global CURRENT_WORLD
    CURRENT_WORLD = world
    saved_do53 = (dns.nameserver.Do53Nameserver.query, dns.nameserver.Do53Nameserver.async_query)
    saved_wire = (dns.query.udp, dns.query.tcp, dns.asyncquery.udp, dns.asyncquery.tcp)
    if cfg.get("route") == "str":
        dns.nameserver.Do53Nameserver.query = _do53_query
        dns.nameserver.Do53Nameserver.async_query = _do53_async_query
    if cfg.get("route") == "wire":
        # one layer further down: the real Do53Nameserver.query / async_query run and hand their keyword arguments to
        # fakes of dns.query.udp/tcp and dns.asyncquery.udp/tcp that behave as those arguments tell them to
        dns.query.udp, dns.query.tcp = _wire_sync(False), _wire_sync(True)
        dns.asyncquery.udp, dns.asyncquery.tcp = _wire_async(False), _wire_async(True)
    try:
        if case["kind"] == "rname":
            return _run_name(case, mode, clock, world, loop if mode == "async" else None)
        return _run_impl(case, mode, clock, world, loop if mode == "async" else None)
    finally:
        dns.nameserver.Do53Nameserver.query, dns.nameserver.Do53Nameserver.async_query = saved_do53
        dns.query.udp, dns.query.tcp, dns.asyncquery.udp, dns.asyncquery.tcp = saved_wire
        CURRENT_WORLD = None


def aux_of(o):
    """observables outside the model that sync and async must still agree on: transport parameters of every query,
    the answer's port, the error trace and payloads of the exception"""
    r = o["result"]
    errs = [(e[0], bool(e[1]), e[2], type(e[3]).__name__ if not isinstance(e[3], str) else "rcode:" + e[3], e[4] is not None)
            for e in r.get("errors", [])]
    return json.dumps([[(e.get("src"), e.get("sport"), e.get("port"), e.get("nsstr"), e.get("rflags"), e.get("redns"), sorted((e.get("kw") or {}).items()))
                        for e in o["events"] if e["ev"] == "q"],
                       r.get("port"), errs, len(r.get("msgs", [])), r.get("msg") is not None], default=str)


def _run_impl(case, mode, clock, world, loop):
    cfg = case["cfg"]
    obs = []
    lines = []
    with patched(clock, dns.resolver, dns.asyncresolver):
        res = dns.resolver.Resolver(configure=False) if mode == "sync" else dns.asyncresolver.Resolver(configure=False)
        configure(res, cfg, world)
        backend = RecBackend(world) if mode == "async" else None
        for rq in case["reqs"]:
            clock.advance(rq["gap"])
            world.reset()
            start = clock.ms
            before = cache_view(res, start)
            qname = dns.name.Name(unhexl(rq["qname"]))
            kw = dict(rdtype=rq["ty"], rdclass=rq["cls"], tcp=bool(rq["tcp"]), raise_on_no_answer=bool(rq["rona"]),
                      lifetime=None if rq["life"] is None else seconds(rq["life"]),
                      search=None if rq["search"] is None else bool(rq["search"]))
            if rq.get("src") is not None:
                kw["source"] = rq["src"]
            if rq.get("sport"):
                kw["source_port"] = rq["sport"]
            if rq.get("text"):
                # text route: the name, type and class as strings (`from_text(qname, None)`, `RdataType.make`)
                qname = qname.to_text()
                kw["rdtype"] = dns.rdatatype.to_text(rq["ty"])
                kw["rdclass"] = dns.rdataclass.to_text(rq["cls"])
            call = rq.get("call")
            pos = (qname, kw["rdtype"], kw["rdclass"], kw["tcp"], kw.get("source"), kw["raise_on_no_answer"], kw.get("source_port", 0),
                   kw["lifetime"])
            if call == "enum":
                kw["rdtype"], kw["rdclass"] = dns.rdatatype.RdataType.make(rq["ty"]), dns.rdataclass.RdataClass.make(rq["cls"])
            saved_default = (dns.resolver.default_resolver, dns.asyncresolver.default_resolver)
            if call == "module":
                dns.resolver.default_resolver = res
                dns.asyncresolver.default_resolver = res
            try:
                if mode == "sync":
                    if call == "pos":      # every argument positionally, in the documented order
                        line, r = result_of(lambda: res.resolve(*pos, kw["search"]))
                    elif call == "omit":   # every optional argument left to its default
                        line, r = result_of(lambda: res.resolve(qname))
                    elif call == "module":  # the module-level convenience function on the default resolver
                        line, r = result_of(lambda: dns.resolver.resolve(qname, **kw))
                    elif call == "query":  # the deprecated twin: resolve with search forced on
                        import warnings
                        with warnings.catch_warnings():
                            warnings.simplefilter("ignore")
                            line, r = result_of(lambda: res.query(*pos))
                    else:
                        line, r = result_of(lambda: res.resolve(qname, **kw))
                else:
                    if call == "pos":
                        line, r = result_of(lambda: _rebased(loop).run_until_complete(res.resolve(*pos, kw["search"], backend)))
                    elif call == "omit":
                        line, r = result_of(lambda: _rebased(loop).run_until_complete(res.resolve(qname, backend=backend)))
                    elif call == "module":
                        line, r = result_of(lambda: _rebased(loop).run_until_complete(dns.asyncresolver.resolve(qname, backend=backend, **kw)))
                    else:  # incl. "query", which has no asyncio twin: resolve with search=True is what it must equal
                        line, r = result_of(lambda: _rebased(loop).run_until_complete(res.resolve(qname, backend=backend, **kw)))
            finally:
                dns.resolver.default_resolver, dns.asyncresolver.default_resolver = saved_default
            end = clock.ms
            after = cache_view(res, end)
            evs = world.events
            for e in evs:
                e.setdefault("tag", "?")
            lines.append(" ".join(show_event(e) for e in evs) + " => " + line + f" end={end} cache={show_cache(after)}")
            obs.append({"events": evs, "result": r, "line": line, "start": start, "end": end, "before": before, "after": after})
    return " || ".join(lines), obs, world.tokens


FAMILIES = {"unspec": socket.AF_UNSPEC, "inet": socket.AF_INET, "inet6": socket.AF_INET6}


def _host_result(fn):
    """(canonical line, structure) of a resolve_name call"""
    try:
        h = fn()
    except BaseException as e:
        if _harness_signal(e):
            raise
        def thrower(e=e):
            raise e
        return result_of(thrower)

    if isinstance(h, dns.name.Name):
        return "name:" + enc_labels(h.labels), {"cls": "Name", "name": hexl(h.labels)}
    if isinstance(h, dns.resolver.Answer):
        return result_of(lambda: h)

    def one(ty):
        a = h.get(ty)
        if a is None:
            return "-", None
        l, st = result_of(lambda: a)
        return l, st
    l6, s6 = one(dns.rdatatype.AAAA)
    l4, s4 = one(dns.rdatatype.A)
    return f"host:{l6}|{l4}", {"cls": "Host", "v6": s6, "v4": s4, "keys": [int(k) for k in h.keys()]}


def _run_name(case, mode, clock, world, loop):
    """`resolve_name` on the implementation; every `resolve` call it makes is recorded as a resolution of its own"""
    cfg, rq = case["cfg"], case["nreq"]
    calls = []
    with patched(clock, dns.resolver, dns.asyncresolver):
        res = dns.resolver.Resolver(configure=False) if mode == "sync" else dns.asyncresolver.Resolver(configure=False)
        configure(res, cfg, world)
        backend = RecBackend(world) if mode == "async" else None
        orig = type(res).resolve

        def note(args, kw, ev0, start, before, line, r):
            evs = world.events[ev0:]
            end = clock.ms
            calls.append({"events": evs, "result": r, "line": line, "start": start, "end": end, "before": before,
                          "after": cache_view(res, end), "args": args, "kw": {k: v for k, v in kw.items() if k != "backend"}})

        if mode == "sync":
            def wrapper(*args, **kw):
                ev0, start, before = len(world.events), clock.ms, cache_view(res, clock.ms)
                box = {}

                def call():
                    try:
                        box["v"] = orig(res, *args, **kw)
                    except BaseException as e:
                        if _harness_signal(e):
                            raise
                        box["e"] = e
                        raise
                    return box["v"]
                line, r = result_of(call)
                note(args, kw, ev0, start, before, line, r)
                if "e" in box:
                    raise box["e"]
                return box["v"]
        else:
            async def wrapper(*args, **kw):
                ev0, start, before = len(world.events), clock.ms, cache_view(res, clock.ms)
                try:
                    v = await orig(res, *args, **kw)
                except BaseException as e:
                    if _harness_signal(e):
                        raise
                    def thrower(e=e):
                        raise e
                    line, r = result_of(thrower)
                    note(args, kw, ev0, start, before, line, r)
                    raise
                line, r = result_of(lambda: v)
                note(args, kw, ev0, start, before, line, r)
                return v
        res.resolve = wrapper
        clock.advance(rq["gap"])
        world.reset()
        start = clock.ms
        qname = dns.name.Name(unhexl(rq["qname"]))
        kw = dict(tcp=bool(rq["tcp"]), raise_on_no_answer=bool(rq["rona"]), search=None if rq["search"] is None else bool(rq["search"]))
        if rq["life"] is not None:
            kw["lifetime"] = seconds(rq["life"])
        if rq.get("src") is not None:
            kw["source"] = rq["src"]
        if rq.get("text"):
            qname = qname.to_text()
        entry = case.get("entry", "resolve_name")
        if entry == "resolve_name":
            fam = FAMILIES[rq["family"]]
            if mode == "sync":
                line, r = _host_result(lambda: res.resolve_name(qname, fam, **kw))
            else:
                line, r = _host_result(lambda: _rebased(loop).run_until_complete(res.resolve_name(qname, fam, backend=backend, **kw)))
        elif entry == "canonical_name":
            if mode == "sync":
                line, r = _host_result(lambda: res.canonical_name(qname))
            else:
                line, r = _host_result(lambda: _rebased(loop).run_until_complete(res.canonical_name(qname)))
        elif entry == "resolve_address":
            kw.pop("search", None)
            if mode == "sync":
                line, r = _host_result(lambda: res.resolve_address(rq["addr"], **kw))
            else:
                line, r = _host_result(lambda: _rebased(loop).run_until_complete(res.resolve_address(rq["addr"], backend=backend, **kw)))
        else:  # zone_for_name: the synchronous function alone takes a lifetime
            line, r = _host_result(lambda: dns.resolver.zone_for_name(qname, IN, bool(rq["tcp"]), res, kw.get("lifetime")))
        end = clock.ms
        after = cache_view(res, end)
        evs = world.events
        for e in evs:
            e.setdefault("tag", "?")
        full = " ".join(show_event(e) for e in evs) + " => " + line + f" end={end} cache={show_cache(after)}"
        ob = {"events": evs, "result": r, "line": line, "start": start, "end": end, "after": after, "calls": calls}
    return full, [ob], world.tokens


VARIANT = "shipped"  # which back-off-sleep variant of the model the code implements; learnt by probe_variant()

WITNESS_OVERRUN = {"kind": "run", "profile": "witness",
                   "cfg": {"servers": [[0, 0], [1, 0]], "search": [], "domain": None, "ndots": None, "usd": 0, "timeout": 250,
                           "lifetime": 500, "rsf": 0, "cache": 0},
                   "reqs": [{"qname": hexl([b"a", b""]), "ty": A, "cls": IN, "tcp": 0, "rona": 1, "search": None, "life": None, "gap": 0}],
                   "script": []}


def probe_variant():
    """replay the recorded witness of the lifetime overrun to learn which variant the code implements (DESIGN §6)"""
    global VARIANT
    c = json.loads(json.dumps(WITNESS_OVERRUN))
    _, obs, _ = run_impl(c, "sync", None)
    o = obs[0]
    VARIANT = "shipped" if o["end"] - o["start"] > c["cfg"]["lifetime"] else "clipped"
    return VARIANT


def op_line(case, tokens=None):
    cfg = case["cfg"]
    toks = ["c16.run", VARIANT,
            "cfg:" + ":".join([enc_list(f"{s}.{b01(a)}" for s, a in cfg["servers"]), enc_list(encn(s) for s in cfg["search"]),
                               "none" if cfg["domain"] is None else encn(cfg["domain"]), opt(cfg["ndots"]), b01(cfg["usd"]),
                               str(cfg["timeout"]), str(cfg["lifetime"]), b01(cfg["rsf"]), b01(cfg["cache"])])]
    if case["kind"] == "rname":
        rq = case["nreq"]
        toks[0] = "c16.rname"
        toks.append("nreq:" + ":".join([encn(rq["qname"]), rq["family"], b01(rq["tcp"]), b01(rq["rona"]),
                                        "none" if rq["search"] is None else b01(rq["search"]), opt(rq["life"]), str(rq["gap"])]))
    for rq in case.get("reqs", []):
        toks.append("req:" + ":".join([encn(rq["qname"]), str(rq["ty"]), str(rq["cls"]), b01(rq["tcp"]), b01(rq["rona"]),
                                       "none" if rq["search"] is None else b01(rq["search"]), opt(rq["life"]), str(rq["gap"])]))
    for i, st in enumerate(case["script"]):
        # names in a delivered response are as parsed from its wire form (compression may fold case), so the
        # token of a delivered step is read off the delivered message
        toks.append((tokens or {}).get(i) or step_token(st))
    return " ".join(toks)


# ------------------------------------------------------------------------------------------------
# independent references used by the oracle (written from the documented behaviour, not from the model)
# ------------------------------------------------------------------------------------------------
def spec_candidates(cfg, qname, search):
    """search-list / ndots rule (resolv.conf semantics as documented for dns.resolver): list of label lists, or None
    when a candidate would exceed the name length limits"""
    if search is None:
        search = bool(cfg["usd"])
    q = unhexl(qname)
    if q and q[-1] == b"":
        return [q]
    out = []
    if search:
        suffixes = [unhexl(s) for s in cfg["search"]]
        if not suffixes and cfg["domain"] is not None and unhexl(cfg["domain"]) != [b""]:
            suffixes = [unhexl(cfg["domain"])]
        ndots = 1 if cfg["ndots"] is None else cfg["ndots"]
        dots = len(q) - 1
        out = [q + s for s in suffixes]
        if dots >= ndots:
            out.insert(0, q + [b""])
        else:
            out.append(q + [b""])
    else:
        out = [q + [b""]]
    for n in out:
        if sum(len(l) + 1 for l in n) > 255 or any(len(l) > 63 for l in n):
            return None
    return out


def ref_chain(msg, qname_labels, qcls, qty, limit=16):
    """independent CNAME-chain walk over a real message: ('ok', canonical labels, has_answer, min_ttl, n_cnames) | ('err', why)"""
    if not (msg.flags & dns.flags.QR):
        return ("err", "NotQueryResponse")
    if len(msg.question) != 1:
        return ("err", "FormError")
    sets = {}
    for rrs in msg.answer:
        if rrs.covers == dns.rdatatype.NONE:
            sets.setdefault((lower_labels(rrs.name.labels), int(rrs.rdclass), int(rrs.rdtype)), rrs)
    cur = tuple(qname_labels)
    ttls = []
    hops = 0
    ans = None
    while True:
        k = lower_labels(cur)
        if (k, qcls, qty) in sets:
            ans = sets[(k, qcls, qty)]
            ttls.append(int(ans.ttl))
            break
        if qty != CNAME and (k, qcls, CNAME) in sets:
            c = sets[(k, qcls, CNAME)]
            hops += 1
            if hops >= limit:
                return ("err", "ChainTooLong")
            ttls.append(int(c.ttl))
            cur = tuple(list(c)[0].target.labels)
            continue
        break
    if msg.rcode() == NXDOMAIN and ans is not None:
        return ("err", "AnswerForNXDOMAIN")
    if ans is None:
        # negative TTL: SOA of the closest enclosing ancestor present in the authority section
        soas = {}
        for rrs in msg.authority:
            if rrs.rdtype == SOA and rrs.covers == dns.rdatatype.NONE and len(rrs) > 0:
                soas.setdefault((lower_labels(rrs.name.labels), int(rrs.rdclass)), rrs)
        n = lower_labels(cur)
        while True:
            if (n, qcls) in soas:
                ttls += [int(soas[(n, qcls)].ttl), int(soas[(n, qcls)][0].minimum)]
                break
            if len(n) == 0 or n == (b"",):
                break
            n = n[1:]
    return ("ok", list(cur), ans is not None, min(ttls + [2 ** 32 - 1]), hops)


BROKEN_EXC = ("form", "eof", "os", "notimpl")


def classify(ev, cfg):
    """('accept', chain) | ('nx', chain) | ('yx',) | ('broken',) | ('trunc',) | ('soft',) for a query event"""
    tag = ev["tag"]
    if tag in BROKEN_EXC:
        return ("broken",)
    if tag == "trunc":
        return ("broken",) if ev["tcp"] else ("trunc",)
    if tag in ("timeout", "other"):
        return ("soft",)
    if tag == "abort":
        return ("abort",)
    r = ev["resp"]
    rc = r["rcode"]
    if rc in (NOERROR, NXDOMAIN):
        ch = ref_chain(r["msg"], unhexl(ev["cand"]), ev["qcls"], ev["qty"])
        if ch[0] == "err":
            return ("broken",)
        return ("accept", ch) if rc == NOERROR else ("nx", ch)
    if rc == YXDOMAIN:
        return ("yx",)
    if rc == SERVFAIL and cfg["rsf"]:
        return ("soft",)
    return ("broken",)


class RefCache:
    """reference for what a resolver cache must hold, kept by the oracle across the resolutions of a case and never read
    from the implementation: a timed map keyed by (name, type, class); with a capacity it is least-recently-used —
    a hit makes the entry the most recent, a look-up that finds an expired entry drops it, a store evicts from the
    least-recent end until there is room (expired entries count until they are dropped)."""

    def __init__(self, capacity=None):
        self.cap = capacity
        self.items = []  # [key, entry] most recent first; entry = (exp_ms, hasrr, rcode, answer object or None)
        self.evictions = 0

    def get(self, key, now):
        for i, (k, v) in enumerate(self.items):
            if k == key:
                if v[0] <= now:
                    if self.cap is not None:
                        del self.items[i]
                    return None
                if self.cap is not None:
                    self.items.insert(0, self.items.pop(i))
                return v
        return None

    def put(self, key, entry):
        self.items = [kv for kv in self.items if kv[0] != key]
        if self.cap is not None:
            while len(self.items) >= self.cap:
                self.items.pop()
                self.evictions += 1
        self.items.insert(0, [key, entry])

    def live(self, now):
        return {k: v for k, v in self.items if v[0] > now}

    def adopt(self, view):
        """remember the implementation's Answer objects of entries both sides hold (for identity checks only)"""
        for kv in self.items:
            got = view.get(kv[0])
            if got is not None and got[:3] == kv[1][:3]:
                kv[1] = got


def oracle(ctx, case, obs, rep):
    """the clauses of the property, evaluated on the implementation's trace; returns whether the reference cache
    ever evicted (then the unbounded timed map of the Lean model is not the cache in use)"""
    cfg = case["cfg"]
    cache_on = cfg["cache"] != 0
    cache = RefCache(cfg.get("lru", 50) if cfg["cache"] == 2 else None)
    server_ids = [s for s, _ in cfg["servers"]]
    always_max = {s: bool(a) for s, a in cfg["servers"]}
    distinct_servers = len(set(server_ids)) == len(server_ids)

    def fail(clause, what):
        ctx.fail(f"C16/resolve/{clause}", what, rep)

    for idx, (rq, o) in enumerate(zip(case["reqs"], obs)):
        res, evs = o["result"], o["events"]
        cls = res["cls"]
        life = cfg["lifetime"] if rq["life"] is None else rq["life"]
        start, end = o["start"], o["end"]
        queries = [e for e in evs if e["ev"] == "q"]
        where = f"resolution {idx}: {o['line']}"
        ctx.count("result." + cls)
        if cls == "FOREIGN" and res["exc"].startswith("Runaway"):
            fail("lifetime/does-not-terminate", f"{where}: {res['exc']} (clock at +{end - start} ms, lifetime {life} ms, "
                 f"{len(queries)} queries, last timeouts {[e['to'] for e in queries[-3:]]})")
            continue
        if cls == "FOREIGN":
            fail("classification/foreign-exception:" + res["exc"].split("(")[0], f"{where}: {res['exc']}")
            continue
        meta = (128 <= rq["ty"] < 256) or rq["ty"] == 41 or rq["cls"] in (254, 255)
        if meta:
            if cls != "NoMetaqueries" or evs:
                fail("classification/metaquery", where)
            continue
        cands = spec_candidates(cfg, rq["qname"], rq["search"])
        if cands is None:
            if cls != "NameError" or evs:
                fail("search-ndots/overlong-candidate", where)
            continue
        if cls in ("NameError", "NoMetaqueries"):
            fail("classification/input-rejected", where)
            continue
        lcands = [lower_labels(c) for c in cands]

        # ---- every query carries the caller's source address/port and goes to the port configured for that server
        for e in queries:
            want_str = f"Do53:{sid_addr(e['sid'])}@{ns_port(e['sid'])}" if cfg.get("route") in ("str", "wire") else f"scripted:{e['sid']}"
            if e.get("want_tag") and e["tag"] != e["want_tag"]:
                fail("transport/acceptance", f"{where}: server {e['sid']} ({'TCP' if e['tcp'] else 'UDP'}) sent a reply with rcode {e['spec'].get('rcode')}, "
                     f"QR={e['spec'].get('qr', 1)}, {e['spec'].get('qc', 1)} question(s); by the documented matching rules the query's outcome is "
                     f"'{e['want_tag']}', the library made it '{e['tag']}'")
                break
            if e.get("junk_leak"):
                fail("transport/junk-datagram-not-ignored", f"{where}: server {e['sid']} ({'TCP' if e['tcp'] else 'UDP'}): '{e['junk_leak']}' "
                     f"reached the resolver because the nameserver object called the transport with {e.get('kw')}")
                break
            if cfg.get("route") == "wire":
                want_kw = ({"one_rr_per_rrset": False, "ignore_trailing": False} if e["tcp"] else
                           {"raise_on_truncation": True, "one_rr_per_rrset": False, "ignore_trailing": False, "ignore_errors": True,
                            "ignore_unexpected": True})
                if e.get("kw") != want_kw:
                    fail("transport/keywords", f"{where}: Do53 {'tcp' if e['tcp'] else 'udp'} called with {e.get('kw')}, documented {want_kw}")
                    break
            if e.get("src") != rq.get("src") or (e.get("sport") or 0) != (rq.get("sport") or 0):
                fail("transport/source", f"{where}: query sent with source={e.get('src')!r} port={e.get('sport')!r}, caller gave {rq.get('src')!r}/{rq.get('sport', 0)!r}")
                break
            want_flags = cfg["flags"] if cfg.get("flags") is not None else int(dns.flags.RD)
            want_edns = (0, cfg["edns"][0], cfg["edns"][1]) if cfg.get("edns") is not None else (-1, 0, 0)
            if e.get("rflags") != want_flags or tuple(e.get("redns")) != want_edns:
                fail("request/decoration", f"{where}: request sent with flags {e.get('rflags'):#06x} and EDNS {e.get('redns')}; configured flags {want_flags:#06x}, EDNS {want_edns}")
                break
            if e.get("port") != ns_port(e["sid"]) or e.get("nsstr") != want_str:
                fail("transport/nameserver-port", f"{where}: server {e['sid']} addressed as {e.get('nsstr')} port {e.get('port')}, configured {want_str}")
                break
        # ---- lifetime: every query starts inside the lifetime with a timeout inside the remaining budget
        for e in queries:
            el = e["t0"] - start
            if el >= life:
                fail("lifetime/query-after-expiry", f"{where}: query at +{el} ms, lifetime {life}")
            elif e["to"] > life - el or e["to"] > cfg["timeout"] or e["to"] != min(life - el, cfg["timeout"]):
                fail("lifetime/query-timeout-budget", f"{where}: timeout {e['to']} at +{el} ms (lifetime {life}, timeout {cfg['timeout']})")
        if cls == "LifetimeTimeout" and end - start < life:
            fail("lifetime/premature-timeout", f"{where}: LifetimeTimeout at +{end - start} ms < {life}")
        nbound = (2 * len(server_ids) + 2) * (len(cands) + life // 100 + 2)
        if len(queries) > nbound:
            fail("lifetime/too-many-queries", f"{where}: {len(queries)} queries")
        if end - start > life:
            last = evs[-1] if evs else None
            if last is not None and last["ev"] == "s" and last["t0"] - start <= life and cls == "LifetimeTimeout":
                fail("lifetime-overrun/backoff-sleep",
                     f"{where}: ended {end - start} ms after its start, lifetime {life} ms: the last back-off sleep ({last['ms']} ms) ran past the lifetime")
            else:
                fail("lifetime-overrun/other", f"{where}: ended at +{end - start} ms, lifetime {life}")

        def sleeps_ok(sleeps, expected):
            """the back-off schedule: the documented value, or that value clipped to what is left of the lifetime
            (sleeping past the lifetime is the separate lifetime-overrun clause)"""
            if len(sleeps) != len(expected):
                return False
            for s, want in zip(sleeps, expected):
                left = max(0, life - (s["t0"] - start))
                if s["ms"] != want and not (want > left and s["ms"] == left):
                    return False
            return True

        # ---- walk the trace candidate by candidate
        qi = 0
        tnow = start  # time of the cache probes of the candidate being walked
        nx_names = []
        finished = None  # expected terminal class decided by the walk
        detail = None
        seg = []  # query events of the candidate being walked (the error trace of an exception covers exactly these)
        nx_msgs = {}  # candidate -> the NXDOMAIN response that is its evidence
        ok = True
        for ci, cand in enumerate(cands):
            lc = lower_labels(cand)
            if cache_on:
                hit = cache.get((lc, rq["ty"], rq["cls"]), tnow)
                if hit is not None:
                    finished = "NoAnswer" if (not hit[1] and rq["rona"]) else "CacheHit"
                    detail = hit
                    seg = []
                    break
                nxe = cache.get((lc, ANY, rq["cls"]), tnow)
                if nxe is not None and nxe[2] == NXDOMAIN:
                    nx_names.append(lc)
                    if nxe[3] is not None:
                        nx_msgs[lc] = nxe[3].response
                    ctx.count("branch.cached-nxdomain")
                    continue
            # queries of this candidate: up to and including the first terminal outcome
            broken = set()
            seg = []
            alive = list(server_ids)
            round_q = list(server_ids)
            backoff = 100
            first_round = True
            pending_retry = None
            seg_done = False
            pos = [i for i, e in enumerate(evs) if e["ev"] == "q"]
            while True:
                # position of the next query event, and sleeps before it
                nxt = None
                sleeps = []
                k = (pos[qi - 1] + 1) if qi > 0 else 0
                while k < len(evs):
                    if evs[k]["ev"] == "q":
                        nxt = evs[k]
                        break
                    sleeps.append(evs[k])
                    k += 1
                if nxt is None:
                    # the resolution ended here without a further query
                    if not alive and pending_retry is None:
                        finished = "NoNameservers"
                    else:
                        finished = "LifetimeTimeout"
                    if pending_retry is None and not round_q and alive:
                        exp_sleeps = [backoff]
                    else:
                        exp_sleeps = []
                    if not sleeps_ok(sleeps, exp_sleeps):
                        fail("schedule/backoff", f"{where}: sleeps {[s['ms'] for s in sleeps]} before the end, expected {exp_sleeps}")
                    seg_done = True
                    break
                qi += 1
                e = nxt
                seg.append(e)
                tnow = e["t0"] + e["dur"]
                if lower_labels(unhexl(e["cand"])) != lc or e["qty"] != rq["ty"] or e["qcls"] != rq["cls"]:
                    fail("search-ndots/candidate-order", f"{where}: query for {e['cand']} where candidate {ci} {hexl(cand)} was due")
                    ok = False
                    break
                sid = e["sid"]
                if sid in broken:
                    fail("broken-server-reasked", f"{where}: server {sid} asked again for {hexl(cand)} after it proved broken")
                if pending_retry is not None:
                    if sid != pending_retry or not e["tcp"] or sleeps:
                        fail("truncation/tcp-retry", f"{where}: after a truncated UDP reply from {pending_retry} the next query was ({sid}, tcp={e['tcp']}, sleeps={len(sleeps)})")
                    pending_retry = None
                    is_retry = True
                else:
                    is_retry = False
                    exp_sleeps = []
                    if not round_q:
                        round_q = list(alive)
                        exp_sleeps = [backoff]
                        backoff = min(backoff * 2, 2000)
                        ctx.count("branch.rearm")
                    if not sleeps_ok(sleeps, exp_sleeps):
                        fail("schedule/backoff", f"{where}: sleeps {[s['ms'] for s in sleeps]} before query {qi}, expected {exp_sleeps}")
                    if not round_q or round_q[0] != sid:
                        fail("schedule/server-order", f"{where}: query {qi} went to {sid}, expected {round_q[:1]}")
                        ok = False
                        break
                    round_q.pop(0)
                    want_tcp = bool(rq["tcp"]) or always_max[sid]
                    if e["tcp"] != want_tcp:
                        fail("truncation/tcp-flag", f"{where}: query {qi} tcp={e['tcp']}, expected {want_tcp}")
                c = classify(e, cfg)
                ctx.count("outcome." + c[0] + (".tcp" if e["tcp"] else ""))
                if c[0] == "broken":
                    if distinct_servers:
                        broken.add(sid)
                    if sid in alive:
                        alive.remove(sid)
                elif c[0] == "trunc":
                    pending_retry = sid
                    if is_retry:
                        fail("truncation/second-retry", f"{where}: a second TCP retry was armed")
                elif c[0] == "accept":
                    ch = c[1]
                    finished = "NoAnswer" if (not ch[2] and rq["rona"]) else "Answer"
                    detail = (e, ch)
                    if cache_on:
                        cache.put((lc, rq["ty"], rq["cls"]), (e["t0"] + e["dur"] + 1000 * ch[3], ch[2], NOERROR, None))
                    seg_done = True
                    break
                elif c[0] == "yx":
                    finished = "YXDOMAIN"
                    seg_done = True
                    break
                elif c[0] == "abort":
                    finished = "Abort"  # not the resolver's to handle: it must come out of resolve() as it is
                    seg_done = True
                    break
                elif c[0] == "nx":
                    nx_names.append(lc)
                    nx_msgs[lc] = e["resp"]["msg"]
                    if cache_on:
                        cache.put((lc, ANY, rq["cls"]), (e["t0"] + e["dur"] + 1000 * c[1][3], False, NXDOMAIN, None))
                    break  # next candidate
            if not ok or seg_done:
                break
        if not ok:
            continue
        if finished is None:
            finished = "NXDOMAIN"
        if evs and finished not in ("LifetimeTimeout", "NoNameservers") and evs[-1]["ev"] != "q":
            fail("schedule/trailing-sleep", f"{where}: slept after the deciding outcome")
        if qi != len(queries):
            fail("first-acceptable-answer/continued", f"{where}: {len(queries) - qi} queries issued after the outcome that decides the resolution ({finished})")
            continue
        # ---- result classification
        exp_cls = {"CacheHit": "Answer"}.get(finished, finished)
        if cls != exp_cls:
            if exp_cls == "NXDOMAIN" or cls == "NXDOMAIN":
                fail("nxdomain-only-if-all", f"{where}: expected {exp_cls}; candidates with NXDOMAIN evidence {len(nx_names)}/{len(cands)}")
            else:
                fail("classification", f"{where}: expected {exp_cls}")
            continue
        # ---- the exception / answer objects: error trace, ports, response payloads
        if cls in ("NoNameservers", "LifetimeTimeout"):
            want = []
            for e in seg:
                c = classify(e, cfg)
                base = (e["nsstr"], e["tcp"], ns_port(e["sid"]))
                if e["tag"] in EXC_POOL:
                    pool = EXC_POOL[e["tag"]]
                    want.append(base + (e.get("excname") or type(pool[e["spec"].get("v", 0) % len(pool)]()).__name__, False))
                elif c[0] == "broken" and e["resp"]["rcode"] in (NOERROR, NXDOMAIN):
                    want.append(base + (ref_chain(e["resp"]["msg"], unhexl(e["cand"]), e["qcls"], e["qty"])[1], True))
                elif c[0] in ("broken", "soft"):
                    want.append(base + ("rcode:" + dns.rcode.to_text(e["resp"]["rcode"]), True))
                elif c[0] == "yx":
                    want.append(base + ("YXDOMAIN", True))
            got = [(x[0], bool(x[1]), x[2], type(x[3]).__name__ if not isinstance(x[3], str) else "rcode:" + x[3], x[4] is not None)
                   for x in res["errors"]]
            if got != want:
                fail("errors-trace", f"{where}: the exception lists {got[:6]}, the failed queries of the last candidate were {want[:6]}")
            else:
                msgs = [e["resp"]["msg"] for e in seg if "resp" in e and classify(e, cfg)[0] not in ("accept", "nx")]
                if [x[4] for x in res["errors"] if x[4] is not None] != msgs and not all(a is b for a, b in zip([x[4] for x in res["errors"] if x[4] is not None], msgs)):
                    fail("errors-trace/response", f"{where}: an error entry carries another response than the one received")
            if cls == "LifetimeTimeout" and res.get("elapsed") is not None and to_ms(res["elapsed"]) != end - start:
                fail("errors-trace/elapsed", f"{where}: LifetimeTimeout reports {to_ms(res['elapsed'])} ms elapsed, the clock says {end - start}")
        if cls == "NoAnswer":
            want_msg = detail[3].response if (finished == "NoAnswer" and isinstance(detail, tuple) and len(detail) == 4 and detail[3] is not None) else (
                detail[0]["resp"]["msg"] if (isinstance(detail, tuple) and len(detail) == 2) else None)
            if want_msg is not None and res.get("msg") is not want_msg:
                fail("payload/noanswer-response", f"{where}: NoAnswer does not carry the response that had no answer")
        if cls == "NXDOMAIN":
            for n, m in zip(res["responses"], res["msgs"]):
                w = nx_msgs.get(lower_labels(unhexl(n)))
                if w is not None and m is not w:
                    fail("payload/nxdomain-response", f"{where}: NXDOMAIN.responses[{n}] is not the NXDOMAIN response received for that name")
                    break
        if cls == "NXDOMAIN":
            if [lower_labels(unhexl(n)) for n in res["qnames"]] != lcands:
                fail("nxdomain-only-if-all/qnames", f"{where}: qnames differ from the candidate list")
            got = [lower_labels(unhexl(n)) for n in res["responses"]]
            if set(got) != set(lcands) or any(c not in nx_names for c in lcands):
                fail("nxdomain-only-if-all", f"{where}: responses for {len(got)} names, {len(set(lcands))} candidates")
        if cls == "Answer":
            if finished == "CacheHit":
                a = detail[3]
                if a is not None and res["obj"] is not a:
                    fail("cache/hit-returns-entry", f"{where}: a live cache entry existed but another answer was returned")
                ctx.count("branch.cache-hit")
            else:
                e, ch = detail
                exp = e["t0"] + e["dur"] + 1000 * ch[3]
                if res.get("port") != ns_port(e["sid"]) or res.get("msg") is not e["resp"]["msg"]:
                    fail("first-acceptable-answer/port-or-response", f"{where}: answer carries port {res.get('port')} (server {e['sid']} is on {ns_port(e['sid'])}) or another response")
                if (lower_labels(unhexl(res["qname"])) != lower_labels(unhexl(e["cand"])) or res["ty"] != rq["ty"] or res["rdcls"] != rq["cls"]
                        or str(res["server"]) != str(e["sid"])):
                    fail("first-acceptable-answer/fields", f"{where}: answer labelled {res['qname']}/{res['ty']}/{res['rdcls']} from {res['server']}")
                if lower_labels(unhexl(res["canon"])) != lower_labels(ch[1]) or res["hasrr"] != ch[2] or ch[4] >= 16:
                    fail("chain/canonical-name", f"{where}: canonical {res['canon']} hasrr={res['hasrr']}, reference {hexl(ch[1])} {ch[2]}")
                if res["hasrr"] and lower_labels(unhexl(res["rrname"])) != lower_labels(ch[1]):
                    fail("chain/canonical-name", f"{where}: rrset owner differs from the canonical name")
                if res["minttl"] != ch[3] or res["exp"] != exp:
                    fail("chain/min-ttl", f"{where}: minimum_ttl {res['minttl']} expiration {res['exp']}, reference {ch[3]} / {exp}")
        # ---- cache contents: exactly the reference view (keys, expiry, polarity), nothing else
        if cache_on:
            ref = {k: v[:3] for k, v in cache.live(end).items()}
            got = {k: v[:3] for k, v in o["after"].items()}
            if ref != got:
                diff = sorted(set(ref.items()) ^ set(got.items()))[:4]
                fail("cache/key-exact", f"{where}: cache differs from (name,type,class)-keyed reference at {[(enc_labels(k[0]), k[1], k[2], v) for k, v in diff]}")
            cache.adopt(o["after"])
        elif o["after"]:
            fail("cache/off", where)
    return cache.evictions > 0


def oracle_entry(ctx, case, ob, rep):
    """`canonical_name`, `resolve_address`, `zone_for_name`: the lookups they make and the deadline they share"""
    cfg, rq, entry = case["cfg"], case["nreq"], case["entry"]
    start, end, calls, res = ob["start"], ob["end"], ob["calls"], ob["result"]
    where = f"{entry}: {ob['line'][:200]}"

    def fail(clause, what):
        ctx.fail(f"C16/{entry}/{clause}", what, rep)

    ctx.count(f"entry.{entry}.{res['cls']}")
    if res["cls"] == "FOREIGN" and res["exc"].startswith("Runaway"):
        fail("does-not-terminate", f"{where}: {res['exc']} (clock at +{end - start} ms)")
        return
    if res["cls"] == "FOREIGN" and not res["exc"].startswith(("NoRootSOA", "NotAbsolute")):
        fail("foreign-exception:" + res["exc"].split("(")[0], f"{where}: {res['exc']}")
        return

    def labels_of(x):
        return list(x.labels) if isinstance(x, dns.name.Name) else list(dns.name.from_text(x, None).labels)
    reqs = []
    for c in calls:
        kw = c["kw"]
        a = list(c["args"])
        ty = a[1] if len(a) > 1 else kw.get("rdtype", A)
        rc = a[2] if len(a) > 2 else kw.get("rdclass", IN)
        tcp = a[3] if len(a) > 3 else kw.get("tcp", False)
        reqs.append({"qname": hexl(labels_of(a[0])), "ty": int(dns.rdatatype.RdataType.make(ty)), "cls": int(dns.rdataclass.RdataClass.make(rc)),
                     "tcp": int(bool(tcp)), "rona": int(bool(kw.get("raise_on_no_answer", True))),
                     "search": None if kw.get("search") is None else int(bool(kw["search"])),
                     "life": None if kw.get("lifetime") is None else to_ms(kw["lifetime"]), "gap": 0, "src": kw.get("source"),
                     "sport": kw.get("source_port", 0)})
    if entry == "canonical_name":
        if len(calls) != 1 or reqs[0]["ty"] != A or reqs[0]["rona"] != 0 or lower_labels(unhexl(reqs[0]["qname"])) != lower_labels(unhexl(rq["qname"])):
            fail("lookups", f"{where}: expected one lookup of type A for the name with raise_on_no_answer off, got {reqs}")
        elif calls[0]["result"]["cls"] == "Answer" and (res["cls"] != "Name" or lower_labels(unhexl(res["name"])) != lower_labels(unhexl(calls[0]["result"]["canon"]))):
            fail("composition", f"{where}: the lookup's canonical name is {calls[0]['result']['canon']}")
        elif calls[0]["result"]["cls"] not in ("Answer", "NXDOMAIN") and res["cls"] != calls[0]["result"]["cls"]:
            fail("composition", f"{where}: the lookup ended in {calls[0]['result']['cls']}")
    if entry == "resolve_address":
        want = list(dns.reversename.from_address(rq["addr"]).labels)
        if len(calls) != 1 or reqs[0]["ty"] != 12 or reqs[0]["cls"] != IN or lower_labels(unhexl(reqs[0]["qname"])) != lower_labels(want) \
                or reqs[0]["life"] != rq["life"] or reqs[0]["tcp"] != rq["tcp"] or reqs[0]["rona"] != rq["rona"]:
            fail("lookups", f"{where}: expected one PTR lookup for the reverse name with the caller's options, got {reqs}")
        elif res["cls"] != calls[0]["result"]["cls"]:
            fail("composition", f"{where}: the lookup ended in {calls[0]['result']['cls']}")
    if entry == "zone_for_name" and rq["life"] is not None:
        life = rq["life"]
        if end - start > life:
            fail("lifetime-overrun", f"{where}: ended {end - start} ms after its start, lifetime {life} ms")
        for i, c in enumerate(calls):
            left = max(life - (c["start"] - start), 0)
            if reqs[i]["life"] is None or reqs[i]["life"] > left:
                fail("sub-lookup-budget", f"{where}: lookup {i} at +{c['start'] - start} ms got lifetime {reqs[i]['life']} ms, {left} ms were left")
                break
            if reqs[i]["ty"] != SOA:
                fail("lookups", f"{where}: lookup {i} is of type {reqs[i]['ty']}")
                break
        for e in ob["events"]:
            if e["ev"] == "q" and (e["t0"] - start >= life or e["to"] > life - (e["t0"] - start)):
                fail("query-timeout-budget", f"{where}: query at +{e['t0'] - start} ms with timeout {e['to']} ms, lifetime {life}")
                break
    oracle(ctx, {"cfg": cfg, "reqs": reqs}, calls, rep)


def oracle_name(ctx, case, ob, rep):
    """`resolve_name`: the lookups it is made of share one deadline, and its result is composed from theirs"""
    cfg, rq = case["cfg"], case["nreq"]
    life = cfg["lifetime"] if rq["life"] is None else rq["life"]
    start, end, calls, res = ob["start"], ob["end"], ob["calls"], ob["result"]
    where = f"resolve_name({rq['family']}): {ob['line'][:200]}"

    def fail(clause, what):
        ctx.fail(f"C16/resolve_name/{clause}", what, rep)

    ctx.count("rname." + rq["family"] + "." + res["cls"])
    if res["cls"] == "FOREIGN" and res["exc"].startswith("Runaway"):
        fail("does-not-terminate", f"{where}: {res['exc']} (clock at +{end - start} ms, lifetime {life} ms)")
        return
    if res["cls"] == "FOREIGN":
        fail("foreign-exception:" + res["exc"].split("(")[0], f"{where}: {res['exc']}")
        return
    # ---- one deadline for the whole call
    if end - start > life:
        fail("lifetime-overrun", f"{where}: ended {end - start} ms after its start, lifetime {life} ms")
    for e in ob["events"]:
        if e["ev"] != "q":
            continue
        el = e["t0"] - start
        if el >= life or e["to"] > life - el or e["to"] > cfg["timeout"]:
            fail("query-timeout-budget", f"{where}: query (type {e['qty']}) at +{el} ms with timeout {e['to']} ms; lifetime {life}, per-query timeout {cfg['timeout']}")
            break
    for i, c in enumerate(calls):
        sub = c["kw"].get("lifetime")
        left = life - (c["start"] - start)
        if rq["family"] == "unspec" and (sub is None or to_ms(sub) > max(left, 0)):
            fail("sub-lookup-budget", f"{where}: lookup {i} started at +{c['start'] - start} ms with lifetime {sub} s; {left} ms of the caller's {life} ms were left")
            break
    # ---- which lookups, with which arguments
    def labels_of(x):
        return list(x.labels) if isinstance(x, dns.name.Name) else list(dns.name.from_text(x, None).labels)
    want_types = {"unspec": [AAAA, A], "inet": [A], "inet6": [AAAA]}[rq["family"]]
    got_types = [int(dns.rdatatype.RdataType.make(c["args"][1] if len(c["args"]) > 1 else c["kw"].get("rdtype", A))) for c in calls]
    if got_types != want_types[: len(got_types)] or (calls and all(c["result"]["cls"] == "Answer" for c in calls) and len(calls) != len(want_types)):
        fail("lookups", f"{where}: lookups of types {got_types}, expected {want_types}")
        return
    if calls and lower_labels(labels_of(calls[0]["args"][0])) != lower_labels(unhexl(rq["qname"])):
        fail("lookups", f"{where}: first lookup not for the name given")
    if len(calls) == 2 and calls[0]["result"]["cls"] == "Answer" and \
            lower_labels(labels_of(calls[1]["args"][0])) != lower_labels(unhexl(calls[0]["result"]["qname"])):
        fail("lookups", f"{where}: the A lookup is not for the name the AAAA lookup settled on")
    # ---- the result is composed from the lookups' results
    raised = [c["result"]["cls"] for c in calls if c["result"]["cls"] != "Answer"]
    if raised:
        exp = raised[0]
    elif len(calls) < len(want_types):
        exp = "LifetimeTimeout"  # the budget computation itself gave up
    else:
        add_empty = not rq["rona"] if rq["family"] == "unspec" else True
        keep = [t for t, c in zip(want_types, calls) if add_empty or c["result"]["hasrr"]]
        exp = "Host" if keep else "NoAnswer"
        if exp == "Host" and sorted(res.get("keys", [])) != sorted(keep):
            fail("composition", f"{where}: HostAnswers has entries {res.get('keys')}, expected {keep}")
    if res["cls"] != exp:
        fail("composition", f"{where}: expected {exp} from lookups {[c['result']['cls'] for c in calls]}")
    if exp == "LifetimeTimeout" and not raised and end - start < life:
        fail("premature-timeout", f"{where}: gave up at +{end - start} ms, lifetime {life}")
    # ---- every lookup is a resolution in its own right
    reqs = []
    for c in calls:
        kw = c["kw"]
        reqs.append({"qname": hexl(labels_of(c["args"][0])), "ty": int(dns.rdatatype.RdataType.make(c["args"][1] if len(c["args"]) > 1 else kw.get("rdtype", A))),
                     "cls": int(dns.rdataclass.RdataClass.make(kw.get("rdclass", IN))), "tcp": int(bool(kw.get("tcp", False))),
                     "rona": int(bool(kw.get("raise_on_no_answer", True))), "search": None if kw.get("search") is None else int(bool(kw["search"])),
                     "life": None if kw.get("lifetime") is None else to_ms(kw["lifetime"]), "gap": 0, "src": kw.get("source"),
                     "sport": kw.get("source_port", 0)})
    return oracle(ctx, {"cfg": cfg, "reqs": reqs}, calls, rep)


# ------------------------------------------------------------------------------------------------
# evaluation of one case
# ------------------------------------------------------------------------------------------------
def eval_case(ctx: Ctx, c: dict, gen=None):
    k = c["kind"]
    rep = {"kind": k, "case": c}
    if k == "structural":
        structural_sync_async(ctx)
        return False
    if k == "run":
        try:
            line, obs, tokens = run_impl(c, "sync", gen)
        except (ValueError, TypeError) as e:
            # the resolver refused a documented form of its configuration (e.g. nameservers / search given as a tuple)
            ctx.fail("C16/configure/rejected:" + type(e).__name__, f"configuring the resolver raised {e!r}", rep)
            return False
        # from here on the script is fixed
        rep = {"kind": k, "case": c}
        evicted = oracle(ctx, c, obs, rep)
        if ran_away(obs):
            ctx.count("run.ran-away")
            return True
        if any(st.get("e") == "abort" for st in c["script"]):
            ctx.count("run.abort-not-modelled")  # BaseException pass-through is judged by the oracle and sync/async only
        elif evicted:
            # a small LRU cache that had to evict is not the unbounded timed map of the Lean model: such histories are
            # judged by the oracle's reference LRU and the sync/async comparison only
            ctx.count("run.lru-evicting-not-modelled")
        else:
            ctx.corr(op_line(c, tokens), line, c)
        aline, aobs, _ = run_impl(c, "async", None)
        if aline != line:
            ctx.fail("C16/async/decision-differs", f"sync: {line}  async: {aline}", rep)
        else:
            for i, (o1, o2) in enumerate(zip(obs, aobs)):
                if aux_of(o1) != aux_of(o2):
                    ctx.fail("C16/async/transport-or-payload-differs",
                             f"resolution {i}: sync {aux_of(o1)[:300]}  async {aux_of(o2)[:300]}", rep)
                    break
        ctx.count("run.resolutions", len(obs))
        ctx.count("run.queries", sum(1 for o in obs for e in o["events"] if e["ev"] == "q"))
        return sum(len(o["events"]) for o in obs) > 0 or any(o["result"]["cls"] in ("Answer", "NoAnswer", "NXDOMAIN") for o in obs)
    if k == "rname" and c.get("entry", "resolve_name") != "resolve_name":
        line, obs, tokens = run_impl(c, "sync", gen)
        oracle_entry(ctx, c, obs[0], rep)
        if ran_away(obs):
            ctx.count("run.ran-away")
            return True
        if c["entry"] != "zone_for_name":
            aline, aobs, _ = run_impl(c, "async", None)
            if c["entry"] == "canonical_name":
                # the asyncio canonical_name takes no backend argument: its sleeps go through the default backend and are
                # visible only as clock advances (the end time), not as recorded sleep events
                strip = lambda l: " ".join(t for t in l.split(" ") if not (t.startswith("s") and t[1:].isdigit()))
                line, aline = strip(line), strip(aline)
            if aline != line:
                ctx.fail("C16/async/decision-differs", f"{c['entry']} sync: {line}  async: {aline}", rep)
        return True
    if k == "rname":
        line, obs, tokens = run_impl(c, "sync", gen)
        evicted = oracle_name(ctx, c, obs[0], rep)
        if ran_away(obs):
            ctx.count("run.ran-away")
            return True
        if not evicted:
            ctx.corr(op_line(c, tokens), line, c)
        aline, aobs, _ = run_impl(c, "async", None)
        if aline != line:
            ctx.fail("C16/async/decision-differs", f"resolve_name sync: {line}  async: {aline}", rep)
        else:
            a1 = [aux_of(o) + json.dumps(sorted(o["kw"].items()), default=str) for o in obs[0]["calls"]]
            a2 = [aux_of(o) + json.dumps(sorted(o["kw"].items()), default=str) for o in aobs[0]["calls"]]
            if a1 != a2:
                ctx.fail("C16/async/transport-or-payload-differs", f"resolve_name lookups: sync {str(a1)[:300]}  async {str(a2)[:300]}", rep)
        ctx.count("rname.queries", sum(1 for e in obs[0]["events"] if e["ev"] == "q"))
        return True
    if k == "plumb":
        # the layer between the resolver and dns.query: what each Nameserver class hands to its transport function, and that
        # its synchronous and asynchronous methods hand over the same
        rec = {}
        names = ("udp", "tcp", "tls", "https", "quic")
        saved = {(m, n): getattr(m, n) for m in (dns.query, dns.asyncquery) for n in names}
        req = dns.message.make_query("plumb.example.", "A")
        canned = dns.message.make_response(req)

        def mk_sync(n):
            def f(*a, **kw):
                rec.setdefault("sync", []).append((n, a, kw))
                return canned
            return f

        def mk_async(n):
            async def f(*a, **kw):
                rec.setdefault("async", []).append((n, a, kw))
                return canned
            return f
        p_ = c["p"]
        make = {"do53": lambda: dns.nameserver.Do53Nameserver("10.0.0.9", p_["port"]),
                "dot": lambda: dns.nameserver.DoTNameserver("10.0.0.9", p_["port"], p_["host"], p_["verify"]),
                "doh": lambda: dns.nameserver.DoHNameserver("https://dns.example/dns-query", p_["boot"], p_["verify"], bool(p_["get"])),
                "doq": lambda: dns.nameserver.DoQNameserver("10.0.0.9", p_["port"], p_["verify"], p_["host"])}[c["cls"]]
        t = seconds(c["timeout"])
        args = (req, t, c["src"], c["sport"], bool(c["max"]))
        try:
            for n in names:
                setattr(dns.query, n, mk_sync(n))
                setattr(dns.asyncquery, n, mk_async(n))
            ns = make()
            backend = dns.asyncbackend.get_backend("asyncio")
            r1 = ns.query(*args, one_rr_per_rrset=bool(c["orr"]), ignore_trailing=bool(c["it"]))
            r2 = _rebased(get_loop()).run_until_complete(ns.async_query(*args, backend, one_rr_per_rrset=bool(c["orr"]), ignore_trailing=bool(c["it"])))
        except BaseException as e:
            if _harness_signal(e):
                raise
            ctx.fail(f"C16/nameserver/{c['cls']}/raises:" + type(e).__name__, f"{c['cls']} query/async_query raised {e!r} over recording transports", rep)
            return True
        finally:
            for (m, n), f in saved.items():
                setattr(m, n, f)
        sy, asy = rec.get("sync", []), rec.get("async", [])
        ctx.count(f"plumb.{c['cls']}.{'tcp' if c['max'] else 'udp'}")
        if len(sy) != 1 or len(asy) != 1 or r1 is not canned or r2 is not canned:
            ctx.fail(f"C16/nameserver/{c['cls']}/calls", f"transport calls: sync {[x[0] for x in sy]}, async {[x[0] for x in asy]}", rep)
            return True
        (n1, a1, k1), (n2, a2, k2) = sy[0], asy[0]
        k2 = {k_: v for k_, v in k2.items() if k_ != "backend"}
        if n1 != n2 or list(a1[1:]) != list(a2[1:]) or a1[0] is not req or a2[0] is not req or k1 != k2:
            diff = {k_: (k1.get(k_, "<absent>"), k2.get(k_, "<absent>")) for k_ in set(k1) | set(k2) if k1.get(k_, "<absent>") != k2.get(k_, "<absent>")}
            ctx.fail(f"C16/nameserver/{c['cls']}/sync-async-keywords", f"{c['cls']} ({'max_size' if c['max'] else 'udp-size'}): sync {n1}{a1[1:]} vs async {n2}{a2[1:]}; keywords that differ (sync, async): {diff}", rep)
            return True
        common = {"timeout": t, "one_rr_per_rrset": bool(c["orr"]), "ignore_trailing": bool(c["it"])}
        if c["cls"] == "do53":
            want_fn = "tcp" if c["max"] else "udp"
            want = dict(common, port=p_["port"], source=c["src"], source_port=c["sport"])
            if not c["max"]:
                want.update(raise_on_truncation=True, ignore_errors=True, ignore_unexpected=True)
            want_where = "10.0.0.9"
        elif c["cls"] == "dot":
            want_fn, want_where = "tls", "10.0.0.9"
            want = dict(common, port=p_["port"], server_hostname=p_["host"], verify=p_["verify"])
        elif c["cls"] == "doh":
            want_fn, want_where = "https", "https://dns.example/dns-query"
            want = dict(common, source=c["src"], source_port=c["sport"], bootstrap_address=p_["boot"], verify=p_["verify"], post=not p_["get"],
                        http_version=dns.query.HTTPVersion.DEFAULT)
        else:
            want_fn, want_where = "quic", "10.0.0.9"
            want = dict(common, port=p_["port"], verify=p_["verify"], server_hostname=p_["host"])
        if n1 != want_fn or list(a1[1:]) != [want_where] or k1 != want:
            ctx.fail(f"C16/nameserver/{c['cls']}/keywords", f"{c['cls']}: dns.query.{n1}{a1[1:]} called with {k1}; documented dns.query.{want_fn}('{want_where}') with {want}", rep)
        return True
    if k == "timeout":
        # `_compute_timeout` on its own, on a clock that may also have run backwards since `start`
        clock = VClock(c["now"])
        from fractions import Fraction
        with patched(clock, dns.resolver):
            res = dns.resolver.Resolver(configure=False)
            res.lifetime = seconds(c["life_res"])
            res.timeout = seconds(c["timeout"])
            try:
                t = res._compute_timeout(Fraction(c["start"], 1000), None if c["life_arg"] is None else seconds(c["life_arg"]), None)
                impl = f"ok {to_ms(t)}"
            except dns.resolver.LifetimeTimeout as e:
                impl = "LifetimeTimeout"
                moved = c["now"] - c["start"]
                if to_ms(e.kwargs.get("timeout", 0)) != (moved if moved < -1000 else max(moved, 0)):  # a small step back counts as 0
                    ctx.fail("C16/timeout/reported-elapsed", f"LifetimeTimeout reports {e.kwargs.get('timeout')} s elapsed, the clock moved {c['now'] - c['start']} ms since start", rep)
            except BaseException as e:
                if _harness_signal(e):
                    raise
                impl = "FOREIGN " + type(e).__name__
                ctx.fail("C16/timeout/foreign-exception:" + type(e).__name__, impl, rep)
        life = c["life_res"] if c["life_arg"] is None else c["life_arg"]
        ctx.corr(f"c16.timeout {life} {c['timeout']} {c['start']} {c['now']}", impl, c)
        d = c["now"] - c["start"]
        if d < -1000:
            want = "LifetimeTimeout"
        else:
            d = max(d, 0)
            want = "LifetimeTimeout" if d >= life else f"ok {min(life - d, c['timeout'])}"
        ctx.count("timeout." + ("back" if c["now"] < c["start"] else "fwd") + "." + want.split(" ")[0])
        if impl != want and not impl.startswith("FOREIGN"):
            ctx.fail("C16/timeout/budget", f"_compute_timeout(start={c['start']} ms, lifetime={life} ms, timeout={c['timeout']} ms) at {c['now']} ms -> {impl}, documented {want}", rep)
        return True
    if k == "qnames":
        cfg = c["cfg"]
        res = dns.resolver.Resolver(configure=False)
        res.search = [dns.name.Name(unhexl(s)) for s in cfg["search"]]
        res.domain = None if cfg["domain"] is None else dns.name.Name(unhexl(cfg["domain"]))
        res.ndots = cfg["ndots"]
        res.use_search_by_default = bool(cfg["usd"])
        q = dns.name.Name(unhexl(c["qname"]))
        s = None if c["search"] is None else bool(c["search"])
        try:
            got = [list(n.labels) for n in res._get_qnames_to_try(q, s)]
            impl = "ok " + enc_list(enc_labels(n) for n in got)
        except dns.exception.DNSException as e:
            got = None
            impl = "err " + type(e).__name__
        except BaseException as e:
            if _harness_signal(e):
                raise
            got = None
            impl = "FOREIGN " + type(e).__name__
            ctx.fail("C16/qnames/foreign-exception:" + type(e).__name__, impl, rep)
        ctx.corr("c16.qnames " + " ".join([enc_list(encn(x) for x in cfg["search"]), "none" if cfg["domain"] is None else encn(cfg["domain"]),
                                             opt(cfg["ndots"]), b01(cfg["usd"]), encn(c["qname"]), "none" if s is None else b01(s)]), impl, c)
        exp = spec_candidates(cfg, c["qname"], c["search"])
        ctx.count("qnames." + ("ok" if got is not None else "err"))
        if (exp is None) != (got is None) or (exp is not None and [lower_labels(x) for x in exp] != [lower_labels(x) for x in got]):
            ctx.fail("C16/qnames/search-ndots", f"_get_qnames_to_try({c['qname']}, {s}) with {cfg} -> {impl}", rep)
        return True
    if k == "chain":
        req = dns.message.make_query(dns.name.Name(unhexl(c["qname"])), c["ty"], c["cls"])
        m = build_response(req, c["resp"])
        try:
            r = m.resolve_chaining()
            impl = (f"ok {enc_labels(r.canonical_name.labels)} {b01(r.answer is not None)} {int(r.minimum_ttl)} "
                    f"{enc_list(enc_labels(x.name.labels) for x in r.cnames)}")
            got = ("ok", list(r.canonical_name.labels), r.answer is not None, int(r.minimum_ttl), len(r.cnames))
        except (dns.message.NotQueryResponse, dns.message.ChainTooLong, dns.message.AnswerForNXDOMAIN) as e:
            impl = "err " + type(e).__name__
            got = ("err", type(e).__name__)
        except dns.exception.FormError as e:
            impl = "err FormError"
            got = ("err", "FormError")
        except BaseException as e:
            if _harness_signal(e):
                raise
            impl = "FOREIGN " + type(e).__name__
            got = ("foreign",)
            ctx.fail("C16/chain/foreign-exception:" + type(e).__name__, impl, rep)
        rc, qr, qc, an, au = abstract_response(m)
        ctx.corr(f"c16.chain {rc}:{qr}:{qc}:{an}:{au} {encn(c['qname'])} {c['cls']} {c['ty']}", impl, c)
        ref = ref_chain(m, unhexl(c["qname"]), c["cls"], c["ty"])
        ctx.count("chain." + (impl.split(" ")[1] if impl.startswith("err") else "ok"))
        if got[0] != "foreign":
            if ref[0] != got[0] or (ref[0] == "err" and ref[1] != got[1]):
                ctx.fail("C16/chain/outcome", f"resolve_chaining -> {impl}, reference {ref}", rep)
            elif ref[0] == "ok":
                if lower_labels(ref[1]) != lower_labels(got[1]) or ref[2] != got[2] or ref[4] != got[4] or got[4] >= 16:
                    ctx.fail("C16/chain/canonical-name", f"resolve_chaining -> {impl}, reference {ref}", rep)
                elif ref[3] != got[3]:
                    ctx.fail("C16/chain/min-ttl", f"resolve_chaining -> {impl}, reference minimum {ref[3]}", rep)
        return True
    raise ValueError(k)


# ------------------------------------------------------------------------------------------------
# generators
# ------------------------------------------------------------------------------------------------
LABELS = [b"a", b"b", b"www", b"Host", b"x1"]
SUFFIXES = [[b"example", b""], [b"corp", b"test", b""], [b"Example", b""], [b"lan", b""], [b"sub", b"example", b""]]
TIMEOUTS = [125, 250, 500, 1000, 2000, 2000, 2000, 4000]
LIFETIMES = [125, 250, 375, 500, 750, 1000, 1500, 2000, 3000, 5000, 5000, 8000]
DUR_POOL = [0, 0, 1, 1, 2, 5, 10, 50, 99, 100, 101, 124, 125, 126, 250, 499, 500, 501, 999, 1000, 1999, 2000, 2001, 5000]
TTL_POOL = [0, 1, 5, 30, 60, 300, 3600, 86400, 2 ** 31 - 1, 2 ** 31 - 1, 2 ** 31, 2 ** 32 - 1]
QTYPES_IN = [A, A, A, AAAA, TXT, MX, CNAME]
RCODES_OTHER = [1, 4, 5, 7, 8, 9, 10, 11, 16, 18, 18, 23, 4095]


def gen_qname(rng):
    m = rng.below(10)
    if m < 5:
        return [rng.choice(LABELS)]
    if m < 7:
        return [rng.choice(LABELS), rng.choice(LABELS)]
    if m < 8:
        return [rng.choice(LABELS), rng.choice(LABELS), rng.choice(LABELS)]
    if m < 9:
        return [rng.choice(LABELS)] + rng.choice(SUFFIXES)
    return rng.choice([[], [b""], [b"a" * 63, b"b" * 63, b"c" * 63], [b"a" * 63, b"b" * 63, b"c" * 63, b"d" * 58]])


def gen_cfg(rng):
    ns = rng.choice([0, 1, 1, 2, 2, 2, 3, 3, 4, 4, 8])
    servers = [[i, 1 if rng.chance(1, 7) else 0] for i in range(ns)]
    if ns >= 2 and rng.chance(1, 12):
        servers[rng.below(ns)] = list(servers[rng.below(ns)])  # the same nameserver object listed twice
    nsfx = rng.choice([0, 0, 1, 2, 2, 3])
    search = [rng.choice(SUFFIXES) for _ in range(nsfx)]
    if rng.chance(1, 25):
        search.append([b"s" * 63, b"t" * 63, b"u" * 63, b""])
    domain = rng.choice([None, [b""], [b"dom", b""], [b"example", b""]])
    cfg = {"servers": servers, "search": [hexl(s) for s in search], "domain": None if domain is None else hexl(domain),
           "ndots": rng.choice([None, None, 0, 1, 2, 3, 255]), "usd": rng.below(2), "timeout": rng.choice(TIMEOUTS),
           "lifetime": rng.choice(LIFETIMES), "rsf": rng.below(2), "cache": rng.choice([0, 1, 1, 1, 2])}
    if cfg["cache"] == 2:
        cfg["lru"] = rng.choice([50, 50, 1, 2, 3])
    if rng.chance(1, 5):
        cfg["flags"] = rng.choice([0, 0, 0x0100, 0x0110, 0x0020])  # 0 is a valid, falsy, flags value
    if rng.chance(1, 6):
        cfg["edns"] = rng.choice([[0, 1232], [0x8000, 4096], [0, 512]])
    if rng.chance(1, 6) and cfg.get("route") != "str":
        cfg["nstuple"] = 1
    if rng.chance(1, 40):
        cfg["timeout"] = 0  # falsy option value
    if rng.chance(1, 40):
        cfg["lifetime"] = 0
    if rng.chance(1, 4):
        # object route: nameservers given as address strings (enriched to Do53Nameserver for every candidate); "wire" runs the
        # real Do53Nameserver methods over fakes of dns.query / dns.asyncquery
        cfg["route"] = rng.choice(["str", "wire", "wire"])
        cfg["servers"] = [[i, 0] for i in range(ns)]
    return cfg


def gen_req(rng, first):
    cls = CH if rng.chance(1, 10) else IN
    ty = rng.choice([TXT, CNAME]) if cls == CH else rng.choice(QTYPES_IN)
    if rng.chance(1, 60):
        ty = rng.choice([ANY, 41, 250, 128])
    if rng.chance(1, 80):
        cls = rng.choice([254, 255])
    rq = {"qname": hexl(gen_qname(rng)), "ty": ty, "cls": cls, "tcp": 1 if rng.chance(1, 6) else 0, "rona": 0 if rng.chance(1, 4) else 1,
          "search": rng.choice([None, 0, 1, 1, 1]), "life": rng.choice([None, None, None] + LIFETIMES + [0]),
          "gap": 0 if first else rng.choice([0, 0, 1, 1000, 4999, 5000, 5001, 30000, 60000, 301000, 10 ** 7])}
    if rng.chance(1, 4):
        rq["src"] = rng.choice(["192.0.2.7", "2001:db8::7"])
    if rng.chance(1, 4):
        rq["sport"] = rng.choice([1, 5353, 65535])
    if rng.chance(1, 4):
        rq["text"] = 1  # name, type and class handed over as text
    elif rng.chance(1, 3):
        rq["call"] = rng.choice(["pos", "omit", "module", "query", "enum"])
        if rq["call"] == "omit":
            rq.update({"ty": A, "cls": IN, "tcp": 0, "rona": 1, "search": None, "life": None})
            rq.pop("src", None)
            rq.pop("sport", None)
        if rq["call"] == "query":
            rq["search"] = 1
    if first and rng.chance(1, 12):
        rq["gap"] = 2 ** 32 * 1000 + rng.choice([0, 5, 999])  # a clock beyond 2^32 seconds
    return rq


def rr(owner, cls, ty, ttl, target=None):
    return [hexl(owner), cls, ty, ttl, None if target is None else hexl(target)]


def gen_answer_section(rng, q, cls, ty, shape):
    """answer/authority sections for a response to (q, cls, ty); q is a label list"""
    ttl = lambda: rng.choice(TTL_POOL)
    swap = lambda n: [bytes(l).swapcase() for l in n] if rng.chance(1, 5) else list(n)
    an, au = [], []
    other_ty = TXT if ty != TXT else (A if cls == IN else CNAME)
    if shape == "answer":
        an.append(rr(swap(q), cls, ty, ttl()))
        if rng.chance(1, 4):
            an.append(rr([b"unrelated", b""], cls, other_ty, ttl()))
    elif shape == "nodata":
        if rng.chance(1, 3) and other_ty != CNAME:
            an.append(rr(q, cls, other_ty, ttl()))  # wrong type only
        if rng.chance(1, 5):
            an.append(rr(q, IN if cls == CH else CH, TXT, ttl()))  # wrong class only
    elif shape in ("chain", "chain-nodata", "longchain", "loop"):
        if ty == CNAME:
            an.append(rr(swap(q), cls, CNAME, ttl(), [b"t0", b"example", b""]))
        else:
            n = {"chain": rng.choice([1, 2, 3, 14, 15]), "chain-nodata": rng.choice([1, 2, 15]), "longchain": rng.choice([16, 17, 20]),
                 "loop": rng.choice([1, 2, 3])}[shape]
            names = [list(q)] + [[b"c%d" % i, b"example", b""] for i in range(1, n + 1)]
            links = []
            for i in range(n):
                links.append(rr(swap(names[i]), cls, CNAME, ttl(), names[i + 1]))
            if shape == "loop":
                links.append(rr(names[n], cls, CNAME, ttl(), names[0]))
            elif shape in ("chain", "longchain"):
                links.append(rr(swap(names[n]), cls, ty, ttl()))
            if rng.chance(1, 5) and n >= 1:
                # a CNAME RRset with two records: only the first one is followed
                i = rng.below(n)
                links.insert(i + 1, rr(names[i], cls, CNAME, ttl(), [b"dead", b"end", b""]))
            elif rng.chance(1, 3):
                links = rng.shuffle(links)
            an += links
    if rng.chance(1, 2) and shape in ("nodata", "chain-nodata", "nx"):
        base = list(q)
        if shape == "chain-nodata" and an:
            base = unhexl(an[-1][4]) if an[-1][4] else base
        k = rng.below(len(base)) if base else 0
        au.append([hexl(swap(base[k:]) if base[k:] else [b""]), cls, ttl(), ttl()])
        if rng.chance(1, 4):
            au.append([hexl([b""]), cls, ttl(), ttl()])
    if rng.chance(1, 8) and shape in ("nodata", "chain-nodata", "nx"):
        au.insert(0, [hexl(list(q)), IN if cls == CH else CH, 0, 0])  # an SOA of another class must not count
    return an, au


def gen_outcome(rng, profile, cfg, q, cls, ty, timeout_ms):
    """one script step for a query for (q, cls, ty) given `timeout_ms`"""
    table = {
        "mixed": [("answer", 10), ("nodata", 5), ("chain", 5), ("chain-nodata", 2), ("longchain", 2), ("loop", 2), ("nx", 12), ("nx-answer", 2),
                  ("yx", 2), ("servfail", 9), ("rcode", 5), ("nonresp", 2), ("form", 4), ("eof", 2), ("os", 5), ("notimpl", 1), ("trunc", 9),
                  ("timeout", 8), ("other", 4), ("slow", 4)],
        "failing": [("servfail", 10), ("rcode", 8), ("form", 6), ("eof", 3), ("os", 10), ("notimpl", 2), ("trunc", 10), ("longchain", 3),
                    ("nonresp", 3), ("nx-answer", 3), ("timeout", 2), ("other", 2), ("answer", 1), ("nx", 2)],
        "stalling": [("servfail", 14), ("timeout", 12), ("other", 8), ("trunc", 6), ("slow", 6), ("os", 1), ("answer", 1), ("nx", 1)],
        "nx": [("nx", 30), ("servfail", 4), ("os", 3), ("trunc", 3), ("timeout", 2), ("answer", 2), ("nodata", 1), ("nx-answer", 2), ("yx", 1)],
        "good": [("answer", 12), ("chain", 6), ("nodata", 5), ("chain-nodata", 3), ("nx", 4), ("trunc", 5), ("servfail", 2), ("timeout", 1)],
    }[profile]
    tot = sum(w for _, w in table)
    x = rng.below(tot)
    for kind, w in table:
        if x < w:
            break
        x -= w
    near = [max(0, timeout_ms - 1), timeout_ms, timeout_ms + 1]
    d = rng.choice(DUR_POOL + near) if rng.chance(1, 3) else rng.choice([0, 1, 2, 5, 10, 50])
    if kind == "slow":
        d = rng.choice(near + [timeout_ms // 2, timeout_ms * 2])
        kind = rng.choice(["answer", "servfail", "nx", "os"])
    v = rng.below(8)
    if kind in ("form", "eof", "os", "notimpl", "trunc", "timeout", "other"):
        return {"k": "x", "e": kind, "v": v, "d": d}
    spec = {"k": "r", "d": d, "rcode": NOERROR, "qr": 1, "qc": 1, "an": [], "au": []}
    if kind in ("answer", "nodata", "chain", "chain-nodata", "longchain", "loop"):
        spec["an"], spec["au"] = gen_answer_section(rng, q, cls, ty, kind)
    elif kind == "nx":
        spec["rcode"] = NXDOMAIN
        if rng.chance(1, 4) and ty != CNAME:
            spec["an"], _ = gen_answer_section(rng, q, cls, ty, "chain-nodata")
        _, spec["au"] = gen_answer_section(rng, q, cls, ty, "nx")
    elif kind == "nx-answer":
        spec["rcode"] = NXDOMAIN
        spec["an"], spec["au"] = gen_answer_section(rng, q, cls, ty, rng.choice(["answer", "chain"]))
    elif kind == "yx":
        spec["rcode"] = YXDOMAIN
    elif kind == "servfail":
        spec["rcode"] = SERVFAIL
    elif kind == "rcode":
        spec["rcode"] = rng.choice(RCODES_OTHER)
    elif kind == "nonresp":
        if rng.chance(1, 2):
            spec["qr"] = 0
        else:
            spec["qc"] = rng.choice([0, 2])
        spec["rcode"] = rng.choice([NOERROR, NOERROR, NXDOMAIN, SERVFAIL])
        if rng.chance(1, 2):
            spec["an"], spec["au"] = gen_answer_section(rng, q, cls, ty, "answer")
    return spec


def gen_run(ctx, rng):
    cfg = gen_cfg(rng)
    nreq = rng.choice([1, 1, 2, 2, 3])
    reqs = [gen_req(rng, i == 0) for i in range(nreq)]
    if nreq > 1 and rng.chance(2, 3):
        for r in reqs[1:]:  # same question again: exercises the cache probes
            if rng.chance(2, 3):
                r["qname"], r["ty"], r["cls"] = reqs[0]["qname"], reqs[0]["ty"], reqs[0]["cls"]
                if rng.chance(1, 4):
                    r["qname"] = hexl([bytes(l).swapcase() for l in unhexl(r["qname"])])
    if nreq == 3 and rng.chance(1, 3):
        # the same name asked for type X, then type Y, then X again: a positive entry and an NXDOMAIN entry may both be live
        tys = rng.shuffle([A, TXT, AAAA, MX])[:2]
        for r, ty in zip(reqs, [tys[0], tys[1], tys[0]]):
            r["qname"], r["cls"], r["ty"] = reqs[0]["qname"], IN, ty
        for r in reqs[1:]:
            r["gap"] = rng.choice([0, 1, 1000, 5000])
        cfg["cache"] = rng.choice([1, 2])
    for r in reqs:  # the call routes that fix some arguments, applied after the requests were related to each other
        if r.get("call") == "omit":
            r.update({"ty": A, "cls": IN, "tcp": 0, "rona": 1, "search": None, "life": None})
            r.pop("src", None)
            r.pop("sport", None)
        if r.get("call") == "query":
            r["search"] = 1
    profile = rng.choice(["mixed", "mixed", "mixed", "failing", "failing", "stalling", "stalling", "nx", "nx", "good"])
    if nreq == 3 and rng.chance(1, 2):
        profile = rng.choice(["good", "nx", "mixed"])
    case = {"kind": "run", "cfg": cfg, "reqs": reqs, "script": [], "profile": profile}

    abort_at = rng.below(6) if rng.chance(1, 12) else None
    hdr_all = rng.choice([1, 2, 4, 5, 4]) if (cfg.get("route") == "wire" and rng.chance(1, 4)) else None  # every server answers alike

    def gen(world, ns, request, timeout_ms, tcp):
        q = request.question[0]
        if abort_at is not None and world.pos == abort_at:
            return {"k": "x", "e": "abort", "v": 0, "d": rng.choice([0, 1, 5])}
        st = gen_outcome(rng, profile, cfg, list(q.name.labels), int(q.rdclass), int(q.rdtype), timeout_ms)
        if cfg.get("route") == "wire" and (hdr_all is not None or rng.chance(1, 4)):
            # a header-only reply (no question section): a response for FORMERR/SERVFAIL/NOTIMP/REFUSED, not one otherwise
            st = {"k": "r", "d": rng.choice([0, 1, 5, 50]), "rcode": hdr_all if hdr_all is not None else rng.choice([0, 1, 2, 3, 4, 4, 5, 5, 9]),
                  "qr": 1, "qc": 0, "an": [], "au": [], "hdr": 1}
        if cfg.get("route") == "wire" and rng.chance(1, 2):
            # junk datagrams before the reply: the transport is told to ignore them, the outcome is the scripted one
            st["pre"] = [rng.choice(["garbage", "badid", "badsrc"]) for _ in range(rng.range(1, 3))]
        return st

    return case, gen


def gen_churn(ctx, rng):
    """many names through a tiny (or no, or plain) cache: entries expire, are asked again, and are pushed out"""
    names = [[b"a", b""], [b"b", b""], [b"c", b""], [b"d", b""], [b"e", b"example", b""]]
    ttls = rng.choice([[1], [5], [1, 5], [1, 30], [5, 60]])
    cache = rng.choice([0, 1, 2, 2, 2, 2])
    cfg = {"servers": [[0, 0]] if rng.chance(2, 3) else [[0, 0], [1, 0]], "search": [], "domain": None, "ndots": None, "usd": 0,
           "timeout": 2000, "lifetime": 5000, "rsf": rng.below(2), "cache": cache}
    if cache == 2:
        cfg["lru"] = rng.choice([1, 2, 2, 3])
    big = 1000 * max(ttls)
    reqs = []
    for i in range(rng.range(4, 9)):
        q = rng.choice(names[: rng.choice([2, 3, 4, 5])])
        if rng.chance(1, 8):
            q = [bytes(l).swapcase() for l in q]
        reqs.append({"qname": hexl(q), "ty": rng.choice([A, A, A, TXT]), "cls": IN, "tcp": 0, "rona": 0 if rng.chance(1, 5) else 1, "search": None,
                     "life": None, "gap": 0 if i == 0 else rng.choice([0, 0, 1, 500, big - 1, big, big + 1, 2 * big, 3 * big])})
    case = {"kind": "run", "cfg": cfg, "reqs": reqs, "script": [], "profile": "churn"}

    def gen(world, ns, request, timeout_ms, tcp):
        q = request.question[0]
        x = rng.below(20)
        d = rng.choice([0, 1, 2, 10])
        ql, qc, qt = list(q.name.labels), int(q.rdclass), int(q.rdtype)
        if x < 13:
            return {"k": "r", "d": d, "rcode": NOERROR, "qr": 1, "qc": 1, "an": [rr(ql, qc, qt, rng.choice(ttls))], "au": []}
        if x < 15:
            return {"k": "r", "d": d, "rcode": NOERROR, "qr": 1, "qc": 1, "an": [], "au": [[hexl(ql), qc, rng.choice(ttls), rng.choice(ttls)]]}
        if x < 17:
            return {"k": "r", "d": d, "rcode": NXDOMAIN, "qr": 1, "qc": 1, "an": [], "au": [[hexl(ql), qc, rng.choice(ttls), rng.choice(ttls)]]}
        return gen_outcome(rng, "mixed", cfg, ql, qc, qt, timeout_ms)

    return case, gen


def gen_qnames_case(rng):
    cfg = gen_cfg(rng)
    q = gen_qname(rng)
    if rng.chance(1, 10):
        q = [rng.bytes(rng.choice([1, 30, 63]), [0x61, 0x41, 0x2E, 0x00]) for _ in range(rng.range(1, 5))]
        if sum(len(l) + 1 for l in q) > 254:
            q = q[:3]
    return {"kind": "qnames", "cfg": {k: cfg[k] for k in ("search", "domain", "ndots", "usd")}, "qname": hexl(q),
            "search": rng.choice([None, 0, 1, 1])}


def gen_chain_case(rng):
    cls = CH if rng.chance(1, 8) else IN
    ty = rng.choice([TXT, CNAME]) if cls == CH else rng.choice(QTYPES_IN)
    q = rng.choice([[b"a", b""], [b"www", b"Example", b""], [b"x", b"y", b"z", b"example", b""], [b""], [b"rel"], []])
    shape = rng.choice(["answer", "nodata", "nodata", "chain", "chain", "chain-nodata", "chain-nodata", "longchain", "loop", "nx"])
    spec = {"k": "r", "d": 0, "rcode": NOERROR, "qr": 1, "qc": 1, "an": [], "au": []}
    absq = q if (q and q[-1] == b"") else q + [b""]
    spec["an"], spec["au"] = gen_answer_section(rng, absq, cls, ty, shape if shape != "nx" else "nodata")
    if shape == "nx" or rng.chance(1, 6):
        spec["rcode"] = NXDOMAIN
    if rng.chance(1, 20):
        spec["qr"] = 0
    if rng.chance(1, 20):
        spec["qc"] = rng.choice([0, 2])
    if rng.chance(1, 6) and spec["an"]:
        spec["an"] = spec["an"] + [list(rng.choice(spec["an"]))]  # duplicate RRset key
        spec["an"][-1][3] = rng.choice(TTL_POOL)
    return {"kind": "chain", "qname": hexl(absq), "cls": cls, "ty": ty, "resp": spec}


def gen_rname(ctx, rng):
    """a `resolve_name` call; often the first lookup uses up a good part of the lifetime"""
    cfg = gen_cfg(rng)
    if not cfg["servers"]:
        cfg["servers"] = [[0, 0]]
    fam = rng.choice(["unspec", "unspec", "unspec", "inet", "inet6"])
    rq = {"qname": hexl(gen_qname(rng)), "family": fam, "tcp": 1 if rng.chance(1, 8) else 0, "rona": 0 if rng.chance(1, 3) else 1,
          "search": rng.choice([None, 0, 1, 1]), "life": rng.choice([None, None] + LIFETIMES), "gap": rng.choice([0, 0, 1000])}
    if rng.chance(1, 5):
        rq["text"] = 1
    if rng.chance(1, 6):
        rq["src"] = "192.0.2.7"
    life = cfg["lifetime"] if rq["life"] is None else rq["life"]
    if rng.chance(1, 2):
        cfg["timeout"] = max(cfg["timeout"], rng.choice([life, 2 * life, 4000]))
    profile = rng.choice(["good", "good", "mixed", "stalling", "nx", "slowfirst", "slowfirst", "slowfirst"])
    case = {"kind": "rname", "cfg": cfg, "nreq": rq, "script": [], "profile": profile}
    state = {"n": 0}

    def gen(world, ns, request, timeout_ms, tcp):
        q = request.question[0]
        state["n"] += 1
        if profile == "slowfirst":
            if state["n"] == 1:
                # the first reply takes a good part of the lifetime
                d = rng.choice([life // 2, (3 * life) // 4, max(life - 1, 0), life // 4])
                spec = {"k": "r", "d": d, "rcode": NOERROR, "qr": 1, "qc": 1, "an": [], "au": []}
                spec["an"], spec["au"] = gen_answer_section(rng, list(q.name.labels), int(q.rdclass), int(q.rdtype), rng.choice(["nodata", "answer", "chain"]))
                return spec
            return gen_outcome(rng, rng.choice(["stalling", "stalling", "good"]), cfg, list(q.name.labels), int(q.rdclass), int(q.rdtype), timeout_ms)
        return gen_outcome(rng, profile, cfg, list(q.name.labels), int(q.rdclass), int(q.rdtype), timeout_ms)

    return case, gen


def gen_entry(ctx, rng):
    """the other composite entry points: canonical_name, resolve_address (one lookup each), zone_for_name (a lookup per
    ancestor under one lifetime, synchronous only)"""
    c, gen = gen_rname(ctx, rng)
    c["entry"] = rng.choice(["canonical_name", "resolve_address", "zone_for_name", "zone_for_name"])
    rq = c["nreq"]
    rq.pop("text", None)
    rq.pop("src", None)
    if c["entry"] == "resolve_address":
        rq["addr"] = rng.choice(["10.1.2.3", "2001:db8::1", "192.0.2.255"])
    if c["entry"] == "zone_for_name":
        rq["qname"] = hexl(rng.choice([[b"a", b"example", b""], [b"www", b"sub", b"example", b""], [b"x", b""], [b""]]))
        c["cfg"]["cache"] = rng.choice([0, 1])
    if c["profile"] == "slowfirst":
        c["profile"] = "nx"
    return c, gen


def gen_plumb_case(rng):
    return {"kind": "plumb", "cls": rng.choice(["do53", "do53", "dot", "doh", "doq"]), "max": rng.below(2), "timeout": rng.choice(TIMEOUTS + [0, 1]),
            "src": rng.choice([None, "192.0.2.7", "2001:db8::7"]), "sport": rng.choice([0, 1, 5353, 65535]), "orr": rng.below(2), "it": rng.below(2),
            "p": {"port": rng.choice([53, 853, 5300, 0, 65535]), "host": rng.choice([None, "dns.example"]), "verify": rng.choice([True, False, "/ca.pem"]),
                  "boot": rng.choice([None, "10.0.0.9"]), "get": rng.below(2)}}


def gen_timeout_case(rng):
    life_res = rng.choice(LIFETIMES + [0])
    life_arg = rng.choice([None, None] + LIFETIMES + [0])
    life = life_res if life_arg is None else life_arg
    start = rng.choice([0, 1000, 5000, 10 ** 6])
    delta = rng.choice([0, 1, life - 1, life, life + 1, life // 2, -1, -999, -1000, -1001, -125, -5000, 10 ** 6, rng.below(9000)])
    return {"kind": "timeout", "life_res": life_res, "life_arg": life_arg, "timeout": rng.choice(TIMEOUTS + [0]), "start": start,
            "now": start + delta}


def case_key(c):
    return json.dumps(c, sort_keys=True)


def generate(ctx: Ctx, scale: float, rng):
    n = lambda q: max(1, int(q * scale))
    for _ in range(n(5000)):
        c, gen = gen_run(ctx, rng)
        nt = eval_case(ctx, c, gen)
        ctx.case(("run", case_key(c)), nontrivial=nt, sample=c if len(c["script"]) < 8 else None)
        ctx.count("profile." + c["profile"])
    for _ in range(n(1500)):
        c = gen_qnames_case(rng)
        ctx.case(("qnames", case_key(c)), sample=c)
        eval_case(ctx, c)
    for _ in range(n(600)):
        c, gen = gen_churn(ctx, rng)
        nt = eval_case(ctx, c, gen)
        ctx.case(("churn", case_key(c)), nontrivial=nt, sample=c if len(c["script"]) < 6 else None)
        ctx.count("churn.cache." + ("none" if c["cfg"]["cache"] == 0 else "plain" if c["cfg"]["cache"] == 1 else f"lru{c['cfg']['lru']}"))
    for _ in range(n(1200)):
        c, gen = gen_rname(ctx, rng)
        eval_case(ctx, c, gen)
        ctx.case(("rname", case_key(c)), sample=c if len(c["script"]) < 6 else None)
    for _ in range(n(400)):
        c, gen = gen_entry(ctx, rng)
        eval_case(ctx, c, gen)
        ctx.case(("entry", case_key(c)), sample=c if len(c["script"]) < 6 else None)
    for _ in range(n(300)):
        c = gen_plumb_case(rng)
        ctx.case(("plumb", case_key(c)), sample=c)
        eval_case(ctx, c)
    for _ in range(n(600)):
        c = gen_timeout_case(rng)
        ctx.case(("timeout", case_key(c)), sample=c)
        eval_case(ctx, c)
    for _ in range(n(1500)):
        c = gen_chain_case(rng)
        ctx.case(("chain", case_key(c)), sample=c)
        eval_case(ctx, c)


ALPHABET = [
    {"k": "r", "d": 1, "rcode": NOERROR, "qr": 1, "qc": 1, "an": [[hexl([b"a", b""]), IN, A, 60, None]], "au": []},
    {"k": "r", "d": 1, "rcode": NOERROR, "qr": 1, "qc": 1, "an": [], "au": []},
    {"k": "r", "d": 1, "rcode": NXDOMAIN, "qr": 1, "qc": 1, "an": [], "au": []},
    {"k": "r", "d": 1, "rcode": SERVFAIL, "qr": 1, "qc": 1, "an": [], "au": []},
    {"k": "r", "d": 1, "rcode": YXDOMAIN, "qr": 1, "qc": 1, "an": [], "au": []},
    {"k": "x", "e": "os", "v": 0, "d": 1},
    {"k": "x", "e": "trunc", "v": 0, "d": 1},
    {"k": "x", "e": "timeout", "v": 0, "d": 0},
]


def exhaustive(ctx: Ctx, maxlen: int):
    """all scripts of length <= maxlen over 2 servers and the 8-outcome alphabet, two configurations"""
    import itertools

    for rsf, search in ((0, []), (1, [hexl([b"s", b""])])):
        cfg = {"servers": [[0, 0], [1, 0]], "search": search, "domain": None, "ndots": None, "usd": 1, "timeout": 250, "lifetime": 500,
               "rsf": rsf, "cache": 1}
        for ln in range(maxlen + 1):
            for combo in itertools.product(range(len(ALPHABET)), repeat=ln):
                c = {"kind": "run", "cfg": cfg, "profile": "exhaustive",
                     "reqs": [{"qname": hexl([b"a"]), "ty": A, "cls": IN, "tcp": 0, "rona": 1, "search": None, "life": None, "gap": 0}],
                     "script": [dict(ALPHABET[i]) for i in combo]}
                ctx.case(("ex", rsf, combo), sample=None)
                eval_case(ctx, c)
                ctx.count("exhaustive")


# ------------------------------------------------------------------------------------------------
# sync = async, structural part of the tie: the two `resolve` bodies must be the same program up to `await`,
# the backend's sleep, `async_query(..., backend=backend)` and the backend default
# ------------------------------------------------------------------------------------------------
def _normalised_resolve_body(fn, is_async):
    import ast
    import inspect
    import textwrap

    tree = ast.parse(textwrap.dedent(inspect.getsource(fn)))
    f = tree.body[0]
    body = list(f.body)
    if body and isinstance(body[0], ast.Expr) and isinstance(getattr(body[0], "value", None), ast.Constant) \
            and isinstance(body[0].value.value, str):
        body = body[1:]  # docstring

    class Norm(ast.NodeTransformer):
        def visit_Await(self, node):
            return self.visit(node.value)

        def visit_Attribute(self, node):
            self.generic_visit(node)
            src = ast.unparse(node)
            if src == "dns.resolver._Resolution":
                return ast.Name(id="_Resolution", ctx=node.ctx)
            if src == "backend.sleep":
                return ast.Attribute(value=ast.Name(id="time", ctx=ast.Load()), attr="sleep", ctx=node.ctx)
            if src == "nameserver.async_query":
                return ast.Attribute(value=node.value, attr="query", ctx=node.ctx)
            return node

        def visit_Call(self, node):
            self.generic_visit(node)
            node.keywords = [k for k in node.keywords if not (k.arg == "backend" and ast.unparse(k.value) == "backend")]
            return node

        def visit_If(self, node):
            if ast.unparse(node.test) == "not backend" and len(node.body) == 1 and not node.orelse \
                    and ast.unparse(node.body[0]).startswith("backend = dns.asyncbackend.get_default_backend"):
                return None
            self.generic_visit(node)
            return node

    out = []
    for st in body:
        st = Norm().visit(st) if is_async else st
        if st is not None:
            out.append(ast.unparse(ast.fix_missing_locations(st)))
    return "\n".join(out).split("\n")


def structural_sync_async(ctx: Ctx):
    """fail the tie if the asyncio `resolve` is not textually the synchronous one modulo await/backend calls"""
    import difflib

    try:
        a = _normalised_resolve_body(dns.resolver.Resolver.resolve, False)
        b = _normalised_resolve_body(dns.asyncresolver.Resolver.resolve, True)
    except BaseException as e:  # source not available or not parseable: nothing can be concluded structurally
        if _harness_signal(e):
            raise
        ctx.notes.append(f"structural sync/async comparison not possible: {e!r}")
        ctx.extra["async_loop_structurally_equal"] = None
        return
    same = a == b
    ctx.extra["async_loop_structurally_equal"] = same
    ctx.count("async.structural." + ("equal" if same else "differs"))
    if not same:
        diff = list(difflib.unified_diff(a, b, "dns/resolver.py Resolver.resolve", "dns/asyncresolver.py Resolver.resolve (normalised)", lineterm=""))
        ctx.fail("C16/async/loop-text-differs",
                 "the asyncio resolve loop is not the synchronous one modulo await/backend calls: " + " | ".join(diff[:12]),
                 {"kind": "structural", "case": {"kind": "structural"}, "diff": diff})


def run(ctx: Ctx):
    ctx.extra["backoff_sleep_variant"] = probe_variant()
    structural_sync_async(ctx)
    for p in sorted(glob.glob(os.path.join(VERIF, "corpus", "C16", "*.json"))):
        c = json.load(open(p))
        ctx.case(("corpus", p), sample=None)
        eval_case(ctx, c)
        ctx.count("corpus")
    exhaustive(ctx, 3 if ctx.tier == "quick" else 5)
    # core.Rng streams of neighbouring seeds are shifts of one another (state = seed * GOLDEN + c); forking
    # through an output value decorrelates them
    generate(ctx, 1 if ctx.tier == "quick" else 12, ctx.rng.fork(16).fork(ctx.seed))


def search(ctx: Ctx):
    """failing-input search on the implementation: the disagreeing cases again, then a fresh, larger budget"""
    for m in ctx.mismatches[:50]:
        if m.case is not None:
            eval_case(ctx, json.loads(json.dumps(m.case)))
    generate(ctx, 2 if ctx.tier == "quick" else 20, ctx.rng.fork(7))


def replay(ctx: Ctx, obj: dict):
    """re-evaluate the recorded case; it "still fails" if the recorded clause fails again (any clause, for a file
    without a signature such as a corpus witness)"""
    probe_variant()
    eval_case(ctx, json.loads(json.dumps(obj.get("case", obj))))  # a replay file, or a bare corpus case
    sig = obj.get("signature")
    fs = [f for f in ctx.failures if sig is None or f.signature == sig]
    return [f.what for f in fs]

"""C14 — TSIG MACs follow RFC 8945; genuine messages verify, altered ones never do.

Tie.  `dns.tsig.hmac` is rebound to a recording shim, so every octet passed to `update()` and every
digest taken is observed; `dns.message.time` is rebound to a fixed clock.  Correspondence (model driver vs the
working tree): the context after `_digest`, `sign`, `validate`, the TSIG RDATA codec, the signing tail of
`Message.to_wire`, the reader (`from_wire` with keyring / request_mac / multi / tsig_ctx) including the exact
octets that reach the MAC comparison, and a verdict for *every single-bit alteration* of signed messages.
The external HMAC is handed to the model as its finite graph at the points the implementation evaluated it.

Oracle (the property itself, on the implementation only): an independent RFC 1035 parser + RFC 8945 §4.3
composition + Python's `hmac` recompute every MAC the library produced; every message the library signs (and every
message the independent signer signs) must validate; every single-bit alteration must be rejected unless the
RFC 8945 digest components of the altered message are unchanged (message ID, ASCII case of key / algorithm name)
or the record is no longer a TSIG record (unsigned result, left to the caller); wrong key / key name / algorithm /
time / request MAC / TSIG error must raise; a misplaced TSIG must be a FormError.
"""
import copy
import glob
import hashlib
import hmac as _real_hmac
import json
import os
import struct

import dns.exception
import dns.flags
import dns.message
import dns.name
import dns.rcode
import dns.rdata
import dns.rdataclass
import dns.rdatatype
import dns.renderer
import dns.rrset
import dns.tsig
import dns.tsigkeyring
import dns.update

from harness import core
from harness.core import Ctx, enc_labels, hx

RULE = (
    "one SplitMix64 stream: messages (queries, responses, NOTIFY, dynamic updates; 0-6 records of A/AAAA/NS/MX/TXT/SOA/"
    "CNAME/private types; with and without EDNS; key names sharing suffixes with the question so the TSIG owner is "
    "compressed; mixed-case key names) x all 9 HMAC algorithms x fudge {0,1,300,65535} x original id equal/unequal to "
    "the id x request MAC absent/present x other data; rejection variants (secret, key name, algorithm, time at "
    "fudge+-{0,1}, request MAC, TSIG error codes, placement); multi-message sequences of 2-6 envelopes with random "
    "signed subsets signed by the library or by the independent signer; function-level calls with arbitrary wires; "
    "TSIG RDATA octet soups.  A case is non-trivial if its key (kind + all parameters) is new."
)
TRUSTED_BASE = [
    "Python hmac/hashlib (MD5, SHA-1, SHA-2) as the HMAC of RFC 2104/4635; struct big-endian packing",
    "the independent RFC 1035 section walker and RFC 8945 composition written in harness/props/C14.py (oracle side)",
]
ASSUMPTIONS = [
    "HMAC is an opaque function H in every theorem; 'no accepted alteration' (altered_bit_rejected) is proved from the explicit hypothesis that, under the secrets the keyring can resolve, only the genuine (MAC input, MAC) pair verifies (unforgeability); request_mac_binding_rejects from explicit collision-freeness; neither is an axiom",
    "the reader model is a skeleton: owner names and RDATA of records other than TSIG are skipped, not decoded (C01-C03 cover them); it accepts a superset of what the real reader accepts, so 'rejected or pair changed' transfers; for altered messages only 'accepted as validated' vs not is compared with the code",
    "name decoding inside the message uses a fuel-driven decoder (so that the kernel can evaluate the reader) which is proved equal to C01's Model.fromWireAux (name_decoding_is_c01), so it rests on lean/Proofs/NameWire.lean; C01's model is tied to dns.name.from_wire_parser by C01's correspondence check",
    "the message ID and the encodings (case, compression) of the TSIG owner / algorithm names are not authenticated by RFC 8945 (original ID and canonical names are digested); bitflip_changes_input proves that an accepted alteration there leaves the canonical names, hence every digest component, unchanged",
    "an alteration that turns the TSIG RR into a non-TSIG record yields an unsigned message (had_tsig False); rejecting unsigned answers to signed queries is the caller's rule (dns.query / C18), not part of validation",
    "callable keyrings are modelled as functions of the owner name (what a callable does with the message, i.e. GSS-TSIG negotiation, and GSS-TSIG itself are outside the model); in the tie a callable is a finite table",
    "sign_then_read takes the owner-name encoding as any octet string that reads back as a name equal to the key's (OwnerEncodes); this is discharged for the uncompressed encoding and, by compressed_owner_encodes / sign_then_read_compressed, for what C01's model of the compressing name writer (toWireC) appends against any compression table that is sound in the buffer; that the table the real renderer holds at that point is sound is the invariant C01's toWireC_sound maintains along rendering, tied to the code by C01/C03 and by this check's correspondence on every rendered message",
    "in later envelopes of a multi-message exchange only the timers are digested (RFC 8945 5.3.1), so error/other data and the names of those TSIG RRs are outside the 'determined by the MAC input' claim; RFC 8945 5.3.1 reading: the prior MAC is digested like a request MAC (with its 2-octet length), as BIND does",
    "the retained as-shipped variant of the TTL decision point (strict = false) is kept in the model only to state what the repair 62699df changed; the check probes the working tree and demands correspondence with the current variant",
]
LEVEL = {
    "text": "Lean 4 theorems over an executable model of dns/tsig.py, the TSIG RDATA codec, Message.use_tsig, the signing tail of Message.to_wire / Renderer._write_tsig and the TSIG part of dns.message._WireReader (Key, dict and callable keyrings), HMAC being an arbitrary function: (1) the regenerated algorithm table is exactly RFC 8945 section 6; (2) the octets fed to the MAC equal an independently written RFC 8945 4.3 / 5.3.1 composition for requests, responses bound to a request MAC, and every signed envelope of an exchange with any subset of unsigned intermediates; (3) sign-render-read: for every algorithm of the table a message signed by the model of to_wire is accepted by validate and by the reader with the same key anywhere in the fudge window, the reader reports the TSIG written and the body signed and hands on the signer's context, and a whole multi-message exchange with any pattern of signed/unsigned envelopes is accepted; (4) the complete rejection decision list, misplaced TSIG = BadTSIG; (5) request-MAC binding; (6) acceptance is sound for every keyring, the MAC input determines every RFC 8945 digest component (message from octet 2, canonical names, times, error, other), hence every single-bit alteration is rejected, or changes the (input, MAC) pair, or lies in the ID / the encodings of the two names with all digest components unchanged; with the TTL repair in, the TTL field is covered; (7) the reader's name decoding equals C01's fromWireAux, and the compressed TSIG owner name written by C01's toWireC against any sound table is accepted by the reader (sign_then_read_compressed); (8) with ignore_trailing an unsigned envelope is digested as the message only and a whole exchange with trailing octets after any envelope is accepted (unsigned_envelope_digests_message_only, sign_then_read_exchange_trailing; repair 1f3fc58). Routes driven: Message.use_tsig/to_wire (first and second rendering), Renderer.add_tsig/add_multi_tsig, make_response, from_wire with Key/dict/callable/True/False keyrings, continue_on_error, tsigkeyring text forms, dns.tsig.sign/validate/_digest directly. Tied to the code by a differential check of the exact octets passed to update(), of every outcome and of the verdict on every single-bit alteration of ~70 signed messages per run; an independent RFC 1035/8945 reference recomputes every MAC with Python's hmac and judges every alteration.",
    "note": "Trusted: Lean kernel + propext/Classical.choice/Quot.sound; the statements in lean/Props/C14.lean; the harness generators and the independent reference in harness/props/C14.py; Python hmac/hashlib. HMAC strength appears only as explicit hypotheses. Skeleton reader (other records skipped). The TTL finding is repaired in /repo (62699df); the as-shipped variant is retained in the model only for ttl_bit_accepted_in_asShipped_variant.",
    "technique": "Lean 4 proof (byte-composition equality, decision logic, injectivity of a self-delimiting encoding incl. prefix-freeness of wire names, codec round trips, positional analysis of single-bit flips) + model-vs-implementation correspondence with recorded MAC input + independent-reference oracle",
    "design_ref": "DESIGN.md §7 C14",
}

# ------------------------------------------------------------------------------------------------
# shims
# ------------------------------------------------------------------------------------------------
HASH_IDS = {"md5": 1, "sha1": 2, "sha224": 3, "sha256": 4, "sha384": 5, "sha512": 6}


class RecHmac:
    """stand-in for an `hmac.HMAC` object: records what is fed and every digest taken"""

    def __init__(self, key, digestmod, log):
        self._h = _real_hmac.new(key, digestmod=digestmod)
        self.key = bytes(key)
        self.data = b""
        self.log = log
        self.name = self._h.name
        self.digest_size = self._h.digest_size

    def update(self, d):
        self.data += bytes(d)
        return self._h.update(d)

    def digest(self):
        out = self._h.digest()
        hname = self.name[5:] if self.name.startswith("hmac-") else self.name
        self.log.append((HASH_IDS.get(hname, 0), self.key, self.data, out))
        return out

    def copy(self):
        c = RecHmac.__new__(RecHmac)
        c._h = self._h.copy()
        c.key, c.data, c.log, c.name, c.digest_size = self.key, self.data, self.log, self.name, self.digest_size
        return c

    def __deepcopy__(self, memo):
        return self.copy()


class HmacShim:
    def __init__(self):
        self.log = []

    def new(self, key, msg=None, digestmod=None):
        h = RecHmac(key, digestmod, self.log)
        if msg is not None:
            h.update(msg)
        return h

    compare_digest = staticmethod(_real_hmac.compare_digest)


class Clock:
    def __init__(self):
        self.t = 0

    def time(self):
        return self.t


SHIM = HmacShim()
CLOCK = Clock()
_installed = []


def install():
    if _installed:
        return
    _installed.append((dns.tsig.hmac, dns.message.time, dns.renderer.time))
    dns.tsig.hmac = SHIM
    dns.message.time = CLOCK
    dns.renderer.time = CLOCK


def uninstall():
    if _installed:
        dns.tsig.hmac, dns.message.time, dns.renderer.time = _installed.pop()


# ------------------------------------------------------------------------------------------------
# independent reference: RFC 1035 section walk, RFC 8945 composition, HMAC
# ------------------------------------------------------------------------------------------------
class RefError(Exception):
    pass


RFC_ALGS = {  # RFC 8945 section 6: name -> (hash, octets kept)
    b"hmac-md5.sig-alg.reg.int.": ("md5", 16),
    b"hmac-sha1.": ("sha1", 20),
    b"hmac-sha224.": ("sha224", 28),
    b"hmac-sha256.": ("sha256", 32),
    b"hmac-sha256-128.": ("sha256", 16),
    b"hmac-sha384.": ("sha384", 48),
    b"hmac-sha384-192.": ("sha384", 24),
    b"hmac-sha512.": ("sha512", 64),
    b"hmac-sha512-256.": ("sha512", 32),
}


def ref_name(w, off):
    """labels of the (possibly compressed) name at off, and the offset after it; pointers strictly backward"""
    labels, after, cur, bound, total = [], None, off, off, 0
    while True:
        if cur >= len(w):
            raise RefError("name runs off")
        c = w[cur]
        if c == 0:
            if after is None:
                after = cur + 1
            labels.append(b"")
            total += 1
            break
        if c & 0xC0 == 0xC0:
            if cur + 1 >= len(w):
                raise RefError("pointer runs off")
            t = ((c & 0x3F) << 8) | w[cur + 1]
            if after is None:
                after = cur + 2
            if t >= bound:
                raise RefError("forward pointer")
            bound = t
            cur = t
        elif c & 0xC0:
            raise RefError("label type")
        else:
            if cur + 1 + c > len(w):
                raise RefError("label runs off")
            labels.append(bytes(w[cur + 1:cur + 1 + c]))
            total += 1 + c
            cur += 1 + c
    if total > 255:
        raise RefError("name too long")
    return labels, after


def canon(labels):
    return b"".join(bytes([len(l)]) + l.lower() for l in labels)


def ref_parse(w):
    """header counts and the list of RRs of the three record sections; must consume w exactly"""
    if len(w) < 12:
        raise RefError("short")
    qd, an, ns, ar = struct.unpack("!HHHH", w[4:12])
    cur = 12
    for _ in range(qd):
        _, cur = ref_name(w, cur)
        if cur + 4 > len(w):
            raise RefError("question runs off")
        cur += 4
    rrs = []
    for sec, cnt in ((1, an), (2, ns), (3, ar)):
        for i in range(cnt):
            start = cur
            owner, cur = ref_name(w, cur)
            if cur + 10 > len(w):
                raise RefError("rr header runs off")
            t, c, ttl, rdlen = struct.unpack("!HHIH", w[cur:cur + 10])
            cur += 10
            if cur + rdlen > len(w):
                raise RefError("rdata runs off")
            rrs.append({"sec": sec, "i": i, "n": cnt, "start": start, "owner": owner, "type": t, "class": c, "ttl": ttl,
                        "hdr": cur - 10, "rd": cur, "rdlen": rdlen})
            cur += rdlen
    if cur != len(w):
        raise RefError("trailing octets")
    return (qd, an, ns, ar), rrs


def ref_tsig(w):
    """None if the message has no TSIG RR; else its fields.  RefError if malformed or misplaced."""
    counts, rrs = ref_parse(w)
    ts = [r for r in rrs if r["type"] == 250]
    if not ts:
        return None
    r = ts[0]
    if len(ts) != 1 or r is not rrs[-1] or r["sec"] != 3:
        raise RefError("TSIG misplaced")
    end = r["rd"] + r["rdlen"]
    alg, p = ref_name(w[:end], r["rd"])
    if p + 10 > end:
        raise RefError("tsig rdata short")
    hi, lo, fudge, mlen = struct.unpack("!HIHH", w[p:p + 10])
    p += 10
    if p + mlen + 6 > end:
        raise RefError("tsig rdata short")
    mac = w[p:p + mlen]
    p += mlen
    oid, err, olen = struct.unpack("!HHH", w[p:p + 6])
    p += 6
    if p + olen != end:
        raise RefError("tsig rdata length")
    return {"start": r["start"], "hdr": r["hdr"], "rd": r["rd"], "rdlen": r["rdlen"], "owner": r["owner"], "class": r["class"],
            "ttl": r["ttl"], "alg": alg, "time": (hi << 32) | lo, "fudge": fudge, "mac": bytes(mac), "oid": oid, "error": err,
            "other": bytes(w[p:end]), "arcount": counts[3], "algend": None}


def ref_components(w, t):
    """RFC 8945 4.3.2 / 4.3.3: (DNS message, TSIG variables, TSIG timers)"""
    msg = struct.pack("!H", t["oid"]) + w[2:10] + struct.pack("!H", t["arcount"] - 1) + w[12:t["start"]]
    timers = struct.pack("!HIH", t["time"] >> 32, t["time"] & 0xFFFFFFFF, t["fudge"])
    variables = (canon(t["owner"]) + struct.pack("!HI", t["class"], t["ttl"]) + canon(t["alg"]) + timers
                 + struct.pack("!HH", t["error"], len(t["other"])) + t["other"])
    return msg, variables, timers


def mac_field(m):
    return struct.pack("!H", len(m)) + m


def ref_input(w, t, request_mac, prior):
    """prior = None for a stand-alone message or the first envelope; else (prior MAC, [unsigned wires since])"""
    msg, variables, timers = ref_components(w, t)
    if prior is None:
        return (mac_field(request_mac) if request_mac else b"") + msg + variables
    return mac_field(prior[0]) + b"".join(prior[1]) + msg + timers


def ref_mac(alg_labels, secret, data):
    key = b"".join(l.lower() + b"." for l in alg_labels[:-1]) if alg_labels and alg_labels[-1] == b"" else None
    if key not in RFC_ALGS:
        raise RefError("unknown algorithm")
    hname, keep = RFC_ALGS[key]
    return _real_hmac.new(secret, data, getattr(hashlib, hname)).digest()[:keep]


def ref_layout(w):
    """region name of every octet of a signed message (for failure signatures)"""
    t = ref_tsig(w)
    reg = ["body"] * len(w)
    for i in range(0, 2):
        reg[i] = "header.id"
    for i in range(2, 4):
        reg[i] = "header.flags"
    for i in range(4, 12):
        reg[i] = "header.counts"
    s, h, rd = t["start"], t["hdr"], t["rd"]
    for i in range(s, h):
        reg[i] = "tsig.owner"
    names = [("tsig.type", 2), ("tsig.class", 2), ("tsig.ttl", 4), ("tsig.rdlen", 2)]
    p = h
    for nm, k in names:
        for i in range(p, p + k):
            reg[i] = nm
        p += k
    _, ae = ref_name(w[:rd + t["rdlen"]], rd)
    for i in range(rd, ae):
        reg[i] = "tsig.alg"
    p = ae
    for nm, k in [("tsig.time", 6), ("tsig.fudge", 2), ("tsig.macsize", 2), ("tsig.mac", len(t["mac"])), ("tsig.origid", 2),
                  ("tsig.error", 2), ("tsig.otherlen", 2), ("tsig.other", len(t["other"]))]:
        for i in range(p, p + k):
            reg[i] = nm
        p += k
    return reg


def ref_sign(body, owner_labels, alg_labels, secret, time_, fudge, oid, error, other, request_mac, prior, ttl=0, klass=255,
             owner_wire=None):
    """append a TSIG RR to an unsigned message, independently of dnspython"""
    ar = struct.unpack("!H", body[10:12])[0]
    t = {"oid": oid, "arcount": ar + 1, "start": len(body), "time": time_, "fudge": fudge, "owner": owner_labels, "class": klass,
         "ttl": ttl, "alg": alg_labels, "error": error, "other": other}
    w0 = body[:10] + struct.pack("!H", ar + 1) + body[12:]
    mac = ref_mac(alg_labels, secret, ref_input(w0, t, request_mac, prior))
    algw = b"".join(bytes([len(l)]) + l for l in alg_labels)
    rdata = (algw + struct.pack("!HIHH", time_ >> 32, time_ & 0xFFFFFFFF, fudge, len(mac)) + mac
             + struct.pack("!HHH", oid, error, len(other)) + other)
    ow = owner_wire if owner_wire is not None else b"".join(bytes([len(l)]) + l for l in owner_labels)
    return w0 + ow + struct.pack("!HHIH", 250, klass, ttl, len(rdata)) + rdata, mac


# ------------------------------------------------------------------------------------------------
# protocol encodings
# ------------------------------------------------------------------------------------------------
def e_name(n):
    return enc_labels(n.labels)


def e_key(k):
    return f"{e_name(k.name)}/{hx(k.secret)}/{e_name(k.algorithm)}"


def e_rdata(r):
    return f"{e_name(r.algorithm)}/{r.time_signed}/{r.fudge}/{hx(r.mac)}/{r.original_id}/{int(r.error)}/{hx(r.other)}"


def e_ctx(c):
    if c is None:
        return "none"
    h = c.hmac_context
    hname = h.name[5:] if h.name.startswith("hmac-") else h.name
    return f"{HASH_IDS.get(hname, 0)}/{c.size or 0}/{hx(h.key)}/{hx(h.data)}"


class CallKR:
    """a callable keyring `(message, name) -> Key | None` given by a finite table (Name equality lookup)"""

    def __init__(self, table):
        self.table = dict(table)

    def __call__(self, message, name):
        return self.table.get(name)


def e_keyring(kr):
    if kr is None or kr is True:
        return "absent"
    if isinstance(kr, CallKR):
        return "call:" + ";".join(e_name(n) + "=k:" + e_key(v) for n, v in kr.table.items())
    if kr is False:
        return "novalidate"
    if isinstance(kr, dns.tsig.Key):
        return "key:" + e_key(kr)
    parts = []
    for n, v in kr.items():
        parts.append(e_name(n) + "=" + ("s:" + hx(v) if isinstance(v, bytes) else "k:" + e_key(v)))
    return "dict:" + ";".join(parts)


def e_h(entries):
    seen, parts = set(), []
    for hid, key, data, out in entries:
        k = (hid, key, data)
        if k in seen:
            continue
        seen.add(k)
        parts.append(f"{hid}:{hx(key)}:{hx(data)}:{hx(out)}")
    return "h=" + (";".join(parts) if parts else "-")


SPECIFIC = ("ShortHeader", "TrailingJunk", "BadTSIG", "UnknownTSIGKey", "BadTime", "BadSignature", "BadKey", "BadAlgorithm",
            "PeerBadSignature", "PeerBadKey", "PeerBadTime", "PeerBadTruncation", "PeerError")


def e_exc(e):
    n = type(e).__name__
    if n in SPECIFIC:
        return "err " + n
    if isinstance(e, dns.exception.FormError):
        return "err FormError"
    if isinstance(e, NotImplementedError):
        return "err NotImplementedError"
    if isinstance(e, ValueError):
        return "err ValueError"
    return "FOREIGN " + n


# ------------------------------------------------------------------------------------------------
# building things from case dicts (all JSON)
# ------------------------------------------------------------------------------------------------
ALGS = ["HMAC-MD5.SIG-ALG.REG.INT.", "hmac-sha1.", "hmac-sha224.", "hmac-sha256.", "hmac-sha256-128.", "hmac-sha384.",
        "hmac-sha384-192.", "hmac-sha512.", "hmac-sha512-256."]


def mk_key(k):
    return dns.tsig.Key(dns.name.from_text(k["name"]), bytes.fromhex(k["secret"]), dns.name.from_text(k["alg"]))


def mk_keyring(kind, key, owner=None):
    if kind == "key":
        return key
    if kind == "dict-key":
        return {owner or key.name: key}
    if kind == "dict-bytes":
        return {owner or key.name: key.secret}
    if kind == "callable":
        return CallKR({owner or key.name: key})
    if kind == "none":
        return None
    if kind == "empty-dict":
        return {}
    raise ValueError(kind)


def mk_message(b):
    """an unsigned dns.message from a body spec"""
    if b.get("update"):
        m = dns.update.UpdateMessage(b["zone"], id=b["id"])
        for name, ttl, rdtype, text in b["rrs"]:
            m.add(name, ttl, rdtype, text)
        return m
    m = dns.message.Message(id=b["id"])
    m.flags = dns.flags.Flag(b["flags"])
    if b.get("q"):
        m.find_rrset(m.question, dns.name.from_text(b["q"][0]), dns.rdataclass.IN, dns.rdatatype.from_text(b["q"][1]),
                     create=True, force_unique=True)
    for sec, name, ttl, rdtype, text in b["rrs"]:
        rr = dns.rrset.from_text(name, ttl, "IN", rdtype, text)
        section = [m.answer, m.authority, m.additional][sec - 1]
        rs = m.find_rrset(section, rr.name, rr.rdclass, rr.rdtype, rr.covers, None, True, True)
        rs.update(rr)
        rs.ttl = ttl
    if b.get("edns"):
        m.use_edns(0, payload=1232)
    return m


class SignRecord:
    """arguments and result of the library's dns.tsig.sign as called by Message.to_wire"""

    def __init__(self):
        self.calls = []


def lib_sign(b, key, p, now, request_mac, tsig_ctx, multi, via="lib"):
    """sign with the library; `via` = "lib": Message.use_tsig + to_wire, "renderer": dns.renderer.Renderer
    .add_tsig / .add_multi_tsig (Renderer._write_tsig).  Returns (wire, next signing context, recorded sign call)"""
    m = mk_message(b)
    rec = []
    real_sign = dns.tsig.sign

    def spy(wire, key_, rdata, time=None, request_mac=None, ctx=None, multi=False):
        ctx_in = e_ctx(ctx)
        out = real_sign(wire, key_, rdata, time, request_mac, ctx, multi)
        rec.append({"wire": bytes(wire), "key": key_, "rdata": rdata, "time": time, "request_mac": request_mac, "ctx_in": ctx_in,
                    "multi": multi, "out": out})
        return out

    dns.tsig.sign = spy
    CLOCK.t = now
    n0 = len(SHIM.log)
    other = bytes.fromhex(p.get("other", ""))
    try:
        if via == "lib":
            m.use_tsig(key, fudge=p["fudge"], original_id=p.get("orig_id"), tsig_error=p.get("error", 0), other_data=other)
            m.request_mac = request_mac
            w = m.to_wire(multi=multi, tsig_ctx=tsig_ctx)
            ctx_out = m.tsig_ctx
        else:
            r = dns.renderer.Renderer(m.id, int(m.flags), 65535, m.origin)
            for rrset in m.sections[0]:
                r.add_question(rrset.name, rrset.rdtype, rrset.rdclass)
            for sec in (1, 2, 3):
                for rrset in m.sections[sec]:
                    r.add_rrset(sec, rrset)
            if m.opt is not None:
                r.add_opt(m.opt)
            r.write_header()
            oid = p.get("orig_id") if p.get("orig_id") is not None else m.id
            if multi:
                ctx_out = r.add_multi_tsig(tsig_ctx, key.name, key, p["fudge"], oid, p.get("error", 0), other, request_mac, key.algorithm)
            else:
                r.add_tsig(key.name, key, p["fudge"], oid, p.get("error", 0), other, request_mac, key.algorithm)
                ctx_out = None
            w = r.get_wire()
    finally:
        dns.tsig.sign = real_sign
    if rec:
        rec[0]["log"] = SHIM.log[n0:]
    return w, ctx_out, (rec[0] if rec else None)


def lib_read(w, keyring, now, request_mac, tsig_ctx, multi, origin=None, coe=False, opts=None):
    """from_wire under the fixed clock; returns (message or None, exception or None, hmac log of the call).
    With continue_on_error the first recorded error stands for the exception."""
    CLOCK.t = now
    n0 = len(SHIM.log)
    try:
        m = dns.message.from_wire(w, keyring=keyring, request_mac=request_mac, tsig_ctx=tsig_ctx, multi=multi, origin=origin,
                                  continue_on_error=coe, **(opts or {}))
        if coe and m.errors:
            return None, m.errors[0].exception, SHIM.log[n0:]
        return m, None, SHIM.log[n0:]
    except core.Stalled:
        raise
    except BaseException as e:  # classified by the caller
        return None, e, SHIM.log[n0:]


def read_line(m, e, log):
    if e is not None:
        return e_exc(e)
    if not m.had_tsig:
        return f"ok signed=0 owner=none rd=none in=none ctx={e_ctx(m.tsig_ctx)}"
    inp = hx(log[-1][2]) if log else "none"
    return f"ok signed=1 owner={e_name(m.tsig.name)} rd={e_rdata(m.tsig[0])} in={inp} ctx={e_ctx(m.tsig_ctx)}"


def fail(ctx, sig, what, rep):
    """at most a handful of reports per signature (core keeps 500 failures in all; a recorded finding that fires on
    thousands of alterations must not crowd out a new one); the rest is only counted"""
    if ctx.hist.get("oracle.fail:" + sig, 0) < 4:
        ctx.fail(sig, what, rep)
    else:
        ctx.count("oracle.fail-more:" + sig)


STRICT = {"v": 0}  # which variant of the recorded TTL finding the working tree implements (probed at start)


def corr_read(ctx, c, w, keyring, now, request_mac, ctx_in_line, multi, m, e, log):
    ctx.corr(f"c14.read {hx(w)} {e_keyring(keyring)} {now} {hx(request_mac)} {ctx_in_line} {int(multi)} {STRICT['v']} {e_h(log)}",
             read_line(m, e, log), c)


def flip(w, i):
    b = bytearray(w)
    b[i // 8] ^= 0x80 >> (i % 8)
    return bytes(b)


def scan_flips(ctx, c, rep, w, keyring, now, request_mac, bits, what):
    """every listed single-bit alteration of a stand-alone signed message; returns the verdict string over `bits`"""
    t0 = ref_tsig(w)
    comps0 = ref_components(w, t0)
    layout = ref_layout(w)
    verdict = []
    for i in bits:
        w2 = flip(w, i)
        m, e, _ = lib_read(w2, keyring, now, request_mac, None, False)
        region = layout[i // 8]
        if e is not None:
            verdict.append("r")
            ctx.count("flip.rejected." + region.split(".")[0])
            if not isinstance(e, dns.exception.DNSException) and not isinstance(e, NotImplementedError):
                ctx.count("flip.foreign-exception." + type(e).__name__)
            continue
        if not m.had_tsig:
            verdict.append("u")
            ctx.count("flip.unsigned-result")
            try:
                t2 = ref_tsig(w2)
            except RefError:
                t2 = "malformed"
            if t2 is not None:
                fail(ctx, f"C14/from_wire/tsig-ignored/{region}",
                         f"{what}: bit {i} ({region}) altered, the message still carries a TSIG RR but was returned unvalidated", rep | {"bit": i})
            continue
        verdict.append("A")
        try:
            t2 = ref_tsig(w2)
            same = t2 is not None and ref_components(w2, t2) == comps0 and t2["mac"] == t0["mac"]
        except RefError:
            same = False
        if same:
            ctx.count("flip.accepted-unauthenticated." + region)
        else:
            ctx.count("flip.ACCEPTED." + region)
            fail(ctx, f"C14/from_wire/bitflip-accepted/{region}",
                     f"{what}: bit {i} ({region}) of a signed message altered, RFC 8945 digest components differ, yet from_wire accepted it as validated",
                     rep | {"bit": i})
    return "".join(verdict)


# ------------------------------------------------------------------------------------------------
# evaluation
# ------------------------------------------------------------------------------------------------
def eval_case(ctx: Ctx, c: dict):
    install()
    k = c["kind"]
    rep = {"kind": k, "case": c}
    if k == "msg":
        eval_msg(ctx, c, rep)
    elif k == "reject":
        eval_reject(ctx, c, rep)
    elif k == "seq":
        eval_seq(ctx, c, rep)
    elif k == "fn":
        eval_fn(ctx, c, rep)
    elif k == "rdata":
        eval_rdata(ctx, c, rep)
    elif k == "mac":
        eval_mac(ctx, c, rep)
    elif k == "usetsig":
        eval_usetsig(ctx, c, rep)
    elif k == "exch":
        eval_exch(ctx, c, rep)
    elif k == "krtext":
        eval_krtext(ctx, c, rep)
    elif k == "grid":
        eval_grid(ctx, c, rep)
    elif k == "arcount":
        eval_arcount(ctx, c, rep)
    else:
        raise ValueError(k)


def check_signed(ctx, c, rep, w, rec, key, p, now, request_mac, prior, what):
    """oracle + correspondence for one message signed by the library.  Returns the reference TSIG fields."""
    try:
        t = ref_tsig(w)
    except RefError as e:
        t = None
        fail(ctx, "C14/sign/unparseable", f"{what}: the signed message is not a well-formed message with a final TSIG RR ({e})", rep)
        return None
    if t is None:
        fail(ctx, "C14/sign/no-tsig", f"{what}: to_wire produced no TSIG RR", rep)
        return None
    # the TSIG RR says what was asked for
    want = {"time": now, "fudge": p["fudge"], "oid": p.get("orig_id") if p.get("orig_id") is not None else struct.unpack("!H", w[:2])[0],
            "error": p.get("error", 0), "other": bytes.fromhex(p.get("other", "")), "class": 255, "ttl": 0}
    for f, v in want.items():
        if t[f] != v:
            fail(ctx, f"C14/sign/field/{f}", f"{what}: TSIG RR field {f} is {t[f]!r}, expected {v!r}", rep)
    if canon(t["owner"]) != key.name.to_wire().lower() or canon(t["alg"]) != key.algorithm.to_wire().lower():
        fail(ctx, "C14/sign/field/names", f"{what}: TSIG owner / algorithm differ from the key's", rep)
    # the MAC is the RFC 8945 HMAC
    try:
        exp = ref_mac(t["alg"], key.secret, ref_input(w, t, request_mac, prior))
    except RefError as e:
        exp = None
    if exp is None or exp != t["mac"]:
        scope = "request" if prior is None and not request_mac else ("response" if prior is None else "subsequent")
        fail(ctx, f"C14/sign/mac-differs-from-rfc8945/{scope}",
                 f"{what}: MAC {t['mac'].hex()} differs from HMAC over the RFC 8945 digest components ({exp.hex() if exp else '?'}) [{scope}, {key.algorithm}]", rep)
    ctx.count("sign." + ("first" if prior is None else "subsequent") + ("+reqmac" if request_mac and prior is None else ""))
    # correspondence: sign() and the rendered message
    if rec is not None:
        rd2, ctx2 = rec["out"]
        hrows = rec["log"]
        line = (f"c14.sign {hx(rec['wire'])} {e_key(rec['key'])} {e_rdata(rec['rdata'])} {rec['time']} {hx(rec['request_mac'] or b'')} "
                f"{rec['ctx_in']} {int(bool(rec['multi']))} {e_h(hrows)}")
        ctx.corr(line, f"ok {e_rdata(rd2)} {e_ctx(ctx2)}", c)
        owner_enc = w[t["start"]:t["hdr"]]
        line = (f"c14.signmsg {hx(rec['wire'])} {hx(owner_enc)} {e_key(rec['key'])} {e_rdata(rec['rdata'])} {rec['time']} "
                f"{hx(rec['request_mac'] or b'')} {rec['ctx_in']} {int(bool(rec['multi']))} {e_h(hrows)}")
        ctx.corr(line, f"ok {hx(w)} {e_ctx(ctx2)}", c)
    return t


def eval_msg(ctx, c, rep):
    key = mk_key(c["key"])
    p = c["tsig"]
    now = c["now"]
    rm = bytes.fromhex(c.get("request_mac", ""))
    if c.get("signer", "lib") in ("lib", "renderer"):
        w, _, rec = lib_sign(c["body"], key, p, now, rm, None, False, via=c.get("signer", "lib"))
        t = check_signed(ctx, c, rep, w, rec, key, p, now, rm, None, "to_wire" if c.get("signer", "lib") == "lib" else "Renderer.add_tsig")
        if t is None:
            return
    else:
        body = mk_message(c["body"]).to_wire()
        oid = p.get("orig_id") if p.get("orig_id") is not None else c["body"]["id"]
        w, _ = ref_sign(body, list(key.name.labels), list(key.algorithm.labels), key.secret, now, p["fudge"], oid, p.get("error", 0),
                        bytes.fromhex(p.get("other", "")), rm, None)
        t = ref_tsig(w)
        ctx.count("sign.reference")
    # every signed message validates under the same key, anywhere in the fudge window
    keyring = mk_keyring(c.get("keyring", "key"), key)
    for d in c.get("deltas", [0]):
        vnow = now + d
        if vnow < 0:
            continue
        m2, e, log = lib_read(w, keyring, vnow, rm, None, False)
        corr_read(ctx, c, w, keyring, vnow, rm, "none", False, m2, e, log)
        inside = abs(d) <= p["fudge"]
        if p.get("error", 0) != 0:
            if e is None:
                fail(ctx, "C14/validate/tsig-error-accepted", f"a message whose TSIG reports error {p['error']} was accepted", rep)
            ctx.count("validate.tsig-error")
        elif inside:
            if e is not None or not m2.had_tsig or m2.mac != t["mac"]:
                fail(ctx, "C14/validate/genuine-rejected",
                         f"a message signed at {now} (fudge {p['fudge']}, {key.algorithm}) does not validate at {vnow} under the same key: {e!r}", rep)
            ctx.count("validate.genuine-accepted")
        else:
            if e is None:
                fail(ctx, "C14/validate/time-outside-fudge-accepted",
                         f"a message signed at {now} with fudge {p['fudge']} was accepted at {vnow}", rep)
            ctx.count("validate.outside-window")
    extra_routes(ctx, c, rep, w, t, key, keyring, p, now, rm)
    # every single-bit alteration
    if c.get("flips") and p.get("error", 0) == 0:
        bits = range(len(w) * 8) if c["flips"] == "all" else c["flips"]
        if bits == "ttl":  # the witness of the recorded finding: the 32 bits of the TSIG RR's TTL field
            lay = ref_layout(w)
            bits = [i for i in range(len(w) * 8) if lay[i // 8] == "tsig.ttl"]
        bits = [i for i in bits if i < len(w) * 8]
        v = scan_flips(ctx, c, rep, w, keyring, now, rm, bits, f"{key.algorithm}")
        if c["flips"] == "all" and not c["body"].get("update"):
            # (for dynamic updates the verdict on a TSIG RR turned into an ordinary class-ANY record depends on
            #  UpdateMessage._parse_rr_header, which the skeleton reader does not model; oracle only)
            ctx.corr(f"c14.flips {hx(w)} {e_keyring(keyring)} {now} {hx(rm)} none 0 {STRICT['v']}", "ok " + v.replace("u", "r"), c)
        ctx.count("flip.messages")
        ctx.count("flip.bits", len(v))


def forge_mac(w, t, newmac):
    """the signed message with its MAC field replaced (MAC size and RDLENGTH adjusted), independently of dnspython"""
    rd = t["rd"]
    end = rd + t["rdlen"]
    _, ae = ref_name(w[:end], rd)
    macoff = ae + 10
    tail = w[macoff + len(t["mac"]):end]
    rdata = w[rd:ae + 8] + struct.pack("!H", len(newmac)) + newmac + tail
    return w[:rd - 2] + struct.pack("!H", len(rdata)) + rdata


def keyring_forms(key):
    """the same key in every form a keyring can take"""
    text = dns.tsigkeyring.from_text(dns.tsigkeyring.to_text({key.name: key}))
    return [("key", key), ("dict-bytes", {key.name: key.secret}), ("dict-key", {key.name: key}),
            ("callable", CallKR({key.name: key})), ("from_text", text)]


def origins_for(key, w, pick):
    """origins that put the key name at, below, above and beside the origin, plus the question name and the root"""
    kn = key.name
    cands = [kn, dns.name.root, dns.name.from_text("unrelated.test.")]
    if len(kn.labels) > 2:
        cands.append(kn.parent())
        cands.append(dns.name.Name(kn.labels[-2:]))
    if len(kn.to_wire()) <= 249:
        cands.append(dns.name.Name([b"below"] + list(kn.labels)))
    try:
        qn, _ = ref_name(w, 12)
        if struct.unpack("!H", w[4:6])[0]:
            cands.append(dns.name.Name(qn))
    except RefError:
        pass
    k = len(cands)
    return [cands[pick % k], cands[(pick // 7 + 1) % k]]


def origin_reads(ctx, c, rep, w, key, now, rm, tsig_ctx, multi, what, pick):
    """the parsing option `origin=` (how zone-transfer envelopes are read) x every keyring form x continue_on_error:
    a genuine message verifies and the TSIG state it leaves is what it is without an origin.  The model's reader has
    no origin parameter at all, so the same correspondence line as without origin is demanded."""
    base, be, _ = lib_read(w, key, now, rm, copy.deepcopy(tsig_ctx), multi)
    if be is not None or not base.had_tsig:
        return
    for o in origins_for(key, w, pick):
        for j, (form, kr) in enumerate(keyring_forms(key)):
            coe = bool((pick + j) & 1)
            cin = copy.deepcopy(tsig_ctx)
            line_in = e_ctx(cin)
            m2, e, log = lib_read(w, kr, now, rm, cin, multi, origin=o, coe=coe)
            corr_read(ctx, c, w, kr, now, rm, line_in, multi, m2, e, log)
            ctx.count(f"origin.{form}." + ("ok" if e is None else type(e).__name__))
            tag = f"{form}/{'coe' if coe else 'strict'}"
            if e is not None:
                fail(ctx, f"C14/validate/genuine-rejected/origin/{form}",
                     f"{what}: a genuine signed message read with origin={o} and a {form} keyring (continue_on_error={coe}) is rejected: {e!r}", rep | {"origin": str(o)})
                continue
            same = (m2.had_tsig and m2.keyname == base.keyname and m2.keyname.is_absolute() and m2.keyname.labels == base.keyname.labels
                    and m2.mac == base.mac and m2.keyalgorithm == base.keyalgorithm and e_rdata(m2.tsig[0]) == e_rdata(base.tsig[0])
                    and e_ctx(m2.tsig_ctx) == e_ctx(base.tsig_ctx))
            if not same:
                fail(ctx, f"C14/from_wire/origin/tsig-state-differs/{form}",
                     f"{what}: with origin={o} ({tag}) the parsed TSIG state (key name, MAC, rdata, next context) differs from the one without origin", rep | {"origin": str(o)})


def to_wire_options(ctx, c, rep, key, keyring, p, now, rm):
    """the options of Message.to_wire / use_tsig around signing: prepend_length, a max_size that forces truncation
    (prefer_truncation), TooBig raised and the same object rendered again, use_tsig with every optional argument omitted"""
    def fresh(defaults=False):
        m = mk_message(c["body"])
        for j in range(12):   # enough to overflow 512 octets
            m.answer.append(dns.rrset.from_text(f"r{j}.big.example.", 60, "IN", "TXT", '"' + "x" * 60 + '"'))
        if defaults:
            m.use_tsig(key)
        else:
            m.use_tsig(key, fudge=p["fudge"], original_id=p.get("orig_id"), other_data=bytes.fromhex(p.get("other", "")))
        m.request_mac = rm
        return m
    oid = p.get("orig_id") if p.get("orig_id") is not None else c["body"]["id"]
    p2 = dict(p, orig_id=oid)
    p2.pop("error", None)

    def verify(w, what, pp):
        t = check_signed(ctx, c, rep, w, None, key, pp, now, rm, None, what)
        if t is None:
            return
        m2, e, log = lib_read(w, keyring, now, rm, None, False)
        corr_read(ctx, c, w, keyring, now, rm, "none", False, m2, e, log)
        if e is not None or not m2.had_tsig:
            fail(ctx, "C14/validate/genuine-rejected/to_wire-options", f"{what}: the signed message does not validate: {e!r}", rep)
    CLOCK.t = now
    # prepend_length: two length octets in front of exactly the signed message
    w = fresh().to_wire(prepend_length=True, max_size=65535)   # (an EDNS payload in the body would otherwise cap the size)
    if len(w) < 2 or struct.unpack("!H", w[:2])[0] != len(w) - 2:
        fail(ctx, "C14/sign/prepend_length", "to_wire(prepend_length=True): the prefix is not the length of the message", rep)
    else:
        verify(w[2:], "to_wire(prepend_length=True)", p2)
    # truncation: the TSIG still closes the (shorter) message and signs what is sent
    try:
        w = fresh().to_wire(max_size=512, prefer_truncation=True)
        if len(w) > 512:
            ctx.count("route.to_wire.truncation-over-limit")
        verify(w, "to_wire(max_size=512, prefer_truncation=True)", p2)
    except dns.exception.TooBig:
        ctx.count("route.to_wire.truncation-toobig")
    # TooBig, then the same object again without a limit
    m = fresh()
    try:
        m.to_wire(max_size=512)
        ctx.count("route.to_wire.no-toobig")
    except dns.exception.TooBig:
        ctx.count("route.to_wire.toobig-then-again")
    except core.Stalled:
        raise
    except BaseException as e:
        fail(ctx, "C14/sign/to_wire-raises:" + type(e).__name__, f"to_wire(max_size=512) raised {e!r}", rep)
    verify(m.to_wire(max_size=65535), "to_wire() after a to_wire(max_size=512) that may have raised TooBig", p2)
    # every optional argument of use_tsig omitted: fudge 300, original id = id, no error, no other data
    w = fresh(defaults=True).to_wire(max_size=65535)
    verify(w, "use_tsig(key) with defaults", {"fudge": 300})
    ctx.count("route.to_wire-options")


def extra_routes(ctx, c, rep, w, t, key, keyring, p, now, rm):
    """routes and option values around one genuine signed message `w` (only when it reports no TSIG error):
    keyring=True/False, continue_on_error, shortened / emptied / lengthened MAC fields, a second to_wire of the same
    message object, Message.mac / keyname / keyalgorithm accessors"""
    if p.get("error", 0) != 0:
        return
    sel = c.get("routes", 0)
    if sel & 16:
        origin_reads(ctx, c, rep, w, key, now, rm, None, False, f"{key.algorithm}", c["now"] + len(w))
    if sel & 32 and not c["body"].get("update"):
        to_wire_options(ctx, c, rep, key, keyring, p, now, rm)
    # keyring=True is "no keyring" (signed messages must fail); keyring=False switches validation off
    if sel & 1:
        m2, e, log = lib_read(w, {}, now, rm, None, False)
        corr_read(ctx, c, w, {}, now, rm, "none", False, m2, e, log)
        if e is None or not isinstance(e, dns.exception.DNSException):
            fail(ctx, "C14/from_wire/empty-keyring", f"from_wire(keyring={{}}) of a signed message: {e!r}", rep)
        for kr in (True, False):
            m2, e, log = lib_read(w, kr, now, rm, None, False)
            corr_read(ctx, c, w, kr, now, rm, "none", False, m2, e, log)
            if kr is True and e is None:
                fail(ctx, "C14/from_wire/keyring-true-accepted", "from_wire(keyring=True) returned a signed message", rep)
            if kr is True and e is not None and not isinstance(e, dns.exception.DNSException):
                fail(ctx, "C14/from_wire/keyring-true-foreign:" + type(e).__name__, f"from_wire(keyring=True) raised {e!r}", rep)
            if kr is False and e is not None:
                fail(ctx, "C14/from_wire/keyring-false-raises:" + type(e).__name__, f"from_wire(keyring=False) (validation off) raised {e!r}", rep)
            ctx.count("route.keyring-" + str(kr))
    # a MAC field that is a proper prefix (incl. empty) of the right MAC, or the right MAC plus an octet, never verifies
    if sel & 2:
        mac = t["mac"]
        for newmac in (b"", mac[:1], mac[:4], mac[:len(mac) // 2], mac[:-1], mac + b"\0", mac + mac):
            if newmac == mac:
                continue
            w2 = forge_mac(w, t, newmac)
            m2, e, log = lib_read(w2, keyring, now, rm, None, False)
            corr_read(ctx, c, w2, keyring, now, rm, "none", False, m2, e, log)
            ctx.count("route.mac-length." + ("rejected" if e is not None else "ACCEPTED"))
            if e is None and m2.had_tsig:
                fail(ctx, "C14/validate/wrong-length-mac-accepted",
                     f"a TSIG whose MAC field holds {len(newmac)} octets (the genuine MAC has {len(mac)}, {key.algorithm}) validates", rep)
    # continue_on_error=True: an altered message must not come back as a validated message without a recorded error
    if sel & 4:
        comps0 = ref_components(w, t)
        n = len(w) * 8
        for j in range(12):
            i = 16 + (c["now"] * 7919 + j * 104729) % (n - 16)
            w2 = flip(w, i)
            CLOCK.t = now
            try:
                m2 = dns.message.from_wire(w2, keyring=keyring, request_mac=rm, continue_on_error=True)
            except core.Stalled:
                raise
            except BaseException as e:
                ctx.count("route.coe.raises")
                continue
            ctx.count("route.coe.returned")
            if m2.had_tsig and not m2.errors:
                try:
                    t2 = ref_tsig(w2)
                    same = t2 is not None and ref_components(w2, t2) == comps0 and t2["mac"] == t["mac"]
                except RefError:
                    same = False
                if not same:
                    fail(ctx, "C14/from_wire/continue_on_error/altered-accepted-silently",
                         f"bit {i} altered, from_wire(continue_on_error=True) returned a message with had_tsig and no recorded error", rep | {"bit": i})
    # the same Message object rendered a second time (retransmission under a new id, later): signed afresh
    if sel & 8 and c.get("signer", "lib") == "lib" and not c["body"].get("update"):
        m = mk_message(c["body"])
        m.use_tsig(key, fudge=p["fudge"], original_id=p.get("orig_id"), other_data=bytes.fromhex(p.get("other", "")))
        m.request_mac = rm
        CLOCK.t = now
        w1 = m.to_wire()
        if m.mac != ref_tsig(w1)["mac"] or m.keyname != key.name or m.keyalgorithm != key.algorithm:
            fail(ctx, "C14/sign/accessors", "Message.mac / keyname / keyalgorithm after to_wire differ from the TSIG RR written", rep)
        oid = p.get("orig_id") if p.get("orig_id") is not None else c["body"]["id"]
        m.id = (m.id + 1 + c["now"] % 7) & 0xFFFF
        rr = dns.rrset.from_text("again.example.", 5, "IN", "TXT", '"second rendering"')
        m.additional.append(rr)
        now2 = now + 1 + c["now"] % 1000
        CLOCK.t = now2
        w2 = m.to_wire()
        p2 = dict(p, orig_id=oid)
        t2 = check_signed(ctx, c, rep, w2, None, key, p2, now2, rm, None, "second to_wire of the same message")
        if t2 is not None:
            m3, e, log = lib_read(w2, keyring, now2, rm, None, False)
            corr_read(ctx, c, w2, keyring, now2, rm, "none", False, m3, e, log)
            if e is not None or not m3.had_tsig:
                fail(ctx, "C14/validate/genuine-rejected/second-to_wire",
                     f"the second rendering of a signed message (new id, one more record, {now2 - now} s later) does not validate: {e!r}", rep)
            elif m3.mac != t2["mac"]:
                fail(ctx, "C14/sign/accessors", "Message.mac of the parsed message differs from the MAC on the wire", rep)
        ctx.count("route.second-to_wire")


MUTS = ["secret", "keyname-key", "keyname-dict-missing", "keyname-dict-wrongkey", "keyname-callable-missing", "keyname-callable-wrongkey", "algorithm", "time", "request-mac", "tsig-error",
        "no-keyring", "not-last-extra-rr", "not-last-answer-section", "two-tsigs", "class-not-any", "arcount-zero"]


def eval_reject(ctx, c, rep):
    key = mk_key(c["key"])
    p = c["tsig"]
    now = c["now"]
    rm = bytes.fromhex(c.get("request_mac", ""))
    mut = c["mut"]
    w, _, rec = lib_sign(c["body"], key, p, now, rm, None, False, via=c.get("signer", "lib"))
    if mut == "tsig-error":
        # RFC 8945 5.3.2: a BADTIME answer is signed; whatever the error, what the library signs is the RFC HMAC
        check_signed(ctx, c, rep, w, rec, key, p, now, rm, None, f"to_wire with tsig_error={p.get('error')}")
    t = ref_tsig(w)
    keyring, vnow, vrm = key, now, rm
    must_form = False
    if mut == "secret":
        sec = bytearray(key.secret)
        if sec:
            sec[c["arg"] % len(sec)] ^= 1 << (c["arg"] % 8)
        else:
            sec = bytearray([1 + c["arg"] % 255])   # the genuine secret is empty: any other secret differs
        keyring = dns.tsig.Key(key.name, bytes(sec), key.algorithm)
    elif mut == "keyname-key":
        keyring = dns.tsig.Key(dns.name.from_text(c["other_name"]), key.secret, key.algorithm)
    elif mut == "keyname-dict-missing":
        keyring = {dns.name.from_text(c["other_name"]): key.secret}
    elif mut == "keyname-dict-wrongkey":
        keyring = {key.name: dns.tsig.Key(dns.name.from_text(c["other_name"]), key.secret, key.algorithm)}
    elif mut == "keyname-callable-missing":
        keyring = CallKR({dns.name.from_text(c["other_name"]): key})
    elif mut == "keyname-callable-wrongkey":
        keyring = CallKR({key.name: dns.tsig.Key(dns.name.from_text(c["other_name"]), key.secret, key.algorithm)})
    elif mut == "algorithm":
        keyring = dns.tsig.Key(key.name, key.secret, dns.name.from_text(c["other_alg"]))
    elif mut == "time":
        vnow = now + c["arg"]
    elif mut == "request-mac":
        vrm = bytes.fromhex(c["other_mac"])
    elif mut == "tsig-error":
        pass  # signed with error set (p["error"])
    elif mut == "no-keyring":
        keyring = None
    elif mut in ("not-last-extra-rr", "not-last-answer-section", "two-tsigs", "class-not-any", "arcount-zero"):
        must_form = mut != "arcount-zero"
        body = w[:t["start"]]
        rr = w[t["start"]:]
        qd, an, ns, ar = struct.unpack("!HHHH", w[4:12])
        extra = b"\x01x\x00" + struct.pack("!HHIH", 1, 1, 60, 4) + bytes([192, 0, 2, c.get("arg", 1) % 256])
        if mut == "not-last-extra-rr":
            w = w[:10] + struct.pack("!H", ar + 1) + w[12:] + extra
        elif mut == "two-tsigs":
            w = w[:10] + struct.pack("!H", ar + 1) + w[12:] + rr
        elif mut == "class-not-any":
            hdr = t["hdr"]
            w = w[:hdr + 2] + struct.pack("!H", c.get("arg", 1) % 255) + w[hdr + 4:]
        elif mut == "arcount-zero":
            w = w[:10] + struct.pack("!H", 0) + w[12:]
        else:  # the TSIG RR as the only record of the answer section of a message with no other records
            mm = mk_message({"id": c["body"]["id"], "flags": c["body"]["flags"], "q": c["body"].get("q"), "rrs": []}) if not c["body"].get("update") else None
            if mm is None:
                return
            b0 = mm.to_wire()
            w, _ = ref_sign(b0, list(key.name.labels), list(key.algorithm.labels), key.secret, now, p["fudge"], c["body"]["id"], 0, b"", rm, None)
            w = w[:6] + struct.pack("!HHH", 1, 0, 0) + w[12:]
    else:
        raise ValueError(mut)
    m2, e, log = lib_read(w, keyring, vnow, vrm, None, False)
    corr_read(ctx, c, w, keyring, vnow, vrm, "none", False, m2, e, log)
    ctx.count("reject." + mut + "." + (type(e).__name__ if e is not None else "ACCEPTED"))
    if mut == "arcount-zero":
        # trailing octets after an empty additional section: must not be accepted as signed
        if e is None and m2.had_tsig:
            fail(ctx, "C14/validate/accepted/arcount-zero", "TSIG accepted although ARCOUNT is 0", rep)
        return
    if e is None:
        fail(ctx, f"C14/validate/accepted/{mut}", f"validation accepted a message under variation {mut} ({c.get('arg')}, {c.get('other_name')}, {c.get('other_alg')})", rep)
    elif must_form and not isinstance(e, dns.exception.FormError):
        fail(ctx, f"C14/from_wire/misplaced-tsig-not-formerror/{mut}", f"{mut}: raised {type(e).__name__}, not a FormError", rep)
    elif not isinstance(e, dns.exception.DNSException):
        fail(ctx, f"C14/validate/foreign-exception/{mut}", f"{mut}: raised {type(e).__name__}", rep)


def eval_seq(ctx, c, rep):
    key = mk_key(c["key"])
    p = c["tsig"]
    now = c["now"]
    rm = bytes.fromhex(c.get("request_mac", ""))
    envs = c["envs"]
    signer = c.get("signer", "lib")
    wires, macs = [], []
    sctx = None
    prior = None  # (prior mac, [unsigned wires])
    first = True
    for idx, ev in enumerate(envs):
        b = ev["body"]
        if ev["signed"]:
            if signer in ("lib", "renderer"):
                w, sctx, rec = lib_sign(b, key, p, now + idx, rm, sctx, True, via=signer)
                t = check_signed(ctx, c, rep, w, rec, key, p, now + idx, rm, prior,
                                 f"{'to_wire(multi=True)' if signer == 'lib' else 'Renderer.add_multi_tsig'} envelope {idx}")
                if t is None:
                    return
                mac = t["mac"]
            else:
                body = mk_message(b).to_wire()
                w, mac = ref_sign(body, list(key.name.labels), list(key.algorithm.labels), key.secret, now + idx, p["fudge"], b["id"], 0,
                                  bytes.fromhex(p.get("other", "")) if first else b"", rm, prior)
            prior = (mac, [])
            first = False
        else:
            w = mk_message(b).to_wire()
            if signer in ("lib", "renderer"):
                sctx.update(w)  # what a server built on the library does for an unsigned envelope (RFC 8945 5.3.1)
            prior[1].append(w)
        wires.append(w)
    # validation of the whole exchange by the library
    def run(ws, start=0, vctx=None, collect=False):
        last = None
        for i in range(start, len(ws)):
            line_in = e_ctx(vctx) if collect else None
            m2, e, log = lib_read(ws[i], key, now + i, rm, vctx, True)
            if collect:
                corr_read(ctx, c, ws[i], key, now + i, rm, line_in, True, m2, e, log)
                saved.append(copy.deepcopy(vctx))
                if c.get("origin_route") and envs[i]["signed"] and e is None:
                    origin_reads(ctx, c, rep, ws[i], key, now + i, rm, saved[-1], True, f"envelope {i} of {len(ws)} (multi)", c["now"] + i)
            if e is not None:
                return i, e, None
            vctx = m2.tsig_ctx
            last = m2
        return None, None, last
    saved = []
    bad, e, last = run(wires, collect=True)
    ctx.count(f"seq.{signer}.len{len(envs)}.signed{sum(1 for x in envs if x['signed'])}")
    if bad is not None:
        fail(ctx, f"C14/validate/genuine-sequence-rejected/{signer}",
                 f"envelope {bad} of a {len(envs)}-envelope exchange (signed: {[int(x['signed']) for x in envs]}, signer {signer}) does not validate: {e!r}", rep)
        return
    # the reader options that do not change what is signed: the same exchange under every combination of them
    base_ctx = []
    vctx = None
    for i, w in enumerate(wires):
        m2, _, _ = lib_read(w, key, now + i, rm, vctx, True)
        vctx = m2.tsig_ctx
        base_ctx.append((e_ctx(vctx), m2.had_tsig, m2.mac))
    pattern = [int(x["signed"]) for x in envs]
    unsigned = [i for i, x in enumerate(envs) if not x["signed"]]
    for combo in range(32):
        opts = {"ignore_trailing": bool(combo & 1), "one_rr_per_rrset": bool(combo & 2), "xfr": bool(combo & 4),
                "raise_on_truncation": bool(combo & 16)}
        coe = bool(combo & 8)
        tag = "+".join(k for k, v in dict(opts, continue_on_error=coe).items() if v) or "defaults"
        vctx = None
        for i, w in enumerate(wires):
            # with ignore_trailing, actual trailing octets after the envelope, signed or not: they are no part of the
            # message, so neither validated nor (unsigned envelope, repair 1f3fc58) digested into the running context
            junk = [b"\x00\xff", b"\x00", bytes(range(40)), w[:13]][(combo + i) % 4]
            ww = w + junk if (opts["ignore_trailing"] and (combo + i) % 3 != 1) else w
            line_in = e_ctx(vctx)
            m2, e, log = lib_read(ww, key, now + i, rm, vctx, True, coe=coe, opts=opts)
            if combo == 1:
                ctx.corr(f"c14.readi 1 {hx(ww)} {e_keyring(key)} {now + i} {hx(rm)} {line_in} 1 {STRICT['v']} {e_h(log)}",
                         read_line(m2, e, log), c)
            if e is not None:
                fail(ctx, "C14/validate/genuine-sequence-rejected/options",
                     f"envelope {i} of a genuine {len(envs)}-envelope exchange (signed: {pattern}, signer {signer}) is rejected when read with {tag}: {e!r}",
                     rep | {"options": tag})
                break
            if (e_ctx(m2.tsig_ctx), m2.had_tsig, m2.mac) != base_ctx[i]:
                fail(ctx, "C14/from_wire/options/tsig-state-differs",
                     f"envelope {i}: read with {tag} the running TSIG context / MAC differs from the one under default options (which equals the RFC 8945 5.3.1 reference)",
                     rep | {"options": tag})
                break
            vctx = m2.tsig_ctx
        ctx.count("seq.options")
        # an altered unsigned envelope is detected at the next signed one, whatever the options
        if unsigned and combo % 4 == (c["now"] % 4):
            fi = unsigned[(combo // 4) % len(unsigned)]
            bit = (c["now"] * 31 + combo * 977) % (len(wires[fi]) * 8)
            ws = list(wires)
            ws[fi] = flip(wires[fi], bit)
            vctx, caught, last = None, False, None
            for i, w in enumerate(ws):
                m2, e, _ = lib_read(w, key, now + i, rm, vctx, True, coe=coe, opts=opts)
                if e is not None:
                    caught = True
                    break
                vctx, last = m2.tsig_ctx, m2
            ctx.count("seq.options.altered-unsigned." + ("caught" if caught else "ACCEPTED"))
            if not caught and last is not None and last.had_tsig:
                fail(ctx, "C14/from_wire/bitflip-accepted/multi/unsigned-envelope/options",
                     f"bit {bit} of unsigned envelope {fi} altered; read with {tag} the whole exchange (signed: {pattern}) still validates",
                     rep | {"options": tag, "bit": bit, "env": fi})
    # alterations: chosen envelope, chosen bits; the exchange must fail at or after that envelope
    for fi, bits in c.get("flips", []):
        w = wires[fi]
        signed = envs[fi]["signed"]
        if signed:
            t0 = ref_tsig(w)
            comps0 = ref_components(w, t0)
        if bits == "all":
            bits = range(len(w) * 8)
        elif bits == "ttl":
            lay = ref_layout(w)
            bits = [i for i in range(len(w) * 8) if lay[i // 8] == "tsig.ttl"]
        for i in bits:
            ws = list(wires)
            ws[fi] = flip(w, i)
            bad, e, last = run(ws, start=fi, vctx=copy.deepcopy(saved[fi]))
            ctx.count("seqflip.bits")
            if bad is not None:
                ctx.count("seqflip.rejected" + ("" if bad == fi else ".later"))
                continue
            if last is not None and not last.had_tsig:
                ctx.count("seqflip.unsigned-last")
                continue
            same = False
            if signed:
                try:
                    t2 = ref_tsig(ws[fi])
                    same = t2 is not None and ref_components(ws[fi], t2) == comps0 and t2["mac"] == t0["mac"]
                except RefError:
                    same = False
            if same:
                ctx.count("seqflip.accepted-unauthenticated")
            else:
                region = ref_layout(w)[i // 8] if signed else "unsigned-envelope"
                fail(ctx, f"C14/from_wire/bitflip-accepted/multi/{region}",
                         f"bit {i} of envelope {fi} ({'signed' if signed else 'unsigned'}) of a {len(envs)}-envelope exchange altered and the whole exchange still validates", rep | {"bit": i, "env": fi})


def mk_rdata(r):
    return dns.rdata.from_text  # placeholder (never used)


def rd_from(r):
    import dns.rdtypes.ANY.TSIG as T
    return T.TSIG(dns.rdataclass.ANY, dns.rdatatype.TSIG, dns.name.from_text(r["alg"]), r["time"], r["fudge"], bytes.fromhex(r["mac"]),
                  r["oid"], r["error"], bytes.fromhex(r["other"]))


def ctx_from(spec):
    """an HMACTSig with given history, or None"""
    if spec is None:
        return None
    k = dns.tsig.Key("x.", bytes.fromhex(spec["secret"]), dns.name.from_text(spec["alg"]))
    c = dns.tsig.get_context(k)
    c.update(bytes.fromhex(spec["data"]))
    return c


def eval_fn(ctx, c, rep):
    key = mk_key(c["key"])
    rd = rd_from(c["rdata"])
    wire = bytes.fromhex(c["wire"])
    rm = bytes.fromhex(c["request_mac"])
    multi = bool(c["multi"])
    op = c["op"]
    tc = ctx_from(c.get("ctx"))
    tc_line = e_ctx(tc)
    n0 = len(SHIM.log)
    if op == "digest":
        time_ = c.get("time")
        try:
            out = dns.tsig._digest(wire, key, rd, time_, rm, tc, multi)
            impl = "ok " + e_ctx(out)
        except core.Stalled:
            raise
        except BaseException as e:
            impl = e_exc(e)
        ctx.corr(f"c14.digest {hx(wire)} {e_key(key)} {e_rdata(rd)} {'none' if time_ is None else time_} {hx(rm)} {tc_line} {int(multi)}", impl, c)
    elif op == "sign":
        try:
            rd2, c2 = dns.tsig.sign(wire, key, rd, c["time"], rm, tc, multi)
            impl = f"ok {e_rdata(rd2)} {e_ctx(c2)}"
        except core.Stalled:
            raise
        except BaseException as e:
            impl = e_exc(e)
        ctx.corr(f"c14.sign {hx(wire)} {e_key(key)} {e_rdata(rd)} {c['time']} {hx(rm)} {tc_line} {int(multi)} {e_h(SHIM.log[n0:])}", impl, c)
    elif op == "validate":
        owner = dns.name.from_text(c["owner"])
        try:
            c2 = dns.tsig.validate(wire, key, owner, rd, c["now"], rm, c["tsig_start"], tc, multi)
            log = SHIM.log[n0:]
            impl = f"ok {e_ctx(c2)} in={hx(log[-1][2]) if log else '-'}"
        except core.Stalled:
            raise
        except BaseException as e:
            impl = e_exc(e)
        ctx.corr(f"c14.validate {hx(wire)} {e_key(key)} {e_name(owner)} {e_rdata(rd)} {c['now']} {hx(rm)} {c['tsig_start']} {tc_line} {int(multi)} {e_h(SHIM.log[n0:])}", impl, c)
    ctx.count("fn." + op + "." + impl.split(" ")[0] + ("." + impl.split(" ")[1] if not impl.startswith("ok") else ""))
    if impl.startswith("FOREIGN"):
        fail(ctx, f"C14/{op}/foreign-exception:{impl.split(' ')[1]}", f"dns.tsig.{op} raised {impl}", rep)
    if op in ("digest", "sign"):
        # Other Len is a 16-bit field: exactly the lengths 0..65535 can be digested
        olen = len(rd.other)
        if impl == "err ValueError" and olen <= 65535:
            fail(ctx, f"C14/{op}/other-length-boundary", f"dns.tsig.{op} refuses other data of {olen} octets (a 16-bit length)", rep)
        if impl.startswith("ok") and olen > 65535:
            fail(ctx, f"C14/{op}/other-length-boundary", f"dns.tsig.{op} digests other data of {olen} octets, more than Other Len can say", rep)


def eval_rdata(ctx, c, rep):
    if c["dir"] == "enc":
        rd = rd_from(c["rdata"])
        w = rd.to_wire()
        ctx.corr(f"c14.rdenc {e_rdata(rd)}", "ok " + hx(w), c)
        back = dns.rdata.from_wire(dns.rdataclass.ANY, dns.rdatatype.TSIG, w, 0, len(w))
        if back != rd or e_rdata(back) != e_rdata(rd):
            fail(ctx, "C14/rdata/roundtrip", f"TSIG rdata does not survive to_wire/from_wire: {e_rdata(rd)} -> {e_rdata(back)}", rep)
        ctx.count("rdata.enc")
    else:
        w = bytes.fromhex(c["wire"])
        s, n = c["start"], c["len"]
        try:
            rd = dns.rdata.from_wire(dns.rdataclass.ANY, dns.rdatatype.TSIG, w, s, n)
            impl = "ok " + e_rdata(rd)
        except core.Stalled:
            raise
        except BaseException as e:
            impl = e_exc(e)
        ctx.corr(f"c14.rddec {hx(w)} {s} {s + n}", impl, c)
        ctx.count("rdata.dec." + impl.split(" ")[0] + ("." + impl.split(" ")[1] if not impl.startswith("ok") else ""))
        if impl.startswith("FOREIGN"):
            fail(ctx, f"C14/rdata/foreign-exception:{impl.split(' ')[1]}", f"TSIG from_wire raised {impl}", rep)


def eval_mac(ctx, c, rep):
    key = mk_key(c["key"])
    data = bytes.fromhex(c["data"])
    n0 = len(SHIM.log)
    try:
        h = dns.tsig.get_context(key)
        h.update(data)
        mac = h.sign()
        impl = "ok " + hx(mac)
    except core.Stalled:
        raise
    except BaseException as e:
        mac = None
        impl = e_exc(e)
    ctx.corr(f"c14.mac {e_key(key)} {hx(data)} {e_h(SHIM.log[n0:])}", impl, c)
    try:
        exp = ref_mac(list(key.algorithm.labels), key.secret, data)
    except RefError:
        exp = None
    ctx.count("mac." + (str(key.algorithm) if exp is not None else "unknown-algorithm"))
    if exp is not None and mac != exp:
        fail(ctx, f"C14/mac/differs-from-rfc8945/{str(key.algorithm).lower()}",
                 f"HMACTSig for {key.algorithm} gives {mac.hex() if mac else impl}, RFC 8945 (hash, truncation) gives {exp.hex()}", rep)
    if exp is None and mac is not None and c["key"]["alg"].lower() != "gss-tsig.":
        fail(ctx, "C14/mac/unknown-algorithm-accepted", f"an algorithm outside RFC 8945 section 6 produced a MAC: {key.algorithm}", rep)
    # dns.tsig.mac_sizes must say the same length
    if exp is not None and dns.tsig.mac_sizes.get(key.algorithm) != len(exp):
        fail(ctx, f"C14/mac/mac_sizes/{str(key.algorithm).lower()}", f"mac_sizes[{key.algorithm}] = {dns.tsig.mac_sizes.get(key.algorithm)}, RFC length {len(exp)}", rep)


def eval_exch(ctx, c, rep):
    """query / response: the client signs a query, the server reads it with its keyring, builds the answer with
    dns.message.make_response (TSIG parameters and request MAC taken from the parsed query), the client reads the
    answer bound to the MAC of its query (what dns.query does: request_mac=query.mac)"""
    key = mk_key(c["key"])
    now = c["now"]
    q = mk_message(c["body"])
    q.use_tsig(key, fudge=c["qfudge"])
    CLOCK.t = now
    qw = q.to_wire()
    qt = ref_tsig(qw)
    skr = mk_keyring(c["skeyring"], key)
    so = None if not c.get("sorigin") else origins_for(key, qw, c["now"])[0]
    sq, e, log = lib_read(qw, skr, now + c["d1"], b"", None, False, origin=so)
    corr_read(ctx, c, qw, skr, now + c["d1"], b"", "none", False, sq, e, log)
    if e is not None or not sq.had_tsig:
        fail(ctx, "C14/validate/genuine-rejected/query", f"server side: the signed query does not validate: {e!r}", rep)
        return
    if sq.mac != qt["mac"] or q.mac != qt["mac"]:
        fail(ctx, "C14/sign/accessors", "Message.mac of the query (signer or reader side) is not the MAC on the wire", rep)
    kw = {}
    if c.get("rfudge") is not None:
        kw["fudge"] = c["rfudge"]
    if c.get("rerror"):
        kw["tsig_error"] = dns.rcode.Rcode(c["rerror"]) if c["now"] & 1 else c["rerror"]   # enum member or plain int
    try:
        r = dns.message.make_response(sq, **kw)
    except core.Stalled:
        raise
    except BaseException as e:
        fail(ctx, "C14/make_response/raises:" + type(e).__name__, f"make_response of a validated signed query raised {e!r}", rep)
        return
    for sec, name, ttl, rdtype, text in c["answers"]:
        r.find_rrset([r.answer, r.authority, r.additional][sec - 1], dns.name.from_text(name), dns.rdataclass.IN,
                     dns.rdatatype.from_text(rdtype), create=True).update(dns.rrset.from_text(name, ttl, "IN", rdtype, text))
    now2 = now + c["d1"] + c["d2"]
    CLOCK.t = now2
    n0 = len(SHIM.log)
    try:
        rw = r.to_wire(origin=so)   # (make_response does not carry the query's origin over; the question is relative to it)
    except core.Stalled:
        raise
    except BaseException as e:
        fail(ctx, "C14/make_response/to_wire-raises:" + type(e).__name__, f"rendering the response raised {e!r}", rep)
        return
    if not r.had_tsig:
        fail(ctx, "C14/make_response/unsigned", "the response to a signed, validated query carries no TSIG", rep)
        return
    # the key the server resolved (a bytes dict entry becomes a Key named like the owner on the wire)
    skey = sq.keyring
    p = {"fudge": c["rfudge"] if c.get("rfudge") is not None else 300, "error": c.get("rerror", 0)}
    t = check_signed(ctx, c, rep, rw, None, skey, p, now2, qt["mac"], None, "make_response + to_wire")
    if t is None:
        return
    # the client: bound to its own query's MAC
    m2, e, log = lib_read(rw, key, now2 + c["d3"], q.mac, None, False)
    corr_read(ctx, c, rw, key, now2 + c["d3"], q.mac, "none", False, m2, e, log)
    ctx.count("exch." + c["skeyring"] + "." + ("err%d" % c["rerror"] if c.get("rerror") else "ok"))
    if c.get("rerror"):
        if e is None:
            fail(ctx, "C14/validate/tsig-error-accepted", f"a response whose TSIG reports error {c['rerror']} was accepted", rep)
        return
    if e is not None or not m2.had_tsig:
        fail(ctx, "C14/validate/genuine-rejected/response",
             f"the response made by make_response for a signed query does not validate against the query's MAC: {e!r}", rep)
        return
    # ... and to no other request MAC (absent, or that of another query)
    for other in (b"", bytes([qt["mac"][0] ^ 0x80]) + qt["mac"][1:], qt["mac"][:-1]):
        m3, e3, log3 = lib_read(rw, key, now2 + c["d3"], other, None, False)
        corr_read(ctx, c, rw, key, now2 + c["d3"], other, "none", False, m3, e3, log3)
        if e3 is None:
            fail(ctx, "C14/validate/accepted/request-mac",
                 f"the response validates against a request MAC ({other.hex() or 'none'}) that is not its query's", rep)
    if c.get("flips"):
        bits = range(len(rw) * 8) if c["flips"] == "all" else c["flips"]
        scan_flips(ctx, c, rep, rw, key, now2 + c["d3"], q.mac, bits, f"response, {key.algorithm}")


def eval_krtext(ctx, c, rep):
    """dns.tsigkeyring text <-> binary, Key built from base64 text / algorithm text, and signing through such a keyring"""
    import base64 as _b64
    names = c["names"]
    secrets = [bytes.fromhex(x) for x in c["secrets"]]
    textring = {}
    for n, sec, alg in zip(names, secrets, c["algs"]):
        b64 = _b64.b64encode(sec).decode()
        textring[n] = b64 if alg is None else (alg, b64)
    try:
        kr = dns.tsigkeyring.from_text(textring)
    except core.Stalled:
        raise
    except BaseException as e:
        fail(ctx, "C14/tsigkeyring/from_text-raises:" + type(e).__name__, f"from_text({textring!r}) raised {e!r}", rep)
        return
    for n, sec, alg in zip(names, secrets, c["algs"]):
        v = kr.get(dns.name.from_text(n))
        if alg is None:
            ok = isinstance(v, bytes) and v == sec
        else:
            ok = isinstance(v, dns.tsig.Key) and v.secret == sec and v.algorithm == dns.name.from_text(alg) \
                and v.name == dns.name.from_text(n) and v.algorithm.to_digestable() == dns.name.from_text(alg).to_digestable()
        if not ok:
            fail(ctx, "C14/tsigkeyring/from_text/value", f"from_text gives {v!r} for {n} = ({alg}, {sec.hex()})", rep)
            return
        # the same key spelled as text to the Key constructor
        k2 = dns.tsig.Key(n, _b64.b64encode(sec).decode(), alg or "hmac-sha256")
        k3 = dns.tsig.Key(dns.name.from_text(n), sec, dns.name.from_text(alg or "hmac-sha256"))
        if k2.secret != sec or k2.name != k3.name or k2.algorithm != k3.algorithm or not (k2 == k3):
            fail(ctx, "C14/key/text-constructor", f"Key({n!r}, base64 text, {alg!r}) differs from the same key given as Name/bytes/Name", rep)
    back = dns.tsigkeyring.to_text(kr)
    again = dns.tsigkeyring.from_text(back)
    if again != kr or set(back) != set(dns.name.from_text(n).to_text() for n in names):
        fail(ctx, "C14/tsigkeyring/roundtrip", f"from_text(to_text(keyring)) differs from the keyring: {back!r}", rep)
    ctx.count("krtext.keyring")
    # Key equality is an equivalence that separates name / secret / algorithm, whatever route built the key
    for n, sec, alg in zip(names, secrets, c["algs"]):
        a = dns.tsig.Key(n, sec, alg or "hmac-sha256")
        b = dns.tsig.Key(dns.name.from_text(n.swapcase()), bytes(sec), dns.name.from_text((alg or "hmac-sha256").upper()))
        diffs = [dns.tsig.Key(other_label + n, sec, alg or "hmac-sha256") for other_label in ("x.",) if len(n) < 200] + [
            dns.tsig.Key(n, sec + b"\0", alg or "hmac-sha256"), dns.tsig.Key(n, sec[:-1], alg or "hmac-sha256"),
            dns.tsig.Key(n, sec, "hmac-sha1" if (alg or "hmac-sha256").lower().rstrip(".") != "hmac-sha1" else "hmac-sha512")]
        ok = (a == b) and (b == a) and not (a != b) and a == a and all((a != d) and not (a == d) and not (d == a) for d in diffs) \
            and not (a == sec) and (a != sec) and not (a == None)  # noqa: E711
        if not ok:
            fail(ctx, "C14/key/equality", f"Key equality is not the equivalence on (name, secret, algorithm) for {n} / {alg}", rep)
    # the tsig-keygen / named.conf file form (dns.tsigkeyring.from_file), in the spellings c["file_style"] selects
    i = c["use"]
    n, sec, alg = names[i], secrets[i], c["algs"][i]
    b64 = _b64.b64encode(sec).decode()
    st = c.get("file_style", 0)
    q = (lambda x: '"' + x + '"') if st & 1 else (lambda x: x)
    nl = ["\n", "\r\n", "\n\t", " "][(st >> 1) & 3]
    text = "key " + q(n) + " {" + nl
    if alg is not None:
        text += "algorithm " + q(alg) + ";" + nl
    text += "secret " + '"' + b64 + '"' + ";" + nl + "};" + ("\n" if st & 8 else "")
    import tempfile
    with tempfile.NamedTemporaryFile("w", suffix=".key", delete=True) as f:
        f.write(text)
        f.flush()
        try:
            fk = dns.tsigkeyring.from_file(f.name)
        except core.Stalled:
            raise
        except BaseException as e:
            fk = e
    exp = dns.tsigkeyring.from_text({n: b64 if alg is None else (alg, b64)})
    ctx.count("krtext.from_file." + ("ok" if isinstance(fk, dict) else type(fk).__name__))
    if not isinstance(fk, dict) or fk != exp:
        fail(ctx, "C14/tsigkeyring/from_file", f"from_file of {text!r} gives {fk!r}, expected {exp!r}", rep)
    # sign through the keyring (dict route of use_tsig), validate through the keyring round-tripped through text
    i = c["use"]
    n, sec, alg = names[i], secrets[i], c["algs"][i]
    use_alg = alg or c["default_alg"]
    m = mk_message(c["body"])
    try:
        m.use_tsig(kr, n if c["keyname_as_text"] else dns.name.from_text(n), fudge=300, algorithm=use_alg)
        CLOCK.t = c["now"]
        w = m.to_wire()
    except core.Stalled:
        raise
    except BaseException as e:
        fail(ctx, "C14/use_tsig/raises:" + type(e).__name__, f"use_tsig / to_wire with a text keyring raised {e!r}", rep)
        return
    want = dns.tsig.Key(dns.name.from_text(n), sec, dns.name.from_text(use_alg))
    t = check_signed(ctx, c, rep, w, None, want, {"fudge": 300}, c["now"], b"", None, "use_tsig(text keyring)")
    if t is None:
        return
    m2, e, log = lib_read(w, again, c["now"], b"", None, False)
    corr_read(ctx, c, w, again, c["now"], b"", "none", False, m2, e, log)
    if e is not None or not m2.had_tsig:
        fail(ctx, "C14/validate/genuine-rejected/text-keyring", f"signed through a text keyring, rejected through the same keyring: {e!r}", rep)
    ctx.count("krtext.signed." + ("bytes" if alg is None else "key"))


def eval_grid(ctx, c, rep):
    """the option grid (tsig_ctx None / fresh / left over from an earlier multi exchange) x (multi False / True) x
    (request MAC empty / not), through Message.to_wire + from_wire and through dns.tsig.sign / validate.
    RFC 8945: only a message that continues a multi-message exchange (multi AND a running context) is digested in the
    short form (running context, message, timers); everything else is a stand-alone message (request MAC if any,
    message, TSIG variables) - in particular a stale context handed in with multi=False must not matter."""
    key = mk_key(c["key"])
    now = c["now"]
    rm = bytes.fromhex(c["request_mac"])
    multi = bool(c["multi"])
    p = {"fudge": c["fudge"]}

    def mk_ctx():
        if c["ctx"] == "none":
            return None
        if c["ctx"] == "fresh":
            return dns.tsig.get_context(key)
        # left over: what an earlier exchange under the same key leaves behind (MAC of its last signed envelope with its
        # length, plus possibly an unsigned envelope)
        _, sctx, _ = lib_sign(c["prev"], key, {"fudge": 300}, now - 5, b"", None, True)
        if c["ctx"] == "leftover+unsigned":
            sctx.update(mk_message(c["prev"]).to_wire())
        return sctx

    def expected(w, t, cin):
        """the RFC input: continuation form iff multi and a context was handed in"""
        if multi and cin is not None:
            msg, _, timers = ref_components(w, t)
            return ref_mac(t["alg"], key.secret, cin.hmac_context.data + msg + timers)
        return ref_mac(t["alg"], key.secret, ref_input(w, t, rm, None))

    form = "continuation" if (multi and c["ctx"] != "none") else "stand-alone"
    tag = f"ctx={c['ctx']},multi={int(multi)},reqmac={'yes' if rm else 'no'}"
    # --- Message.to_wire(tsig_ctx=..., multi=...) / from_wire(tsig_ctx=..., multi=...)
    cin = mk_ctx()
    snap = copy.deepcopy(cin)
    w, ctx_out, rec = lib_sign(c["body"], key, p, now, rm, cin, multi)
    try:
        t = ref_tsig(w)
    except RefError:
        t = None
    if t is None:
        fail(ctx, "C14/sign/unparseable", f"to_wire({tag}) produced no well-formed signed message", rep)
        return
    exp = expected(w, t, snap)
    ctx.count(f"grid.{form}.{c['ctx']}.multi{int(multi)}")
    if t["mac"] != exp:
        fail(ctx, f"C14/sign/mac-differs-from-rfc8945/grid/{form}",
             f"Message.to_wire({tag}): MAC {t['mac'].hex()} is not the RFC 8945 {form} HMAC {exp.hex()} ({key.algorithm})", rep)
    if rec is not None:
        rd2, c2 = rec["out"]
        ctx.corr(f"c14.sign {hx(rec['wire'])} {e_key(rec['key'])} {e_rdata(rec['rdata'])} {rec['time']} {hx(rec['request_mac'] or b'')} "
                 f"{rec['ctx_in']} {int(bool(rec['multi']))} {e_h(rec['log'])}", f"ok {e_rdata(rd2)} {e_ctx(c2)}", c)
    # the receiver holding the same context and flags accepts it; for a stand-alone message so does a receiver with none
    readers = [("same ctx", copy.deepcopy(snap), multi)]
    if form == "stand-alone":
        readers.append(("no ctx", None, False))
    if exp == t["mac"]:
        for what, rc, rmulti in readers:
            line_in = e_ctx(rc)
            m2, e, log = lib_read(w, key, now, rm, rc, rmulti)
            corr_read(ctx, c, w, key, now, rm, line_in, rmulti, m2, e, log)
            if e is not None or not m2.had_tsig:
                fail(ctx, f"C14/validate/genuine-rejected/grid/{form}",
                     f"a genuine {form} message ({tag}) read with {what}, multi={int(rmulti)} is rejected: {e!r}", rep)
    # --- dns.tsig.sign / validate with the same arguments
    body = rec["wire"] if rec is not None else w[:t["start"]]
    tmpl = rd_from({"alg": c["key"]["alg"], "time": 0, "fudge": c["fudge"], "mac": "", "oid": struct.unpack("!H", body[:2])[0],
                    "error": 0, "other": ""})
    fin = copy.deepcopy(snap)
    n0 = len(SHIM.log)
    try:
        rd2, fout = dns.tsig.sign(body, key, tmpl, now, rm, fin, multi)
    except core.Stalled:
        raise
    except BaseException as e:
        fail(ctx, "C14/sign/raises:" + type(e).__name__, f"dns.tsig.sign({tag}) raised {e!r}", rep)
        return
    if rd2.mac != exp:
        fail(ctx, f"C14/sign/mac-differs-from-rfc8945/grid/{form}",
             f"dns.tsig.sign({tag}): MAC {rd2.mac.hex()} is not the RFC 8945 {form} HMAC {exp.hex()} ({key.algorithm})", rep)
    vin = copy.deepcopy(snap)
    vline = e_ctx(vin)
    n0 = len(SHIM.log)
    good = rd2.replace(mac=exp)
    try:
        vout = dns.tsig.validate(w, key, key.name, good, now, rm, t["start"], vin, multi)
        impl = f"ok {e_ctx(vout)} in={hx(SHIM.log[-1][2]) if len(SHIM.log) > n0 else '-'}"
    except core.Stalled:
        raise
    except BaseException as e:
        impl = e_exc(e)
        fail(ctx, f"C14/validate/genuine-rejected/grid/{form}",
             f"dns.tsig.validate({tag}) rejects the RFC 8945 {form} MAC: {e!r}", rep)
    ctx.corr(f"c14.validate {hx(w)} {e_key(key)} {e_name(key.name)} {e_rdata(good)} {now} {hx(rm)} {t['start']} {vline} {int(multi)} {e_h(SHIM.log[n0:])}",
             impl, c)


def eval_arcount(ctx, c, rep):
    """ARCOUNT (TSIG included) at and around the octet boundaries of the 16-bit field: validate() rebuilds the header with
    ARCOUNT - 1, a borrow across the octets when the count is a multiple of 256.  Tiny root-owner TXT records."""
    key = mk_key(c["key"])
    now = c["now"]
    n = c["arcount"]
    m = mk_message(c["body"])
    if n > 1:
        m.additional.append(dns.rrset.from_text(".", 0, "IN", "TXT", *['"%d"' % j for j in range(n - 1)]))
    m.use_tsig(key, fudge=300)
    CLOCK.t = now
    n0 = len(SHIM.log)
    w = m.to_wire(max_size=65535)
    if struct.unpack("!H", w[10:12])[0] != n:
        ctx.count("arcount.unexpected-count")
        return
    t = check_signed(ctx, c, rep, w, None, key, {"fudge": 300}, now, b"", None, f"to_wire with ARCOUNT {n}")
    ctx.count(f"arcount.{n}")
    if t is None:
        return
    for kr in (key, {key.name: key.secret}):
        m2, e, log = lib_read(w, kr, now, b"", None, False)
        corr_read(ctx, c, w, kr, now, b"", "none", False, m2, e, log)
        if e is not None or not m2.had_tsig:
            fail(ctx, "C14/validate/genuine-rejected/arcount",
                 f"a genuine signed message with ARCOUNT {n} (= {n >> 8:#04x} {n & 255:#04x}, TSIG included) does not validate: {e!r}", rep)
    # dns.tsig.validate directly, and dns.tsig.sign over the body
    rd = rd_from({"alg": c["key"]["alg"], "time": t["time"], "fudge": t["fudge"], "mac": t["mac"].hex(), "oid": t["oid"], "error": 0, "other": ""})
    n0 = len(SHIM.log)
    try:
        out = dns.tsig.validate(w, key, key.name, rd, now, b"", t["start"], None, False)
        impl = f"ok {e_ctx(out)} in={hx(SHIM.log[-1][2]) if len(SHIM.log) > n0 else '-'}"
    except core.Stalled:
        raise
    except BaseException as e:
        impl = e_exc(e)
        fail(ctx, "C14/validate/genuine-rejected/arcount", f"dns.tsig.validate rejects a genuine message with ARCOUNT {n}: {e!r}", rep)
    ctx.corr(f"c14.validate {hx(w)} {e_key(key)} {e_name(key.name)} {e_rdata(rd)} {now} - {t['start']} none 0 {e_h(SHIM.log[n0:])}", impl, c)


def eval_usetsig(ctx, c, rep):
    """key and TSIG owner chosen by Message.use_tsig for every keyring shape; then the signed message validates"""
    keys = [mk_key(k) for k in c["keys"]]
    shape = c["shape"]
    names = [dns.name.from_text(n) for n in c["names"]]
    if shape == "key":
        kr = keys[0]
    elif shape == "dict-bytes":
        kr = {n: k.secret for n, k in zip(names, keys)}
    elif shape == "dict-key":
        kr = {n: k for n, k in zip(names, keys)}
    else:
        kr = CallKR({n: k for n, k in zip(names, keys)})
    keyname = None if c["keyname"] is None else dns.name.from_text(c["keyname"])
    alg = dns.name.from_text(c["alg"])
    m = mk_message(c["body"])
    try:
        m.use_tsig(kr, keyname, algorithm=alg)
        impl = f"ok {e_key(m.keyring)} {e_name(m.tsig.name)}"
    except core.Stalled:
        raise
    except BaseException as e:
        impl = "err"
    ctx.corr(f"c14.usetsig {e_keyring(kr)} {'none' if keyname is None else e_name(keyname)} {e_name(alg)}", impl, c)
    ctx.count("usetsig." + shape + "." + impl.split(" ")[0])
    if impl.startswith("ok") and m.keyring.name == m.tsig.name:
        # whoever holds the same keyring validates what was signed with it
        CLOCK.t = c["now"]
        try:
            w = m.to_wire()
        except core.Stalled:
            raise
        except BaseException as e:
            ctx.count("usetsig.to_wire-raises." + type(e).__name__)
            return
        vkr = kr if shape != "dict-bytes" or m.keyring.algorithm == alg else kr
        m2, e, log = lib_read(w, vkr, c["now"], b"", None, False)
        corr_read(ctx, c, w, vkr, c["now"], b"", "none", False, m2, e, log)
        if e is not None or not m2.had_tsig:
            fail(ctx, f"C14/validate/genuine-rejected/keyring-{shape}",
                 f"a message signed through use_tsig with a {shape} keyring does not validate with the same keyring: {e!r}", rep)


# ------------------------------------------------------------------------------------------------
# generators
# ------------------------------------------------------------------------------------------------
LABELS = ["example", "Example", "EXAMPLE", "com", "net", "www", "ns1", "key", "Key", "tsig-key", "a", "xfer", "zone", "K-1", "mail"]
OWNER_NAMES = ["www.example.", "example.", "a.example.", "ns1.example.", "mail.Example.", "x.y.example.", "example.net."]
RRPOOL = [
    ("A", ["192.0.2.1", "192.0.2.77", "10.0.0.1"]),
    ("AAAA", ["2001:db8::1", "::1"]),
    ("NS", ["ns1.example.", "ns2.example.net."]),
    ("MX", ["10 mail.example.", "0 ."]),
    ("TXT", ['"hello world"', '"a" "b"', '""']),
    ("CNAME", ["www.example.", "target.example.net."]),
    ("SOA", ["ns1.example. hostmaster.example. 2024010101 3600 600 86400 300"]),
    ("TYPE65280", ["\\# 3 abcdef", "\\# 0", "\\# 1 00"]),
]
FUDGES = [300, 300, 300, 0, 1, 2, 65535, 600, 30]
ERRS = [16, 17, 18, 22, 1, 5, 23, 4095]


def gen_name(rng, share=None):
    """a key name; with `share` it reuses a suffix of the question name so the TSIG owner gets compressed"""
    if share and rng.chance(1, 2):
        labs = share.rstrip(".").split(".")
        suffix = ".".join(labs[rng.below(len(labs)):])
        return rng.choice(LABELS) + "." + suffix + "."
    if rng.chance(1, 25):
        # a key name of the maximal wire length 255 (63+63+63+61 octets of labels)
        return ".".join(["K" * 63, "e" * 63, "y" * 63, "z" * 61]) + "."
    k = rng.range(1, 3)
    return ".".join(rng.choice(LABELS) for _ in range(k)) + "."


def gen_key(rng, share=None, alg=None):
    n = rng.choice([0, 1, 8, 16, 20, 32, 64, 65, 100, 200])   # 0: the empty secret is a (poor but) valid HMAC key
    return {"name": gen_name(rng, share), "secret": rng.bytes(n).hex(), "alg": alg or rng.choice(ALGS)}


def gen_body(rng, response=None, xfr=False):
    if not xfr and rng.chance(1, 8):
        rrs = []
        for _ in range(rng.range(1, 3)):
            t, vals = rng.choice(RRPOOL[:5])
            rrs.append([rng.choice(["www", "a", "mail", "x.y"]), rng.choice([0, 60, 3600]), t, rng.choice(vals)])
        return {"update": True, "zone": "example.", "id": rng.below(65536), "rrs": rrs}
    if response is None:
        response = rng.chance(1, 2)
    flags = 0
    if response:
        flags |= 0x8000
        if rng.chance(1, 2):
            flags |= 0x0400
    if rng.chance(1, 2):
        flags |= 0x0100
    if rng.chance(1, 10):
        flags |= 0x2000  # NOTIFY
    if response and rng.chance(1, 6):
        flags |= rng.choice([2, 3, 5, 9])
    q = [rng.choice(OWNER_NAMES), rng.choice(["A", "SOA", "AXFR", "TXT", "MX"])]
    rrs = []
    if response or rng.chance(1, 5):
        for _ in range(rng.choice([0, 1, 1, 2, 3, 6])):
            t, vals = rng.choice(RRPOOL)
            rrs.append([rng.choice([1, 1, 1, 2, 3]), rng.choice(OWNER_NAMES), rng.choice([0, 1, 300, 86400, 2147483647]), t, rng.choice(vals)])
    return {"id": rng.below(65536), "flags": flags, "q": q if (not xfr or rng.chance(1, 2)) else None, "rrs": rrs, "edns": rng.chance(1, 4)}


def gen_exch(rng, flips=None):
    body = gen_body(rng, response=False)
    while body.get("update") or not body.get("q"):
        body = gen_body(rng, response=False)
    body["rrs"] = []
    key = gen_key(rng, body["q"][0])
    answers = []
    for _ in range(rng.choice([0, 1, 2, 4])):
        t, vals = rng.choice(RRPOOL)
        answers.append([rng.choice([1, 1, 2, 3]), rng.choice(OWNER_NAMES), rng.choice([0, 60, 86400]), t, rng.choice(vals)])
    qf = rng.choice(FUDGES)
    rf = rng.choice([None, None, 0, 1, 300, 65535])
    eff = 300 if rf is None else rf
    c = {"kind": "exch", "key": key, "body": body, "answers": answers, "now": gen_now(rng) + 70000, "qfudge": qf, "rfudge": rf,
         "skeyring": rng.choice(["key", "dict-key", "dict-bytes", "callable"]),
         "d1": rng.choice([0, qf, 0]), "d2": rng.choice([0, 1, 5]), "d3": rng.choice([0, eff, -eff if eff < 1000 else 0, 0]),
         "rerror": rng.choice([0, 0, 0, 0, 0, 18, 16, 17]), "sorigin": rng.chance(1, 3)}
    if flips:
        c["flips"] = flips
    return c


def gen_grid(rng, ctxk=None, multi=None):
    body = gen_body(rng, response=True)
    while body.get("update"):
        body = gen_body(rng, response=True)
    body["edns"] = False
    prev = gen_body(rng, response=True, xfr=True)
    prev.pop("update", None)
    prev["edns"] = False
    return {"kind": "grid", "key": gen_key(rng, "example."), "body": body, "prev": prev, "now": gen_now(rng) + 70000,
            "ctx": ctxk or rng.choice(["none", "fresh", "leftover", "leftover+unsigned"]),
            "multi": int(rng.chance(1, 2)) if multi is None else multi, "fudge": rng.choice(FUDGES),
            "request_mac": rng.bytes(rng.choice([16, 32, 64])).hex() if rng.chance(1, 2) else ""}


def gen_arcount(rng, n):
    body = gen_body(rng, response=True)
    while body.get("update"):
        body = gen_body(rng, response=True)
    body["edns"] = False
    body["rrs"] = [r for r in body["rrs"] if r[0] != 3]
    return {"kind": "arcount", "key": gen_key(rng, "example."), "body": body, "arcount": n, "now": gen_now(rng) + 70000}


def gen_krtext(rng):
    n = rng.range(1, 3)
    names = []
    while len(names) < n:
        x = gen_name(rng)
        if x.lower() not in [y.lower() for y in names]:
            names.append(x)
    body = gen_body(rng, response=False)
    while body.get("update"):
        body = gen_body(rng, response=False)
    return {"kind": "krtext", "names": names, "secrets": [rng.bytes(rng.choice([1, 2, 3, 16, 32, 57, 64])).hex() for _ in names],
            "algs": [rng.choice([None] * 6 + ALGS + ["HMAC-SHA512.", "hmac-sha256"]) for _ in names], "use": rng.below(n),
            "default_alg": rng.choice(ALGS), "keyname_as_text": rng.chance(1, 2), "body": body, "now": gen_now(rng) + 70000,
            "file_style": rng.below(16)}


def gen_tsig(rng, idv):
    p = {"fudge": rng.choice(FUDGES)}
    if rng.chance(1, 3):
        p["orig_id"] = rng.choice([idv ^ 1, idv ^ 0x8000, rng.below(65536), 0, 65535])
    if rng.chance(1, 6):
        p["other"] = rng.bytes(rng.choice([1, 6, 6, 17])).hex()
    if rng.chance(1, 12):
        p["error"] = rng.choice(ERRS)   # a signed error answer (BADTIME carries the server time as other data)
        if p["error"] == 18:
            p["other"] = rng.bytes(6).hex()
    return p


def gen_now(rng):
    if rng.chance(1, 12):
        return 2 ** 48 - 1 - 70000 - rng.choice([67100, 70000, 140000])   # signing time just below the 48-bit limit (room for the offsets the cases add)
    return rng.choice([1700000000, 0x7FFFFFFF, 0x80000000, 0xFFFFFFFF, 0x100000000, 0x1234567890, 70000, 2 ** 47 + 12345, rng.below(2 ** 33)])


def gen_msg(rng, flips, alg=None, big=False):
    body = gen_body(rng)
    if big and not body.get("update"):
        # beyond 16 KiB: the TSIG RR starts above 0x3FFF, where no compression pointer can reach
        body["rrs"] = [[rng.choice([1, 2, 3]), f"n{j}.{rng.choice(OWNER_NAMES)}", 60, "TXT", '"' + "t" * 200 + '"'] for j in range(90)]
        body["edns"] = False   # (an advertised EDNS payload would cap the message size)
    share = body["q"][0] if body.get("q") else "example."
    key = gen_key(rng, share, alg)
    p = gen_tsig(rng, body["id"])
    f = p["fudge"]
    c = {"kind": "msg", "key": key, "body": body, "tsig": p, "now": gen_now(rng) + 70000,
         "request_mac": rng.bytes(rng.choice([16, 20, 32, 64, 1])).hex() if rng.chance(1, 2) else "",
         "keyring": rng.choice(["key", "key", "dict-key", "dict-bytes", "callable"]),
         "deltas": sorted(set([0, rng.choice([f, -f]), rng.choice([f + 1, -f - 1])])),
         "signer": rng.choice(["lib", "lib", "lib", "ref", "renderer"]),
         "routes": rng.choice([0, 1, 2, 4, 8, 8, 3, 15]) | (16 if rng.chance(1, 2) else 0) | (32 if rng.chance(1, 3) else 0)}
    if flips:
        c["flips"] = flips
    return c


def other_name(rng, name):
    while True:
        n = gen_name(rng)
        if n.lower() != name.lower():
            return n


def gen_reject(rng, mut=None):
    c = gen_msg(rng, None)
    c["kind"] = "reject"
    c.pop("deltas"), c.pop("signer"), c.pop("keyring"), c.pop("routes", None)
    mut = mut or rng.choice(MUTS)
    c["mut"] = mut
    c["arg"] = rng.below(1 << 16)
    f = c["tsig"]["fudge"]
    if mut.startswith("keyname"):
        c["other_name"] = other_name(rng, c["key"]["name"])
    elif mut == "algorithm":
        c["other_alg"] = rng.choice([a for a in ALGS if a.lower() != c["key"]["alg"].lower()])
    elif mut == "time":
        c["arg"] = rng.choice([f + 1, -(f + 1), f + 2, -(f + 2), f + 1000, -(f + 1000), 2 ** 32, -(2 ** 31)])
        if c["now"] + c["arg"] < 0:
            c["arg"] = f + 1
    elif mut == "request-mac":
        rm = bytes.fromhex(c["request_mac"])
        choices = [b"", rm + b"\0", rm[:-1], bytes([rm[0] ^ 1]) + rm[1:] if rm else b"\1", rng.bytes(len(rm) or 16), b"\0" * len(rm)]
        o = rng.choice([x for x in choices if x != rm])
        c["other_mac"] = o.hex()
    elif mut == "tsig-error":
        c["tsig"]["error"] = rng.choice(ERRS)
        c["signer"] = rng.choice(["lib", "renderer"])
        if c["tsig"]["error"] == 18:
            c["tsig"]["other"] = rng.bytes(6).hex()
    c["tsig"].pop("error", None) if mut != "tsig-error" else None
    return c


def gen_seq(rng, flips_budget=0):
    n = rng.range(2, 6)
    key = gen_key(rng, "example.")
    envs = []
    for i in range(n):
        signed = i == 0 or i == n - 1 or rng.chance(1, 2)
        envs.append({"signed": signed, "body": gen_body(rng, response=True, xfr=True)})
    for e in envs:
        e["body"].pop("update", None)
        e["body"]["edns"] = False
    p = {"fudge": rng.choice([300, 300, 5, 65535])}
    c = {"kind": "seq", "key": key, "tsig": p, "now": gen_now(rng) + 70000, "envs": envs,
         "request_mac": rng.bytes(rng.choice([16, 32, 64])).hex() if rng.chance(3, 4) else "",
         "signer": rng.choice(["lib", "lib", "ref", "renderer"]), "origin_route": rng.chance(1, 3)}
    if flips_budget:
        fl = []
        for _ in range(2):
            fi = rng.below(n)
            fl.append([fi, "all" if flips_budget == "all" else sorted(set(rng.below(100 * 8) for _ in range(flips_budget)))])
        c["flips"] = fl
    return c


def gen_rd(rng):
    return {"alg": rng.choice(ALGS + ["weird.alg.", "."]), "time": rng.choice([0, 1, 2 ** 32 - 1, 2 ** 32, 2 ** 48 - 1, rng.below(2 ** 48)]),
            "fudge": rng.choice([0, 1, 300, 65535]), "mac": rng.bytes(rng.choice([0, 1, 16, 20, 32, 64])).hex(),
            "oid": rng.choice([0, 1, 255, 256, 65535, rng.below(65536)]), "error": rng.choice([0, 0, 0, 16, 17, 18, 22, 1, 4095]),
            "other": rng.bytes(rng.choice([0, 0, 0, 6, 1])).hex()}


def gen_fn(rng):
    key = gen_key(rng)
    if rng.chance(1, 12):
        key["alg"] = rng.choice(["hmac-sha3-256.", "unknown.", "hmac-sha256.example."])
    rd = gen_rd(rng)
    if rng.chance(3, 4):
        rd["alg"] = key["alg"] if rng.chance(5, 6) else key["alg"].swapcase()
    n = rng.choice([12, 12, 13, 17, 40, 90])
    wire = bytearray(rng.bytes(n))
    wire[10:12] = struct.pack("!H", rng.choice([0, 1, 1, 1, 2, 256, 65535]))
    op = rng.choice(["digest", "sign", "validate", "validate"])
    if rng.chance(1, 40):
        rd["other"] = rng.bytes(1).hex() * rng.choice([65534, 65535, 65536])   # the `other_len > 65535` test of _digest
        rd["error"] = 0
        op = rng.choice(["digest", "sign"])
    multi = rng.chance(1, 2)
    c = {"kind": "fn", "op": op, "key": key, "rdata": rd, "wire": bytes(wire).hex(), "multi": int(multi),
         "request_mac": rng.bytes(rng.choice([0, 0, 1, 16, 32])).hex(), "time": rng.choice([None, rd["time"], rng.below(2 ** 48)]),
         "now": rd["time"] + rng.choice([0, 0, rd["fudge"], -rd["fudge"], rd["fudge"] + 1, -rd["fudge"] - 1, 5]),
         "tsig_start": rng.choice([n, n, 12, 11, 0, n + 5, rng.below(n + 1)]),
         "owner": key["name"] if rng.chance(4, 5) else key["name"].swapcase() if rng.chance(1, 2) else "other.",
         "ctx": None}
    if c["now"] < 0:
        c["now"] = 0
    if op == "sign" and c["time"] is None:
        c["time"] = rd["time"]
    if rng.chance(1, 2):
        c["ctx"] = {"secret": rng.choice([key["secret"], "00ff"]), "alg": rng.choice(ALGS), "data": rng.bytes(rng.choice([0, 2, 34])).hex()}
    return c


def gen_rdata_case(rng):
    if rng.chance(1, 3):
        return {"kind": "rdata", "dir": "enc", "rdata": gen_rd(rng)}
    rd = rd_from(gen_rd(rng))
    w = bytearray(rd.to_wire())
    pre = rng.bytes(rng.choice([0, 0, 3, 12]))
    m = rng.below(6)
    if m == 0 and w:
        w[rng.below(len(w))] ^= 1 << rng.below(8)
    elif m == 1 and w:
        w = w[: rng.below(len(w))]
    elif m == 2:
        w += rng.bytes(rng.range(1, 3))
    elif m == 3 and len(pre) >= 3:
        # algorithm name through a compression pointer into the prefix
        pre = b"\x01a\x00" + pre[3:]
        w = bytearray(b"\x03alg\xc0\x00") + w[len(rd.algorithm.to_wire()):]
    full = bytes(pre) + bytes(w) + rng.bytes(rng.choice([0, 0, 2]))
    n = len(w) if rng.chance(4, 5) else rng.below(len(w) + 3)
    return {"kind": "rdata", "dir": "dec", "wire": full.hex(), "start": len(pre), "len": min(n, len(full) - len(pre))}


def gen_mac(rng, alg=None):
    key = gen_key(rng, alg=alg)
    if alg is None and rng.chance(1, 6):
        key["alg"] = rng.choice(["hmac-sha3-256.", "hmac-md5.", "hmac-sha256-64.", "HMAC-SHA256.", "Hmac-Sha512-256."])
    return {"kind": "mac", "key": key, "data": rng.bytes(rng.choice([0, 1, 55, 56, 64, 65, 200])).hex()}


def gen_usetsig(rng):
    n = rng.range(1, 3)
    names = []
    while len(names) < n:
        x = gen_name(rng)
        if x.lower() not in [y.lower() for y in names]:
            names.append(x)
    shape = rng.choice(["key", "dict-bytes", "dict-key", "callable"])
    keys = []
    for nm in names:
        k = gen_key(rng)
        k["name"] = nm if rng.chance(5, 6) else other_name(rng, nm)  # a dict/callable entry whose Key bears another name
        if shape in ("key", "dict-bytes"):
            k["name"] = nm
        keys.append(k)
    kn = rng.choice([None, names[0], names[-1], names[0].swapcase(), "absent.example."])
    body = gen_body(rng)
    body.pop("update", None)
    if "flags" not in body:
        body = gen_body(rng, response=False)
        while body.get("update"):
            body = gen_body(rng, response=False)
    return {"kind": "usetsig", "shape": shape, "keys": keys, "names": names, "keyname": kn, "alg": rng.choice(ALGS), "body": body,
            "now": gen_now(rng)}


def case_key(c):
    return json.dumps(c, sort_keys=True)


def generate(ctx: Ctx, scale, rng, flips=True):
    def go(c, sample=True):
        ctx.case(case_key(c), sample=(c if sample and len(json.dumps(c)) < 1500 else None))
        eval_case(ctx, c)

    n = lambda q: max(1, int(q * scale))
    for alg in ALGS:
        go(gen_mac(rng, alg))
        go(gen_msg(rng, "all" if flips else None, alg))
    for _ in range(n(40)):
        go(gen_mac(rng))
    for _ in range(n(60)):
        go(gen_msg(rng, "all" if flips else None))
    for _ in range(n(150)):
        go(gen_msg(rng, None))
    for _ in range(n(3)):
        c = gen_msg(rng, None, big=True)
        c["flips"] = sorted(set(rng.below(17000 * 8) for _ in range(150)))
        go(c, sample=False)
    for mut in MUTS:
        for _ in range(n(6)):
            go(gen_reject(rng, mut))
    for _ in range(n(80)):
        go(gen_reject(rng))
    for _ in range(n(60)):
        go(gen_seq(rng, 0))
    for _ in range(n(8)):
        go(gen_seq(rng, "all" if flips else 0), sample=False)
    for _ in range(n(120)):
        go(gen_usetsig(rng))
    for _ in range(n(70)):
        go(gen_exch(rng))
    for _ in range(n(4)):
        c = gen_exch(rng)
        c["rerror"] = 0
        c["flips"] = "all"
        go(c, sample=False)
    for _ in range(n(60)):
        go(gen_krtext(rng))
    for cnt in (1, 2, 255, 256, 257, 511, 512, 513):
        go(gen_arcount(rng, cnt), sample=False)
    for ctxk in ("none", "fresh", "leftover", "leftover+unsigned"):
        for multi in (0, 1):
            for _ in range(n(6)):
                go(gen_grid(rng, ctxk, multi))
    for _ in range(n(600)):
        go(gen_fn(rng))
    for _ in range(n(500)):
        go(gen_rdata_case(rng))


def probe_variant(ctx):
    """which side of the recorded TTL finding does the working tree implement?  (DESIGN §6: the model follows the code)"""
    install()
    key = dns.tsig.Key("k.", b"0123456789abcdef", "hmac-sha256.")
    body = mk_message({"id": 1, "flags": 0x0100, "q": ["example.", "A"], "rrs": []}).to_wire()
    w, _ = ref_sign(body, list(key.name.labels), list(key.algorithm.labels), key.secret, 1000, 300, 1, 0, b"", b"", None, ttl=1)
    m, e, _ = lib_read(w, key, 1000, b"", None, False)
    STRICT["v"] = 1 if isinstance(e, dns.exception.FormError) else 0
    ctx.extra["ttl_variant"] = "intended (non-zero TSIG TTL rejected)" if STRICT["v"] else "asShipped (TSIG TTL ignored)"


def run(ctx: Ctx):
    install()
    try:
        probe_variant(ctx)
        for p in sorted(glob.glob(os.path.join(core.VERIF, "corpus", "C14", "*.json"))):
            c = json.load(open(p))
            ctx.case(("corpus", os.path.basename(p)))
            eval_case(ctx, c)
            ctx.count("corpus")
        generate(ctx, 1 if ctx.tier == "quick" else 12, ctx.rng)
    finally:
        uninstall()


def search(ctx: Ctx):
    """failing-input search on the implementation: the disagreeing cases with full alteration scans, then a fresh budget"""
    install()
    try:
        for m in ctx.mismatches[:40]:
            if m.case is not None:
                c = dict(m.case)
                if c.get("kind") == "msg":
                    c["flips"] = "all"
                    c.setdefault("deltas", [0])
                eval_case(ctx, c)
        generate(ctx, 2 if ctx.tier == "quick" else 20, ctx.rng.fork(7))
    finally:
        uninstall()


def replay(ctx: Ctx, obj: dict):
    """re-evaluate the recorded case; a replay file stands for one failure signature, so only failures of that
    signature count (a full alteration scan on the unchanged tree also meets the recorded TTL finding)"""
    install()
    try:
        probe_variant(ctx)
        eval_case(ctx, obj["case"])
    finally:
        uninstall()
    sig = obj.get("signature")
    known = {f["signature"] for f in core.load_known().get("findings", []) if f.get("property") == "C14"}
    out = [f for f in ctx.failures if (f.signature == sig if sig else f.signature not in known)]
    return [f.what for f in out]

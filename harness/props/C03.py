"""C03 — messages survive render-then-parse unchanged; header counts exact; re-render reproduces the bytes;
every compression pointer targets an earlier occurrence of exactly that suffix.

Correspondence: Message.to_wire / dns.message.from_wire / rcode+opcode codecs (working tree) vs
lean/Model/Render.lean + lean/Model/Message.lean through the driver.
Oracle: the three equalities and the pointer discipline evaluated on the implementation, the latter with
an independent wire walker that uses nothing of dnspython.

(Shared with C08: message case <-> dnspython objects <-> protocol tokens, generators, the wire walker.)
"""
from harness.core import Stalled as _Stalled
import glob
import json
import os
import struct
import types
import zlib

import dns.edns
import dns.exception
import dns.flags
import dns.message
import dns.name
import dns.opcode
import dns.rcode
import dns.rdata
import dns.rdataclass
import dns.rdataset
import dns.rdatatype
import dns.renderer
import dns.rrset
import dns.tsig
import dns.update

from harness.core import VERIF, Ctx, enc_labels, hx

RULE = (
    "cases are generated from one SplitMix64 state: well-formed messages of every opcode (QUERY, IQUERY, STATUS, NOTIFY, "
    "UPDATE built through the UpdateMessage API with all delete/prerequisite forms, unassigned opcodes), every section mix, "
    "owner names drawn from a few base suffixes over a small label alphabet so that suffixes repeat (including "
    "case-differing repeats and arbitrary-octet labels), NS/CNAME/PTR/MX/SOA rdata with embedded names, opaque rdata of "
    "~12 further types, messages pushed across offset 0x3FFF, EDNS versions/flags/payloads/option lists, extended rcodes, "
    "TSIG, with and without an origin (incl. the root); direct dns.renderer.Renderer scripts with a tight max_size in which the "
    "caller catches TooBig and keeps adding rrsets whose owner / NS / MX / SOA names end in or equal the rolled-back owner (through add_rrset or "
    "add_rdataset, add_question with and without its class, the constructor with positional/keyword/default arguments, add_edns, a relative owner "
    "without origin); hand-encoded UPDATE wires around the zone-section rules and delete forms in every section; UPDATE messages assembled from RRset "
    "objects (empty rrsets from from_text / clear() with TTL in {0, 1, 3600, 2^31-1}, class ANY / NONE / zone class, parser's and API's representation); plus a mutated-wire stream (count/rdlen/ttl/pointer/class edits, "
    "truncation, trailing junk) and header-field pools; a case is non-trivial if its key (kind + content) is new"
)
TRUSTED_BASE = [
    "Python int/bytes/dict semantics, struct.pack/unpack big-endian fixed width (modelled as radix-256 encode/decode), io.BytesIO seek/truncate/write",
    "HMAC (TSIG MAC) is abstract: the model is handed the MAC octets the signer produced; validation on parse is assumed to succeed when a key is supplied (C14)",
    "RDATA of types that do not compress embedded names is opaque octets (their codecs are C02's business); EDNS options are (code, octets)",
]
ASSUMPTIONS = [
    "compressed names decode byte-identically unless an earlier name in the message has the same suffix in different ASCII case, in which case they are equal as names (RFC 1035/4343 reading, DESIGN §6)",
    "want_shuffle=False; ids/flags/ttl/class/type within their field widths; continue_on_error, xfr, multi and question_only are outside the model",
    "well-formed message: distinct RRset keys per section, singleton types hold one rdata, no empty RRset outside update delete/prerequisite forms (as the library's own constructors guarantee)",
    "origins are absolute names; 'equal after relativisation' = equal to the original with every section name derelativized and relativized again against the origin (the identity on relative names and on absolute names not at or below the origin); OPT and TSIG owner names are never relativized",
]

FIXED_TIME = 1700000000


def pin_time():
    dns.message.time = types.SimpleNamespace(time=lambda: float(FIXED_TIME))


NAME1 = (2, 5, 12)
MXT = (15,)
SOAT = (6,)
SIGT = (24, 46)


# ------------------------------------------------------------------------------------------------
# case <-> protocol tokens
# ------------------------------------------------------------------------------------------------
def L(hexlabels):
    return [bytes.fromhex(x) for x in hexlabels]


def hexl(labels):
    return [bytes(l).hex() for l in labels]


def name_tok(hexlabels):
    return enc_labels(L(hexlabels))


def rd_tok(rd):
    k = rd["k"]
    if k == "o":
        return "o." + (rd["b"] or "-")
    if k == "n":
        return "n." + name_tok(rd["n"])
    if k == "m":
        return f"m.{rd['p']}.{name_tok(rd['n'])}"
    return "s." + name_tok(rd["m"]) + "." + name_tok(rd["r"]) + "." + ".".join(str(x) for x in rd["i"])


def rrset_tok(sec, r):
    d = "-" if r["deleting"] is None else str(r["deleting"])
    rds = ";".join(rd_tok(x) for x in r["rdatas"]) or "_"
    return f"S{sec}:{name_tok(r['name'])}:{r['rdclass']}:{r['rdtype']}:{r['covers']}:{d}:{r['ttl']}:{rds}"


def opts_tok(options):
    return ";".join(f"{t}.{b or '-'}" for t, b in options) or "_"


def msg_tokens(c, pad=None):
    org = "none" if c["origin"] is None else name_tok(c["origin"])
    toks = [f"H:{c['id']}:{c['flags']}:{org}:{c.get('request_payload', 0)}:{c['pad'] if pad is None else pad}"]
    if c["opt"] is not None:
        o = c["opt"]
        toks.append(f"O:{o['ttl']}:{o['payload']}:{opts_tok(o['options'])}")
    if c["tsig"] is not None:
        t = c["tsig"]
        toks.append(
            f"T:{name_tok(t['name'])}:{name_tok(t['alg'])}:{t['time']}:{t['fudge']}:{t['mac'] or '-'}:{t['orig_id']}:{t['error']}:{t['other'] or '-'}"
        )
    for sec in range(4):
        for r in c["sections"][sec]:
            toks.append(rrset_tok(sec, r))
    return " ".join(toks)


# ------------------------------------------------------------------------------------------------
# case <-> dnspython objects
# ------------------------------------------------------------------------------------------------
def mk_rdata(rdclass, rdtype, rd):
    k = rd["k"]
    if k == "o":
        b = bytes.fromhex(rd["b"])
        return dns.rdata.from_wire(rdclass, rdtype, b, 0, len(b))
    cls = dns.rdata.get_rdata_class(rdclass, rdtype)
    if k == "n":
        return cls(rdclass, rdtype, dns.name.Name(L(rd["n"])))
    if k == "m":
        return cls(rdclass, rdtype, rd["p"], dns.name.Name(L(rd["n"])))
    return cls(rdclass, rdtype, dns.name.Name(L(rd["m"])), dns.name.Name(L(rd["r"])), *rd["i"])


def rd_case(rd, origin=None):
    t = int(rd.rdtype)
    if t in NAME1:
        return {"k": "n", "n": hexl(rd.target.labels)}
    if t in MXT:
        return {"k": "m", "p": int(rd.preference), "n": hexl(rd.exchange.labels)}
    if t in SOAT:
        return {"k": "s", "m": hexl(rd.mname.labels), "r": hexl(rd.rname.labels),
                "i": [int(rd.serial), int(rd.refresh), int(rd.retry), int(rd.expire), int(rd.minimum)]}
    return {"k": "o", "b": rd.to_wire(origin=origin).hex()}


def rrset_case(r, origin=None):
    return {"name": hexl(r.name.labels), "rdclass": int(r.rdclass), "rdtype": int(r.rdtype), "covers": int(r.covers),
            "deleting": None if r.deleting is None else int(r.deleting), "ttl": int(r.ttl),
            "rdatas": [rd_case(x, origin) for x in r]}


def opt_case(opt):
    rd = opt[0]
    return {"ttl": int(opt.ttl), "payload": int(rd.rdclass), "options": [[int(o.otype), o.to_wire().hex()] for o in rd.options]}


def tsig_case(ts):
    rd = ts[0]
    return {"name": hexl(ts.name.labels), "alg": hexl(rd.algorithm.labels), "time": int(rd.time_signed), "fudge": int(rd.fudge),
            "mac": rd.mac.hex(), "orig_id": int(rd.original_id), "error": int(rd.error), "other": rd.other.hex()}


def case_of_message(m, **extra):
    """the case dict of a real message (used to normalise generated cases and to canonicalise parsed ones)"""
    c = {"id": int(m.id), "flags": int(m.flags), "origin": None if m.origin is None else hexl(m.origin.labels),
         "request_payload": int(m.request_payload), "pad": int(m.pad),
         "sections": [[rrset_case(r, m.origin) for r in m.sections[s]] for s in range(4)],
         "opt": None if m.opt is None else opt_case(m.opt),
         "tsig": None if m.tsig is None else tsig_case(m.tsig)}
    c.update(extra)
    return c


def new_message(flags, id):
    op = (flags & 0x7800) >> 11
    if op == int(dns.opcode.UPDATE):
        m = dns.update.UpdateMessage(id=id)
    elif op == int(dns.opcode.QUERY):
        m = dns.message.QueryMessage(id=id)
    else:
        m = dns.message.Message(id=id)
    m.flags = dns.flags.Flag(flags) if flags < 65536 else flags
    return m


def mk_rrset(r):
    rr = dns.rrset.RRset(dns.name.Name(L(r["name"])), r["rdclass"], r["rdtype"], r["covers"], r["deleting"])
    rr.update_ttl(r["ttl"])
    for rd in r["rdatas"]:
        rr.add(mk_rdata(r["rdclass"], r["rdtype"], rd))
    return rr


class HarnessAbort(BaseException):
    """not an Exception: what a KeyboardInterrupt-like condition in the middle of an item looks like"""


def _boom_rdata(rdclass, rdtype, exc, tag):
    class BoomRdata(dns.rdata.GenericRdata):
        __slots__ = []

        def _to_wire(self, file, compress=None, origin=None, canonicalize=False):
            file.write(b"\xde\xad")          # (a few octets of the RDATA are out before it goes wrong)
            if not canonicalize:                # (hashing and comparing go through the canonical form and must work)
                raise exc("injected by the harness")
    return BoomRdata(rdclass, rdtype, b"boom" + tag)


class BoomName(dns.name.Name):
    __slots__ = []

    def to_wire(self, file=None, compress=None, origin=None, canonicalize=False):
        raise ValueError("injected by the harness")


BOOM_EXC = {"rd-ValueError": ValueError, "rd-TypeError": TypeError, "rd-OverflowError": OverflowError, "rd-HarnessAbort": HarnessAbort}


def apply_boom(rr, spec):
    """turn the well-formed rrset `rr` into one whose rendering raises a non-DNS exception in the middle of the item:
    returns (rrset, expected exception class)"""
    how, at = spec["how"], spec.get("at", 0)
    if how == "ttl-neg":
        rr.ttl = -7                                   # an expired cache entry: struct.error when the TTL is packed
        return rr, struct.error
    if how == "ttl-big":
        rr.ttl = 2 ** 32 + 5
        return rr, struct.error
    if how == "owner-ValueError":
        new = dns.rrset.RRset(BoomName(rr.name.labels), rr.rdclass, rr.rdtype, rr.covers, rr.deleting)
        new.update_ttl(rr.ttl)
        for rd in rr:
            new.add(rd)
        return new, ValueError
    exc = BOOM_EXC[how]
    new = dns.rrset.RRset(rr.name, rr.rdclass, rr.rdtype, rr.covers, rr.deleting)
    new.update_ttl(rr.ttl)
    rds = list(rr)
    at = min(at, len(rds))
    for j, rd in enumerate(rds[:at]):
        new.add(rd)
    new.add(_boom_rdata(rr.rdclass, rr.rdtype, exc, bytes([at])))
    for rd in rds[at:]:
        new.add(rd)
    return new, exc


def without_boom(c):
    """the case without the rrsets marked to fail: what the renderer must be left with — and what the model is given"""
    return dict(c, sections=[[r for r in sec if "boom" not in r] for sec in c["sections"]])


def mk_message(c):
    """the dnspython message of a case; returns (message, key-or-None)"""
    m = new_message(c["flags"], c["id"])
    m.origin = None if c["origin"] is None else dns.name.Name(L(c["origin"]))
    for s in range(4):
        for r in c["sections"][s]:
            m.sections[s].append(mk_rrset(r))
    if c["opt"] is not None:
        o = c["opt"]
        options = [dns.edns.option_from_wire(t, bytes.fromhex(b), 0, len(bytes.fromhex(b))) for t, b in o["options"]]
        m.opt = dns.message.Message._make_opt(o["ttl"], o["payload"], options)
    m.request_payload = c.get("request_payload", 0)
    m.pad = c["pad"]
    key = None
    if c["tsig"] is not None:
        t = c["tsig"]
        key = dns.tsig.Key(dns.name.Name(L(t["name"])), bytes.fromhex(c.get("secret", "00")), dns.name.Name(L(t["alg"])))
        m.use_tsig(key, fudge=t["fudge"], original_id=t["orig_id"], tsig_error=t["error"], other_data=bytes.fromhex(t["other"]))
    return m, key


def render(m, max_size, prefer_truncation=False):
    """(outcome-line, wire-or-None): TooBig and the renderer's other library errors are outcomes"""
    try:
        w = m.to_wire(max_size=max_size, prefer_truncation=prefer_truncation, want_shuffle=False)
    except dns.exception.TooBig:
        return "err TooBig", None
    except dns.name.NeedAbsoluteNameOrOrigin:
        return "err NeedAbsoluteNameOrOrigin", None
    except dns.exception.FormError:
        return "err FormError", None
    except ValueError:
        return "err ValueError", None
    except Exception as e:  # noqa: BLE001 — a non-library exception is an outcome too (and never the model's)
        return "err " + type(e).__name__, None
    return "ok " + hx(w), w


PARSE_ERRS = ("ShortHeader", "TrailingJunk", "BadEDNS", "BadTSIG", "UnknownTSIGKey")


def parse(wire, origin=None, orr=False, it=False, key=None):
    """(outcome-line, message-or-None) of dns.message.from_wire; error *family* only"""
    try:
        m = dns.message.from_wire(wire, keyring=key, origin=origin, one_rr_per_rrset=orr, ignore_trailing=it)
    except dns.exception.DNSException as e:
        n = type(e).__name__
        if n in PARSE_ERRS:
            return "err " + n, None
        if isinstance(e, dns.exception.FormError):
            return "err FormError", None
        return "err other:" + n, None
    except BaseException as e:
        if isinstance(e, _Stalled):
            raise
        return "FOREIGN " + type(e).__name__, None
    return "ok", m


def parsed_line(m):
    c = case_of_message(m)
    c["pad"] = 0
    c["request_payload"] = 0
    return "ok " + msg_tokens(c)


# ------------------------------------------------------------------------------------------------
# independent wire walker (no dnspython): names with strictly-backward pointers, RR framing
# ------------------------------------------------------------------------------------------------
class WalkError(Exception):
    pass


def walk_name(w, off, label_starts, pointers, end=None):
    """decode the name at `off`; returns (labels, next offset).  Records every pointer (position, target) and
    every offset at which a literal label of this name starts."""
    end = len(w) if end is None else end
    labels = []
    cur = off
    nxt = None
    limit = off
    new_starts = []
    while True:
        if cur >= end and nxt is None or cur >= len(w):
            raise WalkError("name runs off the end")
        c = w[cur]
        if c == 0:
            labels.append(b"")
            if nxt is None:
                nxt = cur + 1
            break
        if c < 64:
            if cur + 1 + c > len(w):
                raise WalkError("label runs off the end")
            if nxt is None:
                new_starts.append(cur)
            labels.append(w[cur + 1:cur + 1 + c])
            cur += 1 + c
        elif c >= 192:
            if cur + 1 >= len(w):
                raise WalkError("pointer runs off the end")
            t = ((c & 0x3F) << 8) | w[cur + 1]
            if nxt is None:
                nxt = cur + 2
                pointers.append((cur, t))
            if t >= limit:
                raise WalkError(f"pointer at {cur} to {t} is not strictly backward")
            limit = t
            cur = t
        else:
            raise WalkError("bad label type")
    label_starts.update(new_starts)
    return labels, nxt


def walk_message(w):
    """structure of a wire message: header, list of records (section, owner labels, type, class, ttl, rdata view),
    pointers, literal label starts.  RDATA names are decoded for NS/CNAME/PTR/MX/SOA only."""
    if len(w) < 12:
        raise WalkError("short")
    id_, flags, qd, an, au, ad = struct.unpack("!HHHHHH", w[:12])
    cur = 12
    starts = set()
    ptrs = []
    recs = []
    try:
        return _walk_body(w, id_, flags, qd, an, au, ad, cur, starts, ptrs, recs)
    except WalkError as e:
        e.partial = recs
        raise


def _walk_body(w, id_, flags, qd, an, au, ad, cur, starts, ptrs, recs):
    for _ in range(qd):
        pos = cur
        n, cur = walk_name(w, cur, starts, ptrs)
        if cur + 4 > len(w):
            raise WalkError("short question")
        t, c = struct.unpack("!HH", w[cur:cur + 4])
        cur += 4
        recs.append({"sec": 0, "pos": pos, "name": n, "rdtype": t, "rdclass": c})
    for sec, cnt in ((1, an), (2, au), (3, ad)):
        for _ in range(cnt):
            pos = cur
            n, cur = walk_name(w, cur, starts, ptrs)
            if cur + 10 > len(w):
                raise WalkError("short rr header")
            t, c, ttl, rdlen = struct.unpack("!HHIH", w[cur:cur + 10])
            cur += 10
            recs.append({"sec": sec, "pos": pos, "name": n, "rdtype": t, "rdclass": c, "partial": True})
            if cur + rdlen > len(w):
                raise WalkError("rdata runs off the end")
            end = cur + rdlen
            rd = {"raw": w[cur:end]}
            if rdlen > 0 and t in NAME1:
                nm, e = walk_name(w, cur, starts, ptrs, end)
                if e != end:
                    raise WalkError("rdata length mismatch")
                rd = {"names": [nm], "ptr_region": True}
            elif rdlen > 0 and t in MXT:
                nm, e = walk_name(w, cur + 2, starts, ptrs, end)
                if e != end:
                    raise WalkError("rdata length mismatch")
                rd = {"names": [nm], "pref": struct.unpack("!H", w[cur:cur + 2])[0]}
            elif rdlen > 0 and t in SOAT:
                n1, e = walk_name(w, cur, starts, ptrs, end)
                n2, e = walk_name(w, e, starts, ptrs, end)
                if e + 20 != end:
                    raise WalkError("rdata length mismatch")
                rd = {"names": [n1, n2], "ints": list(struct.unpack("!IIIII", w[e:end]))}
            recs[-1] = {"sec": sec, "pos": pos, "name": n, "rdtype": t, "rdclass": c, "ttl": ttl, "rdlen": rdlen, "rd": rd,
                        "end": end}
            cur = end
    return {"id": id_, "flags": flags, "counts": (qd, an, au, ad), "recs": recs, "ptrs": ptrs, "starts": starts, "end": cur}


def lower(labels):
    return [bytes(l).lower() for l in labels]


def absolute(labels, origin):
    labels = list(labels)
    if labels and labels[-1] == b"":
        return labels
    return labels + list(origin or [])


def expected_records(c, upto=None):
    """the flat record list a rendering of case `c` must contain: (sec, owner labels absolute, rdtype, rdclass, ttl, rdata)"""
    origin = None if c["origin"] is None else L(c["origin"])
    out = []
    for r in c["sections"][0]:
        out.append({"sec": 0, "name": absolute(L(r["name"]), origin), "rdtype": r["rdtype"], "rdclass": r["rdclass"]})
    for sec in (1, 2, 3):
        for r in c["sections"][sec]:
            cls = r["rdclass"] if r["deleting"] is None else r["deleting"]
            nm = absolute(L(r["name"]), origin)
            if not r["rdatas"]:
                out.append({"sec": sec, "name": nm, "rdtype": r["rdtype"], "rdclass": cls, "ttl": 0, "rd": None})
            for rd in r["rdatas"]:
                out.append({"sec": sec, "name": nm, "rdtype": r["rdtype"], "rdclass": cls, "ttl": r["ttl"], "rd": rd})
    return out, origin


def check_walk(c, w, items=None):
    """the compression clause and the exact-count clause, evaluated with the independent walker.
    Returns a list of (clause, text)."""
    bad = []
    try:
        wm = walk_message(w)
    except WalkError as e:
        return [("undecodable", f"independent decoder rejects the rendering: {e}")]
    exp, origin = expected_records(c) if items is None else items
    recs = [r for r in wm["recs"] if not (r["sec"] == 3 and r["rdtype"] in (41, 250))]
    special = [r for r in wm["recs"] if r["sec"] == 3 and r["rdtype"] in (41, 250)]
    if wm["end"] != len(w):
        bad.append(("counts", f"header counts {wm['counts']} do not cover the {len(w)} octets (walker stopped at {wm['end']})"))
    if len(recs) != len(exp):
        bad.append(("counts", f"{len(recs)} records present, {len(exp)} expected"))
        return bad
    seen_names = []  # absolute label lists written so far (for the case-variant reading)

    def cmp_name(got, want, what):
        if lower(got) != lower(want):
            bad.append(("name-differs", f"{what}: decoded {got!r}, rendered from {want!r}"))
        elif got != want:
            variant = any(lower(p[i:]) == lower(want[j:]) and p[i:] != want[j:]
                          for p in seen_names for i in range(len(p)) for j in range(len(want)))
            if not variant:
                bad.append(("name-differs", f"{what}: decoded {got!r}, rendered from {want!r} (no case-variant earlier occurrence)"))
        seen_names.append(want)

    for g, e in zip(recs, exp):
        if (g["sec"], g["rdtype"], g["rdclass"]) != (e["sec"], e["rdtype"], e["rdclass"]):
            bad.append(("record-differs", f"record at {g['pos']}: section/type/class {(g['sec'], g['rdtype'], g['rdclass'])} vs {(e['sec'], e['rdtype'], e['rdclass'])}"))
            continue
        cmp_name(g["name"], e["name"], f"owner at {g['pos']}")
        if e["sec"] == 0:
            continue
        if g["ttl"] != e["ttl"]:
            bad.append(("record-differs", f"ttl {g['ttl']} vs {e['ttl']} at {g['pos']}"))
        rd = e["rd"]
        if rd is None:
            if g["rdlen"] != 0:
                bad.append(("record-differs", f"empty set rendered with rdlen {g['rdlen']}"))
        elif rd["k"] == "o":
            if g["rd"].get("raw") != bytes.fromhex(rd["b"]):
                bad.append(("record-differs", f"opaque rdata at {g['pos']} differs (compressed where it must not be?)"))
        else:
            names = g["rd"].get("names")
            want = [absolute(L(rd[f]), origin) for f in (("n",) if rd["k"] in "nm" else ("m", "r"))]
            if names is None or len(names) != len(want):
                bad.append(("record-differs", f"rdata shape at {g['pos']}"))
            else:
                for a, b in zip(names, want):
                    cmp_name(a, b, f"rdata name in record at {g['pos']}")
                if rd["k"] == "m" and g["rd"]["pref"] != rd["p"]:
                    bad.append(("record-differs", "mx preference"))
                if rd["k"] == "s" and g["rd"]["ints"] != rd["i"]:
                    bad.append(("record-differs", "soa integers"))
    # every pointer targets the start of a literal label of an earlier name
    for p, t in wm["ptrs"]:
        if not (t < p and t in wm["starts"] and t >= 12):
            bad.append(("pointer", f"pointer at {p} targets {t}, not the start of an earlier written label"))
    # counts in the header = records present per section
    per = [0, 0, 0, 0]
    for r in wm["recs"]:
        per[r["sec"]] += 1
    if tuple(per) != wm["counts"]:
        bad.append(("counts", f"header {wm['counts']} vs present {per}"))
    return bad


def all_names(c):
    """every absolute name the rendering of `c` writes (owners, modelled rdata names, TSIG owner), plus the origin"""
    org = None if c["origin"] is None else L(c["origin"])
    out = [] if org is None else [org]
    for sec in range(4):
        for r in c["sections"][sec]:
            out.append(absolute(L(r["name"]), org))
            for rd in r["rdatas"]:
                for f in ("n", "m", "r"):
                    if rd["k"] != "o" and f in rd and isinstance(rd[f], list):
                        out.append(absolute(L(rd[f]), org))
    if c["tsig"] is not None:
        out.append(L(c["tsig"]["name"]))
    return out


def case_consistent(c):
    """no two name suffixes of the message (or of its origin) are equal only up to ASCII case (DESIGN §6 reading)"""
    seen = {}
    for n in all_names(c):
        for i in range(len(n)):
            s = tuple(n[i:])
            k = tuple(lower(s))
            if seen.setdefault(k, s) != s:
                return False
    return True


def same_up_to_case(w, w2):
    """two renderings with the same framing, pointers, opaque rdata and names equal up to ASCII case"""
    try:
        a, b = walk_message(w), walk_message(w2)
    except WalkError:
        return False
    if len(w) != len(w2) or a["counts"] != b["counts"] or a["ptrs"] != b["ptrs"] or len(a["recs"]) != len(b["recs"]):
        return False
    if (a["id"], a["flags"]) != (b["id"], b["flags"]):
        return False
    for x, y in zip(a["recs"], b["recs"]):
        if (x["sec"], x["pos"], lower(x["name"]), x["rdtype"], x["rdclass"], x.get("ttl"), x.get("rdlen")) != (
                y["sec"], y["pos"], lower(y["name"]), y["rdtype"], y["rdclass"], y.get("ttl"), y.get("rdlen")):
            return False
        rx, ry = x.get("rd") or {}, y.get("rd") or {}
        if rx.get("raw") != ry.get("raw") or rx.get("pref") != ry.get("pref") or rx.get("ints") != ry.get("ints"):
            return False
        if [lower(n) for n in rx.get("names", [])] != [lower(n) for n in ry.get("names", [])]:
            return False
    return True


# ------------------------------------------------------------------------------------------------
# semantic comparison of two messages "as the library compares them", after derelativisation
# ------------------------------------------------------------------------------------------------
def _abs(n, origin):
    return n if (origin is None or n.is_absolute()) else n.derelativize(origin)


def canon_class(r, zone_class):
    """(rdclass, deleting) as the parser represents the record the RRset renders to: in an update message a wire
    class of ANY/NONE is carried in `deleting` and the RRset takes the zone's class (the UpdateMessage API builds
    some of these forms with rdclass=ANY/NONE instead; both render to the same record)."""
    if zone_class is None:
        return (int(r.rdclass), r.deleting)
    eff = int(r.rdclass) if r.deleting is None else int(r.deleting)
    if eff in (254, 255):
        return (zone_class, eff)
    return (eff, None)


def same_rrset(a, b, origin, zone_class=None):
    if _abs(a.name, origin) != _abs(b.name, origin):
        return "owner"
    if (canon_class(a, zone_class), a.rdtype, a.covers) != (canon_class(b, zone_class), b.rdtype, b.covers):
        return "class/type/covers/deleting"
    if len(a) != len(b):
        return "rdata count"
    if len(a) and a.ttl != b.ttl:
        return "ttl"
    for x, y in zip(a, b):
        try:
            dx, dy = x.to_digestable(origin), y.to_digestable(origin)
        except dns.name.NeedAbsoluteNameOrOrigin:
            dx, dy = x.to_digestable(dns.name.root), y.to_digestable(dns.name.root)
        if dx != dy:
            return "rdata"
    return None


def same_message(m, m2, origin, ignore_padding_option=False):
    """None or a description of the first difference between the original and the parsed message"""
    if m2.id != m.id:
        return "id"
    if int(m2.flags) != int(m.flags):
        return "flags"
    if m2.opcode() != m.opcode():
        return "opcode"
    if m2.rcode() != m.rcode():
        return "rcode"
    if m2.edns != m.edns or m2.ednsflags != m.ednsflags or m2.payload != m.payload:
        return "edns version/flags/payload"
    o1, o2 = tuple(m.options), tuple(m2.options)
    if ignore_padding_option and o2 and int(o2[-1].otype) == 12:
        o2 = o2[:-1]
    if o1 != o2:
        return "edns options"
    zc = None
    if dns.opcode.is_update(int(m.flags)) and m.sections[0]:
        zc = int(m.sections[0][0].rdclass)
    for s in range(4):
        if len(m.sections[s]) != len(m2.sections[s]):
            return f"section {s}: {len(m2.sections[s])} rrsets vs {len(m.sections[s])}"
        for a, b in zip(m.sections[s], m2.sections[s]):
            d = same_rrset(a, b, origin, zc if s > 0 else None)
            if d:
                return f"section {s}: {d} of {a.name}"
    if (m.tsig is None) != (m2.tsig is None):
        return "tsig presence"
    if m.tsig is not None and (m.tsig.name != m2.tsig.name or m.tsig[0] != m2.tsig[0]):
        return "tsig"
    return None


# ------------------------------------------------------------------------------------------------
# evaluation
# ------------------------------------------------------------------------------------------------
def fail(ctx, sig, what, c):
    ctx.fail(sig, what, {"kind": c["kind"], "case": c})


def check_api_routes(ctx, c, m, key, origin, ms, w):
    """second call sites / option values of the public API that must agree with the main route"""
    salt = zlib.adler32(w)
    # ---- to_wire(origin=…): an explicit origin wins over the message's own, and is all a message without one needs
    if origin is not None and c["tsig"] is None:
        keep = m.origin
        try:
            for own in (None, dns.name.Name([b"own", b"invalid", b""])):
                m.origin = own
                try:
                    w2 = m.to_wire(origin=origin, max_size=ms, want_shuffle=False)
                except Exception as e:  # noqa: BLE001
                    w2 = type(e).__name__
                if w2 != w:
                    fail(ctx, "C03/to_wire/origin-argument", f"to_wire(origin=o) with message.origin={own} differs from the rendering with message.origin=o: "
                         f"{w2 if isinstance(w2, str) else str(len(w2)) + ' octets'}", c)
        finally:
            m.origin = keep
    # ---- use_edns(...) builds the same OPT state as the constructor route
    if c["opt"] is not None:
        o = c["opt"]
        version = (o["ttl"] >> 16) & 0xFF
        noise = (salt & 0xFF) << 16                     # junk in the version octet of the ednsflags argument
        options = [dns.edns.option_from_wire(t, bytes.fromhex(b), 0, len(bytes.fromhex(b))) for t, b in o["options"]]
        m3 = new_message(c["flags"], c["id"])
        rp = [None, 0, 1400][salt % 3]
        m3.use_edns(version, (o["ttl"] & 0xFF00FFFF) | noise, o["payload"], rp, options if options or salt % 2 else None, c["pad"])
        exp = (int(o["ttl"]), o["payload"], tuple(options), o["payload"] if rp is None else rp, c["pad"])
        got = (int(m3.ednsflags), int(m3.payload), tuple(m3.options), m3.request_payload, m3.pad)
        if m3.opt is None or got != exp or m3.edns != version:
            fail(ctx, "C03/use_edns/state", f"use_edns(edns={version}, ednsflags={(o['ttl'] & 0xFF00FFFF) | noise:#x}, payload={o['payload']}, request_payload={rp}) "
                 f"-> (ednsflags, payload, options, request_payload, pad) = {got}, expected {exp}", c)
        for off in (None, False, -1):
            m3.use_edns(off)
            if m3.opt is not None or m3.edns != -1 or m3.request_payload != 0:
                fail(ctx, "C03/use_edns/off", f"use_edns({off}) leaves opt={m3.opt} edns={m3.edns} request_payload={m3.request_payload}", c)
        m3.use_edns(True)
        if m3.opt is None or m3.edns != 0 or int(m3.ednsflags) != 0 or tuple(m3.options) != ():
            fail(ctx, "C03/use_edns/true", f"use_edns(True) -> edns={m3.edns} ednsflags={m3.ednsflags}", c)


def check_reader_options(ctx, c, w, origin, key, m2):
    """from_wire's question_only and raise_on_truncation agree with the plain parse `m2`"""
    try:
        mq = dns.message.from_wire(w, keyring=key, origin=origin, question_only=True)
        if (mq.id, int(mq.flags)) != (m2.id, int(m2.flags)) or len(mq.question) != len(m2.question) or \
                any(same_rrset(a, b, origin) for a, b in zip(m2.question, mq.question)) or mq.answer or mq.authority or mq.additional \
                or mq.opt is not None or mq.tsig is not None:
            fail(ctx, "C03/from_wire/question_only", "question_only=True does not return exactly header + question "
                 f"({len(mq.question)}/{len(mq.answer)}/{len(mq.authority)}/{len(mq.additional)} rrsets, opt={mq.opt is not None})", c)
    except Exception as e:  # noqa: BLE001
        fail(ctx, "C03/from_wire/question_only", f"question_only=True raised {type(e).__name__}", c)
    tc = bool(int(m2.flags) & 0x0200)
    try:
        mt = dns.message.from_wire(w, keyring=key, origin=origin, raise_on_truncation=True)
        got = "returned"
    except dns.message.Truncated as e:
        mt, got = e.message(), "Truncated"
    except Exception as e:  # noqa: BLE001
        mt, got = None, type(e).__name__
    if got != ("Truncated" if tc else "returned"):
        fail(ctx, "C03/from_wire/raise_on_truncation", f"TC={tc}, raise_on_truncation=True: {got}", c)
    elif mt is None or same_message(m2, mt, origin) is not None:
        fail(ctx, "C03/from_wire/raise_on_truncation", "the message carried by Truncated / returned differs from the plain parse", c)


def check_call_forms(ctx, c, m, key, origin, ms, w, m2):
    """the same call spelled differently must give the same answer: positional arguments, every keyring form, a second
    rendering of the same object (also after a rendering that failed), continue_on_error on a clean wire, == / != coherence"""
    # ---- positional spelling of from_wire / to_wire (a swap of two same-typed parameters shows here)
    try:
        mp = dns.message.from_wire(w, key, b"", False, origin, None, False, False, False, False, False, False)
        if same_message(m2, mp, origin) is not None:
            fail(ctx, "C03/from_wire/positional", "from_wire called with positional arguments (all options off) differs from the keyword call", c)
        mq = dns.message.from_wire(w, key, b"", False, origin, None, False, True, False, False, False, False)
        if mq.answer or mq.authority or mq.additional or len(mq.question) != len(m2.question):
            fail(ctx, "C03/from_wire/positional", "the 8th positional argument of from_wire is question_only", c)
        mo = dns.message.from_wire(w, key, b"", False, origin, None, False, False, True, False, False, False)
        if any(len(r) > 1 for sx in (1, 2, 3) for r in mo.sections[sx]):
            fail(ctx, "C03/from_wire/positional", "the 9th positional argument of from_wire is one_rr_per_rrset", c)
        dns.message.from_wire(w + b"\0", key, b"", False, origin, None, False, False, False, True, False, False)
    except Exception as e:  # noqa: BLE001
        fail(ctx, "C03/from_wire/positional", f"positional call raised {type(e).__name__}: {e}", c)
    if c["tsig"] is None:
        try:
            wp = m.to_wire(origin, ms, False, None, False, False, want_shuffle=False)
            wl = m.to_wire(origin, ms, False, None, True, False, want_shuffle=False)
            if wp != w or wl != struct.pack("!H", len(w)) + w:
                fail(ctx, "C03/to_wire/positional", "to_wire(origin, max_size, multi, tsig_ctx, prepend_length, prefer_truncation) positionally differs from the keyword call", c)
        except Exception as e:  # noqa: BLE001
            fail(ctx, "C03/to_wire/positional", f"positional call raised {type(e).__name__}", c)
    # ---- every form of keyring the signature admits
    if key is not None and m2.tsig is not None:
        forms = {"Key": key, "dict-of-Key": {key.name: key}, "dict-of-bytes": {key.name: key.secret}, "callable": lambda msg, name: key}
        for what, kr in forms.items():
            try:
                mk_ = dns.message.from_wire(w, keyring=kr, origin=origin)
                if same_message(m2, mk_, origin) is not None or not mk_.had_tsig:
                    fail(ctx, "C03/from_wire/keyring-form", f"keyring given as {what}: parsed message differs", c)
            except Exception as e:  # noqa: BLE001
                fail(ctx, "C03/from_wire/keyring-form", f"keyring given as {what}: {type(e).__name__}: {e}", c)
    # ---- the same object rendered again, also after a rendering that failed
    _, wa = render(m, ms)
    if wa != w:
        fail(ctx, "C03/to_wire/not-idempotent", "rendering the same message object a second time gives different octets", c)
    if len(w) > 600 and ms >= 65535:
        l1, w1 = render(m, 512)
        _, wb = render(m, ms)
        if w1 is None and wb != w:
            fail(ctx, "C03/to_wire/state-after-error", f"after a rendering that failed ({l1}) the same message renders differently", c)
    # ---- continue_on_error on a wire that has no error
    try:
        mc = dns.message.from_wire(w, keyring=key, origin=origin, continue_on_error=True)
        if mc.errors or same_message(m2, mc, origin) is not None:
            fail(ctx, "C03/from_wire/continue_on_error", f"continue_on_error=True on a clean wire: {len(mc.errors)} errors / a different message", c)
    except Exception as e:  # noqa: BLE001
        fail(ctx, "C03/from_wire/continue_on_error", f"continue_on_error=True raised {type(e).__name__}", c)
    # ---- == symmetric, != its negation
    a, b = (m == m2), (m2 == m)
    if a != b or (m != m2) == a or (m2 != m) == b or not (m2 == m2) or (m2 != m2):
        fail(ctx, "C03/eq/incoherent", f"m == m2: {a}, m2 == m: {b}, m != m2: {m != m2}, m2 != m: {m2 != m}", c)


def check_eq_discriminates(ctx, c, m, w, key):
    """Message.__eq__ (an observe point) must also say *no*: header fields and every section, in both directions"""
    _, m3 = parse(w, key=key)
    if m3 is None or not (m3 == m):
        return
    def expect_ne(what):
        if m3 == m or m == m3 or not (m3 != m):
            fail(ctx, "C03/eq/too-lax", f"Message.__eq__ is true although {what}", c)
    m3.id = (m3.id + 1) & 0xFFFF
    expect_ne("the ids differ")
    m3.id = m.id
    m3.flags = dns.flags.Flag(int(m3.flags) ^ 0x0020)
    expect_ne("the flags differ")
    m3.flags = dns.flags.Flag(int(m.flags))
    extra = dns.rrset.from_text("only-here.invalid.", 5, "IN", "A", "192.0.2.77")
    for s in range(4):
        sec = m3.sections[s]
        if sec:
            last = sec.pop()
            if last not in sec:  # (sections compare as sets: a second copy of an equal rrset does not count)
                expect_ne(f"section {s} lacks an rrset of the other")
            sec.append(last)
        sec.append(extra)
        expect_ne(f"section {s} has an rrset the other lacks")
        sec.pop()
    if not (m3 == m):
        fail(ctx, "C03/eq/too-strict", "Message.__eq__ false after undoing every change", c)


def eval_msg(ctx: Ctx, c: dict):
    pin_time()
    try:
        m, key = mk_message(c)
    except Exception as e:  # noqa: BLE001 — every generated case is a legal message
        fail(ctx, f"C03/construct/{type(e).__name__}", f"building the message objects raised {type(e).__name__}: {e}", c)
        return
    origin = m.origin
    ms = c.get("max_size", 65535)
    line, w = render(m, ms)
    if c["tsig"] is not None and m.tsig is not None:
        made = tsig_case(m.tsig)  # only the MAC and the time are the signer's (abstract in the model); the rest is what was asked for
        c = dict(c, tsig=dict(c["tsig"], mac=made["mac"], time=made["time"]))
    toks = msg_tokens(c)
    ctx.corr(f"c03.render {ms} 0 {toks}", line, c)
    cnt = (m.section_count(0), m.section_count(1), m.section_count(2), m.section_count(3))
    ctx.corr(f"c03.counts {toks}", "ok %d %d %d %d" % cnt, c)
    ctx.count("render." + line.split(" ")[0] + ("" if w is not None else "." + line.split(" ")[1]))
    if w is None:
        return  # C03 speaks about renderings that succeed; the size-limit outcomes are C08's clause
    op = int(m.opcode())
    ctx.count(f"opcode.{op}")
    if len(w) > 0x3FFF:
        ctx.count("render.beyond-3fff")
    if origin is not None:
        ctx.count("origin." + ("root" if origin == dns.name.root else "given"))
    # ---- compression + counts with the independent walker
    for clause, text in check_walk(c, w):
        sig = {"pointer": "C03/to_wire/compression/pointer-target", "name-differs": "C03/to_wire/compression/name-differs",
               "undecodable": "C03/to_wire/compression/undecodable", "counts": "C03/to_wire/counts",
               "record-differs": "C03/to_wire/record-differs"}[clause]
        fail(ctx, sig, text, c)
    hdr = struct.unpack("!HHHH", w[4:12])
    if hdr != cnt:
        fail(ctx, "C03/to_wire/counts", f"header counts {hdr} vs section_count {cnt}", c)
    if any(not r["rdatas"] for sx in (1, 2, 3) for r in c["sections"][sx]):
        # RFC 2136 §2.4 / §2.5: the class/type-only records (RDLENGTH 0) carry TTL 0, whatever TTL the empty rrset object holds
        try:
            got = [g for g in walk_message(w)["recs"] if not (g["sec"] == 3 and g["rdtype"] in (41, 250))]
            exp, _ = expected_records(c)
            if len(got) == len(exp):
                for g, e in zip(got, exp):
                    if e["sec"] > 0 and e["rd"] is None and (g["rdlen"] != 0 or g["ttl"] != 0):
                        fail(ctx, "C03/to_wire/empty-rrset-ttl", f"the class/type-only record of an empty rrset at {g['pos']} (type {g['rdtype']}, class {g['rdclass']}) "
                             f"carries TTL {g['ttl']} and RDLENGTH {g['rdlen']}, not 0 / 0", c)
                        break
        except WalkError:
            pass
    check_api_routes(ctx, c, m, key, origin, ms, w)
    if c.get("render_only"):
        return  # forms the reader is entitled to refuse (an RDLENGTH-0 record of a data class): rendering clauses only
    # ---- parse
    for orr in ([False, True] if c.get("also_orr") else [False]):
        pl, m2 = parse(w, origin=origin, orr=orr, key=key)
        impl = parsed_line(m2) if m2 is not None else pl
        ctx.corr(f"c03.parse {hx(w)} {'none' if origin is None else enc_labels(origin.labels)} {int(orr)} 0 {int(key is not None)}", impl, c)
        if orr:
            continue
        if m2 is None:
            trig = ""
            if pl == "err BadEDNS" and origin == dns.name.root and c["opt"] is not None:
                trig = "/origin-root-with-OPT"
            fail(ctx, f"C03/from_wire/raises/{pl.split(' ')[-1]}{trig}", f"from_wire of the rendering -> {pl}", c)
            continue
        if type(m2) is not type(m):
            fail(ctx, "C03/from_wire/message-class", f"{type(m2).__name__} vs {type(m).__name__}", c)
        d = same_message(m, m2, origin, ignore_padding_option=(c["pad"] != 0))
        if d:
            fail(ctx, "C03/parse_render/value-differs", f"parsed message differs from the original: {d}", c)
        check_reader_options(ctx, c, w, origin, key, m2)
        if c["tsig"] is not None and m2.tsig is not None:
            t, rd = c["tsig"], m2.tsig[0]
            got = (int(rd.original_id), int(rd.fudge), int(rd.error), bytes(rd.other).hex(), int(rd.time_signed))
            want = (t["orig_id"], t["fudge"], t["error"], t["other"], FIXED_TIME)
            if got != want or m2.tsig.name != dns.name.Name(L(t["name"])):
                fail(ctx, "C03/tsig/fields", f"TSIG (original_id, fudge, error, other, time) asked for {want}, on the wire {got}", c)
        if zlib.adler32(w) % 2 == 0:
            check_call_forms(ctx, c, m, key, origin, ms, w, m2)
        if not d and m2 == m and zlib.adler32(w) % 3 == 0:
            check_eq_discriminates(ctx, c, m, w, key)
        elif origin is None and all(r.name.is_absolute() for s in m.sections for r in s):
            if not (m2 == m):
                zc = int(m.sections[0][0].rdclass) if m.sections[0] else None
                api_form = is_update(c) and any(canon_class(r, zc) != (int(r.rdclass), r.deleting) for s in (1, 2, 3) for r in m.sections[s])
                if api_form:
                    fail(ctx, "C03/parse_render/library-eq/update-metaclass-form",
                         "Message.__eq__ is false after render-then-parse of an update whose prerequisite/delete RRsets were built in the UpdateMessage API's representation (rdclass=ANY/NONE) — the parser returns (zone class, deleting=ANY/NONE) for the same record", c)
                else:
                    fail(ctx, "C03/parse_render/library-eq", "Message.__eq__ is false for an absolute-name message", c)
        # ---- re-render
        l2, w2 = render(m2, ms)
        if w2 != w:
            if w2 is not None and not case_consistent(c) and same_up_to_case(w, w2):
                ctx.count("rerender.case-variant")
            else:
                fail(ctx, "C03/render_parse_render/bytes-differ", f"re-rendering the parsed message gives {l2[:80]}… instead of the same {len(w)} octets", c)
        ctx.count("roundtrip.ok" if not d and w2 == w else "roundtrip.other")
    if c["tsig"] is not None:
        pl, _ = parse(w, origin=origin, key=None)
        ctx.corr(f"c03.parse {hx(w)} {'none' if origin is None else enc_labels(origin.labels)} 0 0 0", pl, c)


def eval_wire(ctx: Ctx, c: dict):
    """malformed / mutated stream: outcome class and parsed form of from_wire vs the model"""
    pin_time()
    w = bytes.fromhex(c["wire"])
    origin = None if c["origin"] is None else dns.name.Name(L(c["origin"]))
    pl, m2 = parse(w, origin=origin, orr=c["orr"], it=c["it"], key=None)
    impl = parsed_line(m2) if m2 is not None else pl
    ctx.corr(f"c03.parse {hx(w)} {'none' if origin is None else enc_labels(origin.labels)} {int(c['orr'])} {int(c['it'])} 0", impl, c)
    ctx.count("wire." + (pl if m2 is None else "ok").replace("err ", ""))
    if pl.startswith("FOREIGN"):
        fail(ctx, "C03/from_wire/foreign-exception:" + pl.split(" ")[1], f"from_wire raised {pl}", c)
    # raise_on_truncation: Truncated exactly when TC is set and the plain parse succeeds or fails with a FormError after the header
    try:
        dns.message.from_wire(w, origin=origin, one_rr_per_rrset=c["orr"], ignore_trailing=c["it"])
        plain = None
    except Exception as e:  # noqa: BLE001
        plain = e
    try:
        dns.message.from_wire(w, origin=origin, one_rr_per_rrset=c["orr"], ignore_trailing=c["it"], raise_on_truncation=True)
        got = "returned"
    except dns.message.Truncated:
        got = "Truncated"
    except Exception as e:  # noqa: BLE001
        got = type(e).__name__
    # continue_on_error: never raises once the header is read; no error reported exactly when the plain parse succeeds
    try:
        mc = dns.message.from_wire(w, origin=origin, one_rr_per_rrset=c["orr"], ignore_trailing=c["it"], continue_on_error=True)
        coe = len(mc.errors)
    except Exception as e:  # noqa: BLE001
        mc, coe = None, type(e).__name__
    if plain is None:
        if coe != 0 or same_message(m2, mc, origin) is not None:
            fail(ctx, "C03/from_wire/continue_on_error", f"the plain parse succeeds, continue_on_error=True gives {coe} errors / a different message", c)
    elif isinstance(plain, dns.message.ShortHeader):
        if coe != "ShortHeader":
            fail(ctx, "C03/from_wire/continue_on_error", f"ShortHeader expected with continue_on_error=True, got {coe}", c)
    elif isinstance(plain, dns.exception.DNSException) and (not isinstance(coe, int) or coe == 0):
        fail(ctx, "C03/from_wire/continue_on_error", f"the plain parse raises {type(plain).__name__}, continue_on_error=True gives {coe!r} (errors expected, no exception)", c)
    tc = len(w) >= 12 and bool(w[2] & 0x02)
    if plain is None:
        want = "Truncated" if tc else "returned"
    elif tc and isinstance(plain, dns.exception.FormError):
        want = "Truncated"
    else:
        want = type(plain).__name__
    if got != want:
        fail(ctx, "C03/from_wire/raise_on_truncation", f"TC={tc}, plain parse {'ok' if plain is None else type(plain).__name__}: raise_on_truncation=True gives {got}, expected {want}", c)
    if m2 is not None and not c["it"] and not c["orr"]:
        # whatever parses must re-render to something that parses to the same message (fixed point)
        l2, w2 = render(m2, 65535)
        if w2 is not None:
            _, m3 = parse(w2, origin=origin)
            if m3 is None or same_message(m2, m3, origin) is not None:
                fail(ctx, "C03/parse_render/value-differs", "a parsed message does not survive render-then-parse", c)


def eval_hdr(ctx: Ctx, c: dict):
    f, e, v = c["flags"], c["ednsflags"], c["value"]
    ctx.corr(f"c03.rcode.from {f} {e}", f"ok {int(dns.rcode.from_flags(f, e))}", c)
    ctx.corr(f"c03.opcode.from {f}", f"ok {int(dns.opcode.from_flags(f))}", c)
    try:
        a, b = dns.rcode.to_flags(v)
        r = f"ok {a} {b}"
    except ValueError:
        r = "err ValueError"
    ctx.corr(f"c03.rcode.to {v}", r, c)
    ctx.corr(f"c03.opcode.to {v % 16}", f"ok {int(dns.opcode.to_flags(v % 16))}", c)
    m = dns.message.Message(id=1)
    m.flags = f
    m.use_edns(0)
    m.ednsflags = e
    ctx.corr(f"c03.hdr {f} {e}", f"ok rcode={int(m.rcode())} opcode={int(m.opcode())} edns={m.edns} update={str(dns.opcode.is_update(f)).lower()}", c)
    if v <= 4095:
        m.set_rcode(v)
        ctx.corr(f"c03.setrcode {f} {e} {v}", f"ok {int(m.flags)} {int(m.ednsflags)}", c)
        if int(m.rcode()) != v:
            fail(ctx, "C03/rcode/roundtrip", f"set_rcode({v}) then rcode() = {int(m.rcode())}", c)
        if int(m.flags) & 0xFFF0 != f & 0xFFF0 or int(m.ednsflags) & 0x00FFFFFF != e & 0x00FFFFFF:
            fail(ctx, "C03/rcode/clobbers", f"set_rcode({v}) changed other header bits", c)
        if int(dns.rcode.from_flags(*dns.rcode.to_flags(v))) != v:
            fail(ctx, "C03/rcode/roundtrip", f"from_flags(to_flags({v}))", c)
    o = v % 16
    if int(dns.opcode.from_flags(dns.opcode.to_flags(o))) != o:
        fail(ctx, "C03/opcode/roundtrip", f"from_flags(to_flags({o}))", c)
    ctx.count("hdr")


def eval_steps(ctx: Ctx, c: dict):
    """direct dns.renderer.Renderer use with a tight max_size: every add in order, the caller catching TooBig and carrying
    on; then write_header.  The result must contain exactly the records whose add succeeded, every pointer must target an
    earlier occurrence of exactly that suffix (independent decoder), every surviving table entry must decode to its key,
    from_wire must return those records, and octets/table/trace must equal the model's."""
    pin_time()
    m, _ = mk_message(c)
    ms = c["max_size"]
    route, qdef, ctor, edns = c.get("route", "rrset"), c.get("q_default", False), c.get("ctor", "full"), c.get("edns")
    if ctor == "defaults" and ms == 65535 and m.origin is None:
        r = dns.renderer.Renderer(m.id, int(m.flags))          # max_size and origin left to their defaults
    elif ctor == "keywords":
        r = dns.renderer.Renderer(origin=m.origin, max_size=ms, flags=int(m.flags), id=m.id)
    else:
        r = dns.renderer.Renderer(m.id, int(m.flags), ms, m.origin)
    tr = []
    kept = [[], [], [], []]
    stop = False
    for sec in range(4):
        for i, rr in enumerate(m.sections[sec]):
            if stop:
                break
            snap_add = (r.output.getvalue(), dict(r.compress), list(r.counts))
            spec = c["sections"][sec][i].get("boom")
            if spec is not None:
                # a non-DNS exception in the middle of the item; the caller skips it (the model is given the message without it)
                rrb, want = apply_boom(rr, spec)
                got = None
                try:
                    r.add_rrset(sec, rrb, want_shuffle=False)
                except BaseException as e:  # noqa: BLE001
                    if isinstance(e, _Stalled):
                        raise
                    got = type(e)
                ctx.count("steps.boom." + spec["how"])
                now = (r.output.getvalue(), dict(r.compress), list(r.counts))
                if got is not want or now != snap_add or r.output.tell() != len(snap_add[0]):
                    fail(ctx, "C03/renderer/partial-record-after-exception",
                         f"an add that raised {None if got is None else got.__name__} (injected {want.__name__}, {spec['how']}) left {len(now[0]) - len(snap_add[0])} octets and "
                         f"{len(now[1]) - len(snap_add[1])} compression entries of the unfinished record behind", c)
                    return
                continue
            try:
                if sec == 0:
                    if qdef and rr.rdclass == 1:
                        r.add_question(rr.name, rr.rdtype)       # class left to its default (IN)
                    else:
                        r.add_question(rr.name, rr.rdtype, rr.rdclass)
                elif route == "rdataset":
                    rds = rr.to_rdataset() if len(rr) else dns.rdataset.Rdataset(rr.rdclass, rr.rdtype, rr.covers, rr.ttl)
                    r.add_rdataset(sec, rr.name, rds, want_shuffle=False, override_rdclass=rr.deleting)
                else:
                    r.add_rrset(sec, rr, want_shuffle=False)
                tr.append(f"ok:{r.output.tell()}:{len(r.compress)}")
                kept[sec].append(c["sections"][sec][i])
            except dns.exception.TooBig:
                tr.append(f"big:{r.output.tell()}:{len(r.compress)}")
                ctx.count("steps.rollback")
            except dns.name.NeedAbsoluteNameOrOrigin:
                tr.append("err:NeedAbsoluteNameOrOrigin")
                ctx.count("steps.need-absolute")
                stop = True
                now = (r.output.getvalue(), dict(r.compress), list(r.counts))
                if now != snap_add:
                    # (repaired in 2e4231d: _track_size rolls back on any exception, not only TooBig)
                    fail(ctx, "C03/renderer/partial-record-after-exception",
                         f"an add that raised NeedAbsoluteNameOrOrigin left {len(now[0]) - len(snap_add[0])} octets and "
                         f"{len(now[1]) - len(snap_add[1])} compression entries of the unfinished record behind", c)
    ck = dict(c, sections=kept)
    if c["opt"] is not None and edns is not None:
        o = c["opt"]
        options = [dns.edns.option_from_wire(t, bytes.fromhex(b), 0, len(bytes.fromhex(b))) for t, b in o["options"]]
        try:
            r.add_edns(edns, o["ttl"], o["payload"], options)
            tr.append(f"opt:ok:{r.output.tell()}")
            ck["opt"] = dict(o, ttl=(o["ttl"] & 0xFF00FFFF) | (edns << 16))   # RFC 6891: the version octet is `edns`
            ctx.count("steps.add_edns")
        except dns.exception.TooBig:
            tr.append(f"opt:big:{r.output.tell()}")
            ck["opt"] = None
    else:
        ck["opt"] = None
    r.write_header()
    w = r.get_wire()
    tbl = ";".join(f"{enc_labels(k.labels)}@{v}" for k, v in r.compress.items())
    ctx.corr(f"c03.steps {ms} {'-' if edns is None else edns} {msg_tokens(without_boom(c))}", f"ok {' '.join(tr)} out={hx(w)} tbl={tbl}", c)
    ctx.count("steps")
    ctx.count("steps.route." + route)
    if stop:
        return
    if c.get("cmp_to_wire"):
        # the third route: the message object's own to_wire must give the same octets (and so the same header counts)
        try:
            wmsg = m.to_wire(max_size=65535, want_shuffle=False)
        except Exception as e:  # noqa: BLE001
            wmsg = type(e).__name__
        if wmsg != w:
            fail(ctx, "C03/renderer/differs-from-to_wire", f"Renderer.add_{route} route: counts {struct.unpack('!HHHH', w[4:12])}, {len(w)} octets; "
                 f"the message's to_wire: {wmsg if isinstance(wmsg, str) else (struct.unpack('!HHHH', wmsg[4:12]), len(wmsg))}", c)
    for clause, text in check_walk(ck, w):
        sig = {"pointer": "C03/renderer/compression/pointer-target", "name-differs": "C03/renderer/compression/name-differs",
               "undecodable": "C03/renderer/compression/undecodable", "counts": "C03/renderer/counts",
               "record-differs": "C03/renderer/record-differs"}[clause]
        fail(ctx, sig, "after a caught TooBig: " + text, c)
    for k, v in r.compress.items():
        if v >= len(w):
            fail(ctx, "C03/renderer/compression/table-dangling", f"table entry {k} -> {v} beyond the {len(w)}-octet buffer", c)
            continue
        try:
            got, _ = walk_name(w, v, set(), [])
        except WalkError as e:
            fail(ctx, "C03/renderer/compression/table-unsound", f"entry {k} -> {v}: {e}", c)
            continue
        if lower(got) != lower(list(k.labels)):
            fail(ctx, "C03/renderer/compression/table-unsound", f"entry {k} -> {v} decodes to {got!r}", c)
    pl, m2 = parse(w, origin=m.origin)
    if m2 is None:
        fail(ctx, f"C03/renderer/from_wire/raises/{pl.split(' ')[-1]}", f"from_wire of the Renderer's output -> {pl}", c)
        return
    mk, _ = mk_message(ck)
    d = same_message(mk, m2, m.origin)
    if d:
        fail(ctx, "C03/renderer/parse_render/value-differs", f"parsed message differs from the records added: {d}", c)


def eval_case(ctx: Ctx, c: dict):
    k = c["kind"]
    if k == "steps":
        eval_steps(ctx, c)
    elif k == "msg":
        eval_msg(ctx, c)
    elif k == "wire":
        eval_wire(ctx, c)
    elif k == "hdr":
        eval_hdr(ctx, c)
    else:
        raise ValueError(k)


# ------------------------------------------------------------------------------------------------
# generators
# ------------------------------------------------------------------------------------------------
LABELS = [b"a", b"b", b"A", b"c", b"example", b"EXAMPLE", b"Example", b"com", b"COM", b"org", b"www", b"WWW", b"ns1", b"ns2",
          b"mail", b"x" * 63, b"y" * 31, b"_tcp", b"1", b"\x00", b"a.b", b"\xff\xfe", b"Z", b"z"]
OPAQUE_TYPES = [1, 28, 16, 43, 48, 46, 13, 99, 65280, 65281, 257, 52, 44, 17, 39, 47]
CLASSES = [1, 1, 1, 1, 3, 4, 65280]


def gen_label(rng):
    m = rng.below(10)
    if m < 8:
        return rng.choice(LABELS)
    if m == 8:
        return rng.bytes(rng.choice([1, 2, 5, 20, 63]))
    return rng.bytes(rng.choice([1, 3, 8]), [0x41, 0x61, 0x5A, 0x7A, 0x2E, 0x00, 0x40, 0x5B])


def wf_labels(labels):
    return all(0 < len(l) <= 63 for l in labels[:-1]) and len(labels[-1]) <= 63 and sum(len(l) + 1 for l in labels) <= 255


class NameGen:
    """owner/target names over a few base suffixes so that suffixes repeat; relative names when an origin is set"""

    def __init__(self, rng, origin):
        self.rng = rng
        self.origin = origin  # list of labels (absolute) or None
        self.bases = []
        for _ in range(rng.range(1, 3)):
            self.bases.append([gen_label(rng) for _ in range(rng.range(1, 3))] + [b""])
        self.used = []

    def name(self):
        rng = self.rng
        m = rng.below(12)
        if m == 0:
            labels = [b""]
        elif m <= 2 and self.used:
            labels = list(rng.choice(self.used))
            if rng.chance(1, 2):
                labels = [bytes(l).swapcase() for l in labels]
        else:
            labels = [gen_label(rng) for _ in range(rng.choice([0, 1, 1, 2, 3]))] + list(rng.choice(self.bases))
            if rng.chance(1, 6):
                labels = [bytes(l).swapcase() if rng.chance(1, 2) else l for l in labels]
        if self.origin is not None and rng.chance(2, 3):
            # relative name (possibly empty = the origin itself)
            labels = [gen_label(rng) for _ in range(rng.choice([0, 1, 1, 2]))]
            full = labels + self.origin
            if not wf_labels(full):
                labels = []
            self.used.append(labels + self.origin)
            return labels
        if not wf_labels(labels):
            labels = list(rng.choice(self.bases))
        if not wf_labels(labels):
            labels = [b"a", b""]
        self.used.append(labels)
        return labels


def wire_of(labels):
    return b"".join(bytes([len(l)]) + bytes(l) for l in labels)


def gen_opaque(rng, rdtype, ng=None):
    """wire octets valid for the type (checked against the implementation by the caller).  Names embedded in
    uncompressed fields are drawn from the message's own name pool when there is no origin (so that a renderer
    that wrongly compressed them would be noticed), from a private suffix otherwise."""
    shared = ng is not None and ng.origin is None and rng.chance(2, 3)

    def emb(default):
        if shared:
            n = ng.name()
            if n and n[-1] == b"" and wf_labels(n):
                return wire_of([bytes(l).lower() for l in n])
        return default
    if rdtype == 1:
        return rng.bytes(4)
    if rdtype == 28:
        return rng.bytes(16)
    if rdtype == 16 or rdtype == 99:
        out = b""
        for _ in range(rng.range(1, 3)):
            s = rng.bytes(rng.choice([0, 1, 5, 40, 255]))
            out += bytes([len(s)]) + s
        return out
    if rdtype == 43:
        return struct.pack("!HBB", rng.below(65536), rng.below(256), 2) + rng.bytes(32)
    if rdtype == 48:
        return struct.pack("!HBB", rng.choice([256, 257]), 3, rng.choice([8, 13, 15])) + rng.bytes(rng.choice([4, 32, 64]))
    if rdtype == 46:
        signer = emb(b"\x03sig\x07invalid\x00")
        return struct.pack("!HBBIIIH", rng.choice([1, 2, 15, 28]), 8, 2, 3600, FIXED_TIME + 86400, FIXED_TIME, rng.below(65536)) + signer + rng.bytes(16)
    if rdtype == 13:
        a, b = rng.bytes(rng.below(6)), rng.bytes(rng.below(6))
        return bytes([len(a)]) + a + bytes([len(b)]) + b
    if rdtype == 257:
        tag = rng.choice([b"issue", b"iodef", b"issuewild"])
        return bytes([rng.choice([0, 128]), len(tag)]) + tag + rng.bytes(rng.range(1, 12), list(range(97, 123)))
    if rdtype == 52:
        return bytes([rng.below(4), rng.below(2), 1]) + rng.bytes(32)
    if rdtype == 44:
        return bytes([rng.choice([1, 2, 3, 4]), 1]) + rng.bytes(20)
    if rdtype == 17:
        return emb(b"\x04mbox\x07invalid\x00") + emb(b"\x03txt\x07invalid\x00")
    if rdtype == 39:
        return emb(b"".join(bytes([len(l)]) + l for l in [gen_label(rng), b"invalid"]) + b"\0")
    if rdtype == 47:
        return emb(b"\x04next\x07invalid\x00") + b"\x00\x02\x40\x01"
    return rng.bytes(rng.choice([0, 1, 2, 7, 30, 200]))


def gen_rdata(rng, ng, rdclass, rdtype):
    if rdtype in NAME1:
        return {"k": "n", "n": hexl(ng.name())}
    if rdtype in MXT:
        return {"k": "m", "p": rng.choice([0, 1, 10, 255, 256, 65535]), "n": hexl(ng.name())}
    if rdtype in SOAT:
        return {"k": "s", "m": hexl(ng.name()), "r": hexl(ng.name()),
                "i": [rng.choice([0, 1, 2 ** 31, 2 ** 32 - 1, rng.below(2 ** 32)]) for _ in range(5)]}
    for _ in range(4):
        b = gen_opaque(rng, rdtype, ng)
        try:
            rd = dns.rdata.from_wire(rdclass, rdtype, b, 0, len(b))
            if rd.to_wire() == b:
                return {"k": "o", "b": b.hex()}
        except Exception:
            pass
    return None


TTL_POOL = [0, 1, 60, 300, 3600, 2 ** 31 - 1]


def gen_rrset(rng, ng, big=False):
    rdtype = rng.choice([1, 1, 2, 2, 5, 12, 15, 15, 6, 16, 28] + OPAQUE_TYPES)
    rdclass = rng.choice(CLASSES)
    if rdclass != 1 and rdtype not in (2, 5, 12, 15, 6, 16, 65280, 65281):
        rdclass = 1
    n = 1 if rdtype in (5, 6, 39, 47) else rng.choice([1, 1, 1, 2, 2, 3, 5])
    if big:
        rdtype, rdclass, n = 65280, 1, 1
    rds = []
    for _ in range(n):
        rd = {"k": "o", "b": rng.bytes(rng.choice([900, 1000, 1100])).hex()} if big else gen_rdata(rng, ng, rdclass, rdtype)
        if rd is not None:
            rds.append(rd)
    if not rds:
        rdtype, rds = 1, [{"k": "o", "b": rng.bytes(4).hex()}]
    covers = 0
    if rdtype in SIGT:
        covers = int.from_bytes(bytes.fromhex(rds[0]["b"])[:2], "big")
        rds = [x for x in rds if int.from_bytes(bytes.fromhex(x["b"])[:2], "big") == covers]
    return {"name": hexl(ng.name()), "rdclass": rdclass, "rdtype": rdtype, "covers": covers, "deleting": None,
            "ttl": rng.choice(TTL_POOL), "rdatas": rds}


def gen_rrset_of(rng, ng, rdtype, rdclass):
    rds = [x for x in (gen_rdata(rng, ng, rdclass, rdtype) for _ in range(rng.choice([1, 1, 2]))) if x is not None]
    if not rds:
        return None
    covers = 0
    if rdtype in SIGT:
        covers = int.from_bytes(bytes.fromhex(rds[0]["b"])[:2], "big")
        rds = [x for x in rds if int.from_bytes(bytes.fromhex(x["b"])[:2], "big") == covers]
    return {"name": hexl(ng.name()), "rdclass": rdclass, "rdtype": rdtype, "covers": covers, "deleting": None,
            "ttl": rng.choice(TTL_POOL), "rdatas": rds}


def gen_options(rng):
    opts = []
    for _ in range(rng.choice([0, 0, 1, 1, 2, 3])):
        m = rng.below(6)
        if m == 0:
            o = dns.edns.NSIDOption(rng.bytes(rng.below(12)))
        elif m == 1:
            o = dns.edns.CookieOption(rng.bytes(8), rng.choice([b"", rng.bytes(8), rng.bytes(32)]))
        elif m == 2:
            o = dns.edns.ECSOption(rng.choice(["192.0.2.0", "10.1.2.0", "2001:db8::", "10.255.255.255"]), rng.choice([16, 24, 32, 9, 20, 31, 0]), rng.choice([0, 8]))
        elif m == 3:
            o = dns.edns.EDEOption(rng.choice([0, 1, 15, 22]), rng.choice([None, "x", "some text"]))
        elif m == 4:
            o = dns.edns.GenericOption(rng.choice([65001, 65002, 4242]), rng.bytes(rng.choice([0, 1, 4, 30, 100])))
        else:
            o = dns.edns.GenericOption(12, b"\0" * rng.below(10))
        try:
            w = o.to_wire()
            if dns.edns.option_from_wire(int(o.otype), w, 0, len(w)) == o:
                opts.append([int(o.otype), w.hex()])
        except Exception:
            pass
    return opts


TSIG_ALGS = [b"hmac-sha256", b"hmac-sha1", b"hmac-sha512", b"hmac-sha224", b"hmac-sha384"]


def gen_tsig(rng, ng, c):
    kn = ng.name()
    if not kn or kn[-1] != b"":
        kn = kn + (L(c["origin"]) if c["origin"] is not None else [b""])
    if rng.chance(1, 3) or not wf_labels(kn):
        kn = [b"key", rng.choice([b"unrelated", b"k2"]), b""]
    if kn == [b""]:
        kn = [b"k", b""]
    c["secret"] = rng.bytes(rng.choice([8, 16, 32])).hex()
    return {"name": hexl(kn), "alg": hexl([rng.choice(TSIG_ALGS), b""]), "time": 0, "fudge": rng.choice([300, 1, 65535, 0]),
            "mac": "", "orig_id": rng.choice([c["id"], 0, 65535]), "error": 0, "other": rng.choice(["", "", "000000000001"])}


def gen_message(rng, size="normal", want_opt=None, want_tsig=None, origin_mode=None):
    """a well-formed non-update message case"""
    op = rng.choice([0, 0, 0, 0, 1, 2, 4, 4, 3, 7, 15])
    flags = (op << 11) | rng.choice([0, 0x8000, 0x8400, 0x0100, 0x8180, 0x0020, 0x0010, 0x0200, 0x87B0 & ~0x7800]) | rng.choice([0, 0, 1, 2, 3, 5, 9, 15])
    om = rng.below(8) if origin_mode is None else origin_mode
    origin = None
    if om == 0:
        origin = [b"example", b""]
    elif om == 1:
        origin = [gen_label(rng), b"org", b""]
    elif om == 2 and rng.chance(1, 3):
        origin = [b""]
    if origin is not None and not wf_labels(origin):
        origin = [b"example", b""]
    ng = NameGen(rng, origin)
    c = {"kind": "msg", "id": rng.choice([0, 1, 65535, rng.below(65536)]), "flags": flags,
         "origin": None if origin is None else hexl(origin), "request_payload": 0, "pad": 0,
         "sections": [[], [], [], []], "opt": None, "tsig": None, "max_size": 65535}
    nq = rng.choice([0, 1, 1, 1, 1, 2, 3])
    for _ in range(nq):
        c["sections"][0].append({"name": hexl(ng.name()), "rdclass": rng.choice([1, 1, 3, 255, 254]),
                                 "rdtype": rng.choice([1, 2, 6, 15, 28, 255, 251, 252, 65280]), "covers": 0, "deleting": None,
                                 "ttl": 0, "rdatas": []})
    counts = {"tiny": [0, 1], "normal": [0, 0, 1, 1, 2, 3, 5], "large": [4, 6, 9]}[size if size != "huge" else "normal"]
    big_sec = rng.choice([1, 2])
    for sec in (1, 2, 3):
        for _ in range(rng.choice(counts)):
            c["sections"][sec].append(gen_rrset(rng, ng))
        # siblings: same owner, differing in exactly one key component (type / class / covers)
        for _ in range(rng.choice([0, 0, 1, 2])):
            if not c["sections"][sec]:
                break
            base = rng.choice(c["sections"][sec])
            sib = None
            if rng.chance(1, 2):
                t = 46
                sib1 = gen_rrset_of(rng, ng, 46, 1)
                sib2 = gen_rrset_of(rng, ng, 46, 1)
                if sib1 and sib2:
                    sib1["name"] = sib2["name"] = base["name"]
                    c["sections"][sec].append(sib1)
                    if sib2["covers"] != sib1["covers"]:
                        c["sections"][sec].append(sib2)
            else:
                sib = gen_rrset(rng, ng)
                sib["name"] = base["name"]
                c["sections"][sec].append(sib)
        if size == "huge" and sec == big_sec:
            for bi in range(rng.range(15, 18)):
                big = gen_rrset(rng, ng, big=True)
                nm = [b"big%d" % bi] + [l for l in L(big["name"])]
                if origin is not None and (not nm or nm[-1] != b""):
                    pass  # relative to the origin
                if wf_labels(absolute(nm, origin)):
                    big["name"] = hexl(nm)
                c["sections"][sec].append(big)
            for _ in range(3):
                c["sections"][sec].append(gen_rrset(rng, ng))
    if want_opt if want_opt is not None else rng.chance(1, 2):
        ver = rng.choice([0, 0, 0, 1, 255])
        ext = rng.choice([0, 0, 1, 0xFF])
        ef = rng.choice([0, 0x8000, 0x4000, 0xFFFF])
        c["opt"] = {"ttl": (ext << 24) | (ver << 16) | ef, "payload": rng.choice([512, 1232, 4096, 0, 65535]), "options": gen_options(rng)}
        if rng.chance(1, 6):
            c["pad"] = rng.choice([1, 16, 128, 468])
    if want_tsig if want_tsig is not None else rng.chance(1, 4):
        c["tsig"] = gen_tsig(rng, ng, c)
    if rng.chance(1, 10) and c["opt"] is not None:
        c["max_size"] = 0
        c["request_payload"] = rng.choice([0, 512, 1232, 4096, 70000])
    if rng.chance(1, 5):
        c["also_orr"] = True
    return c


def gen_update(rng):
    """an update message built through the UpdateMessage API (all add/delete/replace/present/absent forms)"""
    zone = [gen_label(rng) for _ in range(rng.range(1, 2))] + [b""]
    if not wf_labels(zone):
        zone = [b"example", b""]
    z = dns.name.Name(zone)
    zc = rng.choice([1, 1, 1, 3, 4])
    u = dns.update.UpdateMessage(z, rdclass=zc, id=rng.below(65536))
    ng = NameGen(rng, zone)

    def nm():
        return dns.name.Name(ng.name())

    def rdata(rdtype=None):
        for _ in range(8):
            t = rdtype or rng.choice([1, 2, 15, 16, 28, 5, 6, 65280])
            rd = gen_rdata(rng, ng, zc, t)
            if rd is not None:
                try:
                    return mk_rdata(zc, t, rd)
                except Exception:
                    pass
        return dns.rdata.from_text(zc, 16, '"x"')

    for _ in range(rng.range(1, 8)):
        f = rng.below(11)
        try:
            if f == 0:
                u.add(nm(), rng.choice(TTL_POOL), rdata())
            elif f == 1:
                rd = rdata()
                rs = dns.rdataset.from_rdata(rng.choice(TTL_POOL), rd)
                u.add(nm(), rs)
            elif f == 2:
                u.delete(nm())
            elif f == 3:
                u.delete(nm(), rng.choice([1, 2, 15, 16, 255 if False else 28]))
            elif f == 4:
                u.delete(nm(), rdata())
            elif f == 5:
                u.replace(nm(), rng.choice(TTL_POOL), rdata())
            elif f == 6:
                u.present(nm())
            elif f == 7:
                u.present(nm(), rng.choice([1, 2, 15, 28]))
            elif f == 8:
                u.present(nm(), rdata())
            elif f == 9:
                u.absent(nm())
            else:
                u.absent(nm(), rng.choice([1, 2, 15, 6]))
        except Exception:
            continue
    if rng.chance(1, 4):
        g = gen_rrset(rng, ng)
        g["rdatas"] = g["rdatas"][:1]  # updates are always parsed one RR per RRset
        u.sections[3].append(mk_rrset(g))
    if rng.chance(1, 3):
        u.use_edns(0, rng.choice([0, 0x8000]), rng.choice([1232, 4096]))
    c = case_of_message(u, kind="msg", max_size=65535)
    if rng.chance(1, 3) and c["sections"][2]:
        # delete forms outside the update section: class NONE with rdata / class ANY without, in ADDITIONAL
        own = c["sections"][2][0]["name"]
        if rng.chance(2, 3):
            c["sections"][3].append({"name": own, "rdclass": c["sections"][0][0]["rdclass"], "rdtype": 65280, "covers": 0, "deleting": 254, "ttl": 0,
                                     "rdatas": [{"k": "o", "b": rng.bytes(4).hex()}]})
        if rng.chance(1, 2):
            c["sections"][3].append({"name": own, "rdclass": c["sections"][0][0]["rdclass"], "rdtype": 65281, "covers": 0, "deleting": 255, "ttl": 0,
                                     "rdatas": []})
    if rng.chance(1, 4):
        c["tsig"] = gen_tsig(rng, ng, c)
    if rng.chance(1, 3):
        # parse without origin as well: absolute rendering of the same update
        c["origin_note"] = "zone"
    return c


EMPTY_TTLS = [0, 1, 3600, 2 ** 31 - 1]


def gen_update_objects(rng):
    """an UPDATE message assembled by hand from RRset objects instead of through the UpdateMessage helpers (which always
    give TTL 0): empty rrsets made with from_text(name, ttl, class, type) or by clear()ing a filled one, with any TTL, in
    the prerequisite and update sections, in the parser's representation (zone class + deleting) or the API's (class
    ANY/NONE); RFC 2136 §2.4/2.5: the TTL of every RDLENGTH-0 record on the wire is 0"""
    zc = rng.choice([1, 1, 3, 4])
    zone = dns.name.Name([rng.choice([b"example", b"zone", b"EX"]), b""])
    use_origin = rng.chance(1, 3)
    u = dns.update.UpdateMessage(zone, rdclass=zc, id=rng.below(65536))
    u.origin = zone if use_origin else None
    if not use_origin:
        u.sections[0][0].name = zone
    else:
        u.sections[0][0].name = dns.name.empty

    def nm(i):
        l = [rng.choice([b"a", b"host", b"WWW", b"x" * 20]) + b"%d" % i]
        return dns.name.Name(l) if use_origin else dns.name.Name(l + list(zone.labels))

    render_only = False
    k = 0
    for sec in (1, 2):
        for _ in range(1 + rng.below(4)):
            k += 1
            ttl = rng.choice(EMPTY_TTLS)
            rdtype = rng.choice([65280, 65281, 255 if sec == 2 or rng.chance(1, 2) else 65280])
            form = rng.below(6)
            if form == 0:        # ordinary record (add / prerequisite with value)
                rr = dns.rrset.RRset(nm(k), zc, 65280 + rng.below(2))
                rr.update_ttl(0 if sec == 1 else rng.choice([0, 300]))
                rr.add(dns.rdata.from_wire(zc, rr.rdtype, rng.bytes(4), 0, 4))
            elif form == 1:      # parser's representation: (zone class, deleting=ANY), empty, any TTL
                rr = dns.rrset.RRset(nm(k), zc, rdtype, 0, 255)
                rr.update_ttl(ttl)
            elif form == 2:      # API's representation: class ANY itself, made by from_text with a TTL and no rdatas
                rr = dns.rrset.from_text(nm(k), ttl, "ANY", dns.rdatatype.to_text(rdtype) if rdtype == 255 else f"TYPE{rdtype}")
            elif form == 3:      # a filled rrset that was clear()ed: the TTL stays
                rr = dns.rrset.RRset(nm(k), zc, 65280, 0, 255)
                rr.update_ttl(ttl)
                rr.add(dns.rdata.from_wire(zc, 65280, rng.bytes(3), 0, 3))
                rr.clear()
            elif form == 4:      # class NONE, empty: "rrset does not exist" in the prerequisite section
                rr = dns.rrset.RRset(nm(k), zc, 65280, 0, 254)
                rr.update_ttl(ttl)
                if sec == 2:
                    render_only = True   # an RDLENGTH-0 delete-RR: the reader parses the (empty) RDATA
            else:                # an empty rrset of the zone's own class (no RFC 2136 meaning): rendering clauses only
                rr = dns.rrset.RRset(nm(k), zc, 65281)
                rr.update_ttl(ttl)
                render_only = True
            u.sections[sec].append(rr)
    c = case_of_message(u, kind="msg", max_size=65535)
    if render_only:
        c["render_only"] = True
    return c


def normalise(c):
    """rebuild through the library's own constructors (Set semantics, singleton types) and read the case back"""
    m, _ = mk_message(c)
    n = case_of_message(m, kind="msg", max_size=c.get("max_size", 65535))
    n["tsig"] = c["tsig"]
    for k in ("secret", "also_orr", "request_payload"):
        if k in c:
            n[k] = c[k]
    return n


def wellformed(c):
    """distinct RRset keys per section (else the parser merges them: not a well-formed message)"""
    org = None if c["origin"] is None else L(c["origin"])
    for sec in (1, 2, 3):
        seen = set()
        for r in c["sections"][sec]:
            k = (tuple(lower(absolute(L(r["name"]), org))), r["rdclass"], r["rdtype"], r["covers"], r["deleting"])
            if (k in seen and not is_update(c)) or (not r["rdatas"] and not is_update(c)):
                return False
            seen.add(k)
            if r["rdtype"] in (41, 250):
                return False
            digs = set()
            for rd in r["rdatas"]:
                if rd["k"] == "o":
                    d = ("o", rd["b"])
                else:
                    d = tuple(tuple(lower(absolute(L(rd[f]), org))) for f in ("n", "m", "r") if f in rd and isinstance(rd[f], list)) + (rd.get("p"), tuple(rd.get("i", ())))
                if d in digs:
                    return False
                digs.add(d)
    return True


def is_update(c):
    return (c["flags"] & 0x7800) >> 11 == 5


def mutate_wire(rng, w):
    w = bytearray(w)
    m = rng.below(14)
    if m == 0 and len(w) >= 12:
        i = rng.choice([4, 6, 8, 10])
        v = struct.unpack("!H", w[i:i + 2])[0]
        struct.pack_into("!H", w, i, max(0, v + rng.choice([-1, 1, 2])))
    elif m == 1:
        w = w[: rng.below(len(w) + 1)]
    elif m == 2:
        w += rng.bytes(rng.range(1, 4))
    elif m in (3, 4) and len(w) > 12:
        i = rng.range(12, len(w) - 1)
        w[i] = rng.choice([0, 1, 0x3F, 0x40, 0x80, 0xC0, 0xC1, 0xFF, w[i] ^ 0x80, rng.below(256)])
    elif m == 5 and len(w) > 14:
        i = rng.range(12, len(w) - 2)
        t = rng.choice([12, i, i + 1, i - 1, 0, rng.below(len(w))])
        w[i] = 0xC0 | ((t >> 8) & 0x3F)
        w[i + 1] = t & 0xFF
    elif m == 6 and len(w) >= 12:
        struct.pack_into("!H", w, 2, struct.unpack("!H", w[2:4])[0] ^ (5 << 11))
    elif m == 7 and len(w) > 12:
        i = rng.range(12, len(w) - 1)
        del w[i]
    elif m == 8 and len(w) > 12:
        i = rng.range(12, len(w) - 1)
        w.insert(i, rng.below(256))
    elif m in (9, 10):
        try:
            wm = walk_message(bytes(w))
            recs = [r for r in wm["recs"] if r["sec"] > 0]
            if recs and wm["end"] == len(w):
                if m == 9:
                    # duplicate the last record (a second OPT when the message carries one)
                    last = recs[-1]
                    w += w[last["pos"]:last["end"]] if not any(p >= last["pos"] for p, _ in wm["ptrs"]) else b""
                    cnt = list(wm["counts"])
                    if len(w) > wm["end"]:
                        cnt[last["sec"]] += 1
                        struct.pack_into("!HHHH", w, 4, *cnt)
                else:
                    # move a section boundary: the same records, one of them counted in the neighbouring section
                    cnt = list(wm["counts"])
                    i = rng.choice([1, 2])
                    if cnt[i + 1] > 0 and rng.chance(1, 2):
                        cnt[i] += 1
                        cnt[i + 1] -= 1
                    elif cnt[i] > 0:
                        cnt[i] -= 1
                        cnt[i + 1] += 1
                    struct.pack_into("!HHHH", w, 4, *cnt)
        except WalkError:
            pass
    return bytes(w)


def model_exact_wire(w):
    """does every record the walker can see have a type the model decodes exactly as the implementation does
    (modelled name shapes, OPT, or a type dnspython treats as generic)?  Generator-side filter only."""
    try:
        recs = walk_message(w)["recs"]
    except WalkError as e:
        recs = getattr(e, "partial", [])
    for r in recs:
        if r["sec"] == 0:
            continue
        t = r["rdtype"]
        if t in (2, 5, 12, 15, 6, 41):
            continue
        if t == 250:
            return False
        try:
            if dns.rdata.get_rdata_class(r["rdclass"], t) is not dns.rdata.GenericRdata:
                return False
        except Exception:
            return False
    return True


def model_exact_message(rng):
    """messages whose every type is parsed by the model exactly as by the implementation (names + generic types)"""
    c = gen_message(rng, size=rng.choice(["tiny", "normal"]), want_tsig=False)
    for sec in (1, 2, 3):
        keep = []
        for r in c["sections"][sec]:
            if r["rdtype"] in (2, 5, 12, 15, 6, 65280, 65281):
                keep.append(r)
        c["sections"][sec] = keep
    if c["opt"] is not None:
        c["opt"]["options"] = [o for o in c["opt"]["options"] if o[0] in (65001, 65002, 4242, 12)]
    c["pad"] = 0
    c["max_size"] = 65535
    return c


def gen_update_wire(rng):
    """hand-encoded (uncompressed) UPDATE messages around the zone-section rules: two zone entries, a zone entry that is
    not SOA or has a meta class, no zone entry before a record, delete forms in every section"""
    def name(*labels):
        return b"".join(bytes([len(l)]) + l for l in labels) + b"\0"
    def q(n, t=6, cl=1):
        return n + struct.pack("!HH", t, cl)
    def rec(n, t, cl, ttl, rd):
        return n + struct.pack("!HHIH", t, cl, ttl, len(rd)) + rd
    zone = name(rng.choice([b"example", b"zone", b"EX"]))
    host = name(b"host") [:-1] + zone
    zc = rng.choice([1, 1, 3, 4])
    v = rng.below(9)
    qs, pre, upd, add = [q(zone, 6, zc)], [], [], []
    if v == 0:
        qs.append(q(zone, 6, zc))                       # a second zone entry
    elif v == 1:
        qs.append(q(name(b"other"), 6, zc))
    elif v == 2:
        qs = [q(zone, rng.choice([2, 1, 255]), zc)]     # not SOA
    elif v == 3:
        qs = [q(zone, 6, rng.choice([255, 254]))]       # meta class
    elif v == 4:
        qs = []                                          # a record before any zone entry
    if v == 1 and rng.chance(1, 2):
        qs[1] = q(name(b"other"), 2, 255)
    for lst, sec in ((pre, 1), (upd, 2), (add, 3)):
        for _ in range(rng.below(3)):
            f = rng.below(4)
            if f == 0:
                lst.append(rec(host, 65280, zc, rng.choice([0, 300]), rng.bytes(4)))
            elif f == 1:
                lst.append(rec(host, 65280, 254, 0, rng.bytes(4) if rng.chance(3, 4) else b""))   # class NONE
            elif f == 2:
                lst.append(rec(host, rng.choice([65280, 255]), 255, 0, b"" if rng.chance(3, 4) else rng.bytes(4)))   # class ANY
            else:
                lst.append(rec(host, 2, zc, 60, name(b"ns") [:-1] + zone))
    hdr = struct.pack("!HHHHHH", rng.below(65536), 0x2800 | rng.choice([0, 0x8000]), len(qs), len(pre), len(upd), len(add))
    return hdr + b"".join(qs + pre + upd + add)


def gen_bounds(rng):
    """exact boundaries of the wire fields: 255-octet and 254-octet names (owner and inside RDATA), 63-octet labels, TTL 0 and
    2^31-1, MX preference 0 / 65535, SOA integers 0 / 2^32-1, id 0 / 65535, payload 0 / 65535, option code 0 / 65535, empty
    option and empty RDATA"""
    def rr(name, rdtype, rds, ttl):
        return {"name": hexl(name), "rdclass": 1, "rdtype": rdtype, "covers": 0, "deleting": None, "ttl": ttl, "rdatas": rds}
    x63 = lambda ch: bytes([ch]) * 63
    last = rng.choice([61, 60])                                # 64 + 64 + 64 + (last + 1) + 1 = 255 / 254 octets
    long1 = [x63(97), x63(98), x63(99), bytes([100]) * last, b""]
    long2 = [b"n", x63(98), x63(99), bytes([100]) * (last - 2), b""]   # shares a 63+last suffix with long1: compressed
    T = [0, 2 ** 31 - 1]
    an = [rr(long1, 2, [{"k": "n", "n": hexl(long2)}], rng.choice(T)),
          rr(long2, 15, [{"k": "m", "p": rng.choice([0, 65535]), "n": hexl(long1)}], rng.choice(T)),
          rr([b"s", b""], 6, [{"k": "s", "m": hexl(long1), "r": hexl([b""]), "i": [rng.choice([0, 2 ** 32 - 1]) for _ in range(5)]}], rng.choice(T)),
          rr([b""], 65280, [{"k": "o", "b": ""}], 0)]
    c = {"kind": "msg", "id": rng.choice([0, 65535]), "flags": rng.choice([0, 0x8000, 0x87EF]), "origin": None, "request_payload": 0, "pad": 0,
         "sections": [[rr(long1, rng.choice([1, 255, 65535]), [], 0)], an, [], []],
         "opt": {"ttl": rng.choice([0, 0xFFFFFFFF, 0x00FF0000]), "payload": rng.choice([0, 65535]),
                 "options": [[rng.choice([65535, 65001]), ""], [65002, rng.bytes(rng.choice([0, 1, 255])).hex()]]} if rng.chance(3, 4) else None,
         "tsig": None, "max_size": 65535}
    return c


def gen_straddle(rng, start, variant):
    """a message in which a fresh multi-label owner name begins at offset `start` (around 0x3FFF), so that some of its
    suffixes start at or before 16383 and others after, followed by owners and NS/MX targets sharing each suffix"""
    q = {"name": hexl([b"big", b"example", b""]), "rdclass": 1, "rdtype": 16, "covers": 0, "deleting": None, "ttl": 0, "rdatas": []}
    # header 12 + question 13 + 4 = 29; filler RR = pointer 2 + 10 + L
    fill = {"name": q["name"], "rdclass": 1, "rdtype": 65280, "covers": 0, "deleting": None, "ttl": 60,
            "rdatas": [{"k": "o", "b": (b"\x5a" * (start - 41)).hex()}]}
    lens = [[3, 5, 2, 4], [1, 1, 1, 1, 1, 1], [7, 1, 6], [2, 9, 3]][variant % 4]
    S = [bytes([97 + i]) * n for i, n in enumerate(lens)] + [b"tst", b""]
    if variant >= 4:
        S[1] = S[1].upper()
    def rr(name, rdtype, rds, ttl=300):
        return {"name": hexl(name), "rdclass": 1, "rdtype": rdtype, "covers": 0, "deleting": None, "ttl": ttl, "rdatas": rds}
    an = [fill, rr(S, 2, [{"k": "n", "n": hexl([b"ns"] + S[1:])}])]
    au, ad = [], []
    for k in range(1, len(S) - 1):
        suf = S[k:]
        if variant >= 4 and rng.chance(1, 2):
            suf = [bytes(l).swapcase() for l in suf]
        au.append(rr([b"o%d" % k] + suf, 15, [{"k": "m", "p": k, "n": hexl([b"mx%d" % k] + S[k:])}]))
        ad.append(rr([b"mx%d" % k] + S[k:], 1, [{"k": "o", "b": rng.bytes(4).hex()}]))
    ad.append(rr(S, 1, [{"k": "o", "b": rng.bytes(4).hex()}]))
    return {"kind": "msg", "id": rng.below(65536), "flags": 0x8400, "origin": None, "request_payload": 0, "pad": 0,
            "sections": [[q], an, au, ad], "opt": None, "tsig": None, "max_size": 65535}


def gen_rollback(rng, variant):
    """a Renderer script: question, fillers, an rrset with a fresh owner name that does not fit (TooBig, rolled back — its
    owner was registered in the compression table at exactly the rollback offset), then small rrsets whose owner / NS / MX
    targets end in (or equal) the rolled-back owner, one of them possibly written at the very same offset"""
    use_origin = variant % 4 == 3
    base = [b"example", b""]
    origin = base if use_origin else None

    def nm(*labels):
        return hexl(list(labels) + ([] if use_origin else base))

    def rr(name, rdtype, rds, ttl=300):
        return {"name": name, "rdclass": 1, "rdtype": rdtype, "covers": 0, "deleting": None, "ttl": ttl, "rdatas": rds}

    def raw(n):
        return {"k": "o", "b": rng.bytes(n).hex()}

    B = [[b"big"], [b"x", b"big"], [b"Big"], [b"big", b"sub"]][(variant // 4) % 4]
    q = [] if rng.chance(1, 4) else [rr(nm(b"www"), 1, [], 0)]
    fills = [rr(nm(b"f%d" % i), 65280, [raw(rng.below(40))]) for i in range(rng.below(3))]
    if variant % 2 == 0:
        big = rr(nm(*B), 65281, [raw(60 + rng.below(80)) for _ in range(3 + rng.below(4))])
    else:
        big = rr(nm(*B), 2, [{"k": "n", "n": nm(b"t%d" % i, b"y" * 40, *B)} for i in range(4 + rng.below(4))])
    pool = [
        rr(nm(*B), 1, [raw(4)]),                                          # the same owner again, fewer records
        rr(nm(b"ns", *B), 1, [raw(4)]),                                   # an owner below it
        rr(nm(b"www"), 2, [{"k": "n", "n": nm(b"ns", *B)}]),              # NS target below it
        rr(nm(b"mail"), 15, [{"k": "m", "p": 10, "n": nm(*B)}]),          # MX target equal to it
        rr(nm(b"other"), 1, [raw(4)]),                                    # something else written where it stood
        rr(nm(*[l.swapcase() for l in B]), 28, [raw(16)]),                # the owner in the other case
        rr(nm(b"soa"), 6, [{"k": "s", "m": nm(b"m", *B), "r": nm(*B), "i": [1, 2, 3, 4, 5]}]),
    ]
    k = 2 + rng.below(len(pool) - 1)
    chosen = []
    avail = list(pool)
    for _ in range(k):
        chosen.append(avail.pop(rng.below(len(avail))))
    secs = sorted(1 + rng.below(3) for _ in chosen)
    sections = [q, fills + [big], [], []]
    for sc, x in zip(secs, chosen):
        sections[sc].append(x)
    c = {"kind": "steps", "id": rng.below(65536), "flags": rng.choice([0, 0x8400, 0x0100]), "origin": None if origin is None else hexl(origin),
         "request_payload": 0, "pad": 0, "sections": sections, "opt": None, "tsig": None, "max_size": 65535}
    # measure (unlimited Renderer): prefix, the big set, everything but the big set
    m, _ = mk_message(c)

    def measure(skip_big, stop_at_big):
        r = dns.renderer.Renderer(m.id, int(m.flags), 65535, m.origin)
        for sec in range(4):
            for i, x in enumerate(m.sections[sec]):
                isbig = sec == 1 and i == len(fills)
                if isbig and stop_at_big:
                    p = r.output.tell()
                    r.add_rrset(sec, x, want_shuffle=False)
                    return p, r.output.tell() - p
                if isbig and skip_big:
                    continue
                if sec == 0:
                    r.add_question(x.name, x.rdtype, x.rdclass)
                else:
                    r.add_rrset(sec, x, want_shuffle=False)
        return r.output.tell(), 0

    P, bigsize = measure(False, True)
    T, _ = measure(True, False)
    ms = T + rng.below(4) if rng.chance(2, 3) else P + rng.below(bigsize)
    c["max_size"] = max(P, min(ms, P + bigsize - 1))
    # the other public routes of the Renderer: add_rdataset, add_question's default class, constructor defaults/keywords, add_edns
    c["route"] = rng.choice(["rrset", "rdataset"])
    c["q_default"] = rng.chance(1, 2)
    c["ctor"] = rng.choice(["full", "keywords", "defaults"])
    if rng.chance(1, 3):
        c["max_size"] = 65535
    if rng.chance(1, 2):
        c["edns"] = rng.choice([0, 0, 1, 2, 255])
        c["opt"] = {"ttl": rng.choice([0, 0x8000, 0x00FF0000, 0x01020304, 0xFFFFFFFF, rng.below(2 ** 32)]), "payload": rng.choice([512, 1232, 4096, 65535]),
                    "options": gen_options(rng)}
    if origin is None and rng.chance(1, 12):
        # a relative owner without an origin: NeedAbsoluteNameOrOrigin, whatever the constructor's default origin is
        c["sections"][3].append(rr(hexl([b"relative"]), 1, [raw(4)]))
        if rng.chance(2, 3):
            c["ctor"], c["max_size"] = "defaults", 65535
    elif rng.chance(1, 6):
        # … or a non-DNS exception in the middle of an item whose owner a later rrset shares
        how = rng.choice(["ttl-neg", "ttl-big", "rd-ValueError", "rd-TypeError", "rd-OverflowError", "rd-HarnessAbort", "owner-ValueError"])
        boom = rr(nm(b"cache", *B), 15, [{"k": "m", "p": 10 + j, "n": nm(b"mx%d" % j, b"cache", *B)} for j in range(1 + rng.below(3))])
        boom["boom"] = {"how": how, "at": rng.below(len(boom["rdatas"]) + 1)}
        sb = rng.choice([1, 2, 3])
        c["sections"][sb].insert(0 if sb > 1 else len(fills) + 1, boom)
        c["sections"][rng.choice([x for x in (1, 2, 3) if x >= sb])].append(rr(nm(b"cache", *B), 1, [raw(4)]))
        c["max_size"] = max(c["max_size"], 65535 if rng.chance(1, 2) else c["max_size"])
    elif origin is None and rng.chance(1, 10):
        # … or a relative name inside the RDATA, after the owner (and possibly a first record) has been written
        rds = [{"k": "n", "n": nm(b"ns1", *B)}, {"k": "n", "n": hexl([b"relative-target"])}][rng.below(2):]
        c["sections"][rng.choice([1, 2, 3])].insert(0, rr(nm(b"ok", *B), 2, rds))
        if rng.chance(1, 2):
            c["max_size"] = 65535
    return c


def gen_steps_empty(rng):
    """the Renderer object with the degenerate input of RFC 2136: empty rrsets / rdatasets (delete-rrset, delete-name,
    "exists" / "does not exist" prerequisites), through add_rrset and through add_rdataset, which must count and write alike"""
    zone = [rng.choice([b"example", b"zone"]), b""]
    def rr(name, rdtype, rds, deleting=None, ttl=0):
        return {"name": hexl(name), "rdclass": 1, "rdtype": rdtype, "covers": 0, "deleting": deleting, "ttl": ttl, "rdatas": rds}
    def raw(n):
        return {"k": "o", "b": rng.bytes(n).hex()}
    pre, upd = [], []
    for k in range(1 + rng.below(3)):
        pre.append(rr([b"p%d" % k] + zone, rng.choice([1, 28, 255, 65280]), [], rng.choice([255, 254])))
    for k in range(1 + rng.below(3)):
        if rng.chance(1, 3):
            upd.append(rr([b"u%d" % k] + zone, 65280, [raw(4)], None, 300))
        else:
            upd.append(rr([b"u%d" % k] + zone, rng.choice([1, 15, 255, 65281]), [], 255))
    return {"kind": "steps", "id": rng.below(65536), "flags": 0x2800, "origin": None, "request_payload": 0, "pad": 0,
            "sections": [[rr(zone, 6, [])], pre, upd, []], "opt": None, "tsig": None, "max_size": 65535,
            "route": rng.choice(["rrset", "rdataset", "rdataset"]), "q_default": False, "ctor": "full", "cmp_to_wire": True}


def run_one(ctx, c):
    ctx.case((c["kind"], json.dumps(c, sort_keys=True)), sample=c if len(json.dumps(c)) < 1500 else None)
    eval_case(ctx, c)


def generate(ctx: Ctx, scale: int, rng):
    n = lambda q: max(1, q * scale)
    for i in range(n(700)):
        size = rng.choice(["tiny", "normal", "normal", "normal", "large"])
        c = gen_message(rng, size=size)
        try:
            c = normalise(c)
        except Exception:
            ctx.count("gen.rejected")
            continue
        if not wellformed(c):
            ctx.count("gen.not-wellformed")
            continue
        run_one(ctx, c)
    for i in range(n(4)):
        c = gen_message(rng, size="huge", origin_mode=rng.choice([0, 5, 5]))
        try:
            c = normalise(c)
        except Exception:
            continue
        if wellformed(c):
            run_one(ctx, c)
    # names straddling the 0x3FFF pointer limit at every alignment (quick: every alignment once, thorough: every variant)
    for start in range(16370, 16392):
        for variant in ([start % 8] if scale == 1 else range(8)):
            c = gen_straddle(rng, start, variant)
            run_one(ctx, c)
            ctx.count("straddle-3fff")
    for i in range(n(40)):
        run_one(ctx, gen_steps_empty(rng))
        ctx.count("steps.empty-forms")
    # direct Renderer use: catch TooBig, keep adding names that end in the rolled-back owner
    for i in range(n(6)):
        for variant in range(16):
            run_one(ctx, gen_rollback(rng, variant))
    for i in range(n(16)):
        run_one(ctx, gen_bounds(rng))
        ctx.count("bounds")
    # UPDATE messages assembled from RRset objects: empty rrsets with arbitrary TTLs
    for i in range(n(120)):
        try:
            c = gen_update_objects(rng)
        except Exception:
            ctx.count("gen.rejected")
            continue
        run_one(ctx, c)
        ctx.count("update-objects")
    for i in range(n(260)):
        try:
            c = gen_update(rng)
        except Exception:
            ctx.count("gen.rejected")
            continue
        run_one(ctx, c)
        if rng.chance(1, 2):
            # the same update, parsed without an origin (absolute names)
            c2 = json.loads(json.dumps(c))
            org = L(c2["origin"])
            for s in range(4):
                for r in c2["sections"][s]:
                    r["name"] = hexl(absolute(L(r["name"]), org))
                    for rd in r["rdatas"]:
                        for f in ("n", "m", "r"):
                            if f in rd and rd["k"] != "o" and isinstance(rd[f], list):
                                rd[f] = hexl(absolute(L(rd[f]), org))
            c2["origin"] = None
            run_one(ctx, c2)
    for i in range(n(1000)):
        c = model_exact_message(rng)
        try:
            c = normalise(c)
            m, _ = mk_message(c)
            _, w = render(m, 65535)
        except Exception:
            continue
        if w is None:
            continue
        w2 = w if rng.chance(1, 6) else mutate_wire(rng, w)
        if rng.chance(1, 4):
            w2 = mutate_wire(rng, w2)
        if not model_exact_wire(w2):
            ctx.count("gen.mutant-not-model-exact")
            continue
        wc = {"kind": "wire", "wire": w2.hex(), "origin": c["origin"] if rng.chance(1, 2) else None, "orr": rng.chance(1, 4),
              "it": rng.chance(1, 4)}
        run_one(ctx, wc)
    for i in range(n(12)):
        wc = {"kind": "wire", "wire": rng.bytes(rng.choice([0, 5, 11, 12, 13, 20, 40])).hex(), "origin": None, "orr": False, "it": False}
        run_one(ctx, wc)
    for i in range(n(60)):
        w2 = gen_update_wire(rng)
        if not model_exact_wire(w2):
            ctx.count("gen.mutant-not-model-exact")
            continue
        wc = {"kind": "wire", "wire": w2.hex(), "origin": hexl([b"example", b""]) if rng.chance(1, 3) else None, "orr": rng.chance(1, 4), "it": False}
        run_one(ctx, wc)
        ctx.count("update-wire")
    FL = [0, 1, 0xF, 0x10, 0x7800, 0x2800, 0x8000, 0xFFFF, 0x87FF, 0x0800, 0x7FFF]
    EF = [0, 0x00800000, 0xFF000000, 0x01000000, 0xFFFFFFFF, 0x00FF0000, 0x0000FFFF, 0x10008000]
    V = [0, 1, 15, 16, 17, 255, 256, 4095, 4096, 5000, 23]
    for i in range(n(250)):
        hc = {"kind": "hdr", "flags": rng.choice(FL + [rng.below(65536)]), "ednsflags": rng.choice(EF + [rng.below(2 ** 32)]),
              "value": rng.choice(V + [rng.below(4200)])}
        run_one(ctx, hc)


KNOWN_OPTIONS = [
    # (constructor, RFC wire form of the option data)
    (lambda: dns.edns.ECSOption("192.0.2.0", 24, 0), "00011800c00002"),
    (lambda: dns.edns.ECSOption("10.1.255.255", 20, 0), "000114000a01f0"),          # RFC 7871 §6: bits beyond the prefix are zero
    (lambda: dns.edns.ECSOption("10.129.0.0", 9, 3), "000109030a80"),
    (lambda: dns.edns.ECSOption("2001:db8:ffff::", 33, 0), "0002210020010db880"),
    (lambda: dns.edns.ECSOption("2001:db8::", 32, 8), "0002200820010db8"),
    (lambda: dns.edns.ECSOption("0.0.0.0", 0, 0), "00010000"),
    (lambda: dns.edns.NSIDOption(b"abc"), "616263"),
    (lambda: dns.edns.CookieOption(b"12345678", b"ABCDEFGH"), "31323334353637384142434445464748"),
    (lambda: dns.edns.EDEOption(15, "x"), "000f78"),
    (lambda: dns.edns.EDEOption(0, None), "0000"),
    (lambda: dns.edns.GenericOption(65001, b"\x01\x02"), "0102"),
]
KNOWN_FLAGS = {"QR": 0x8000, "AA": 0x0400, "TC": 0x0200, "RD": 0x0100, "RA": 0x0080, "AD": 0x0020, "CD": 0x0010}


def check_known_answers(ctx):
    """RFC 1035 §4.1.1 / RFC 4035 / RFC 6891 / RFC 7871 constants the round trip cannot see (both directions share them)"""
    c = {"kind": "consts"}
    for name, v in KNOWN_FLAGS.items():
        if int(getattr(dns.flags, name)) != v:
            fail(ctx, "C03/flags/value", f"dns.flags.{name} = {int(getattr(dns.flags, name)):#06x}, RFC value {v:#06x}", c)
        if dns.flags.to_text(v) != name or int(dns.flags.from_text(name)) != v:
            fail(ctx, "C03/flags/text", f"flag {name}: to_text({v:#06x}) = {dns.flags.to_text(v)!r}, from_text = {int(dns.flags.from_text(name)):#06x}", c)
    if int(dns.flags.DO) != 0x8000 or int(dns.flags.edns_from_text("DO")) != 0x8000:
        fail(ctx, "C03/flags/value", "EDNS DO flag is not 0x8000", c)
    for mk, hexw in KNOWN_OPTIONS:
        try:
            o = mk()
            w = o.to_wire()
            back = dns.edns.option_from_wire(int(o.otype), bytes.fromhex(hexw), 0, len(hexw) // 2)
        except Exception as e:  # noqa: BLE001
            fail(ctx, "C03/edns/option-wire", f"{hexw}: {type(e).__name__}", c)
            continue
        if w.hex() != hexw:
            fail(ctx, "C03/edns/option-wire", f"{o!r} renders to {w.hex()}, RFC form {hexw}", c)
        elif back.to_wire().hex() != hexw or back != o:
            fail(ctx, "C03/edns/option-wire", f"{hexw} parses to {back!r}, which renders to {back.to_wire().hex()}", c)
    ctx.count("known-answers")


def run(ctx: Ctx):
    check_known_answers(ctx)
    for p in sorted(glob.glob(os.path.join(VERIF, "corpus", "C03", "*.json"))):
        c = json.load(open(p))
        ctx.case(("corpus", p), sample=None)
        eval_case(ctx, c)
        ctx.count("corpus")
    generate(ctx, 1 if ctx.tier == "quick" else 30, ctx.rng)


def search(ctx: Ctx):
    for m in ctx.mismatches[:50]:
        if m.case is not None:
            try:
                eval_case(ctx, m.case)
            except Exception:
                pass
    generate(ctx, 3 if ctx.tier == "quick" else 40, ctx.rng.fork(7))


def replay(ctx: Ctx, obj: dict):
    eval_case(ctx, obj["case"])
    return [f.what for f in ctx.failures]


LEVEL = {
    "text": "Lean 4 theorems over an executable model of dns/renderer.py, Rdataset.to_wire, Message.to_wire and _WireReader.read "
            "(opaque RDATA + explicit NS/CNAME/PTR/MX/SOA shapes). PROVED: parse_render_partial — for every message with absolute names, any "
            "opcode but UPDATE, with or without OPT, EDNS padding and TSIG, any number of questions/record sets/records and any "
            "name-sharing pattern, parsing the rendering returns the message (same id, flags, opcode, rcode incl. extended, EDNS state — with "
            "padding: the options plus one PADDING option of < block zero octets —, TSIG, record sets and rdatas in order, no trailing octets) "
            "up to the ASCII case of compressed names; parse_render_exact — under the guard CaseClosed (all names in a suffix-closed set in "
            "which no two members differ only in ASCII case) the parsed message IS the original (request_payload aside); render_parse_render — "
            "under the same guard and an explicit max_size, re-rendering the parsed message reproduces the octets; update_forms — "
            "parse_render for dynamic updates (OPT/TSIG included) for every message whose canonical form (class ANY/NONE read as `deleting`, "
            "as the parser stores it) is well formed: delete-rrset/delete-name/delete-rr and present/absent prerequisite forms; the only "
            "excluded forms are those with canonUpdate m ≠ m, i.e. exactly the recorded finding (the UpdateMessage API's own representation), "
            "for which update_forms_api proves the octets are those of the canonical form; parse_origin_commutes — for EVERY wire, "
            "from_wire(origin=o) = from_wire() followed by relativisation of the section names, OPT/TSIG owners untouched (4655a6b), same error; "
            "render_origin_absolutize — rendering with an origin = rendering the derelativized message; parse_render_origin / update_forms_origin — "
            "render with origin, parse with origin: equal after relativisation (and equal to the original when its names are normal: relative, or "
            "absolute and not below the origin); counts_exact — the header counts are the records rendered (= section_count); "
            "compression_sound — in every rendering, with or without truncation, every compression-table entry "
            "(every possible pointer target) lies before the end of the buffer, at most at 0x3FFF, and decodes with the library's own "
            "strictly-backward-pointer decoder to its suffix up to case, and every name written decodes from its own offset to itself; "
            "trailing_octets — for EVERY accepted wire, appended octets give exactly TrailingJunk (ignore_trailing=False) or exactly the same message "
            "(ignore_trailing=True), and parse_render_trailing for renderings; "
            "rcode/opcode header codecs are exact inverses (complete tables); that a rolled-back add leaves no table entry behind is C08.rollback_exact "
            "(here the direct-Renderer stream ties it to the code: octets, table and trace equal the model's, independent pointer decoder, from_wire). TIE-ONLY (differential correspondence — rendered octets, parsed "
            "messages, section counts, header codecs; model == implementation on every generated case — plus the direct oracle with an "
            "independent wire walker): byte-identical re-rendering WITHOUT the case guard; updates with EDNS padding; one_rr_per_rrset parsing; "
            "mutated/ill-formed wires other than appended octets (error classification); and, by direct oracle only (outside the model): "
            "to_wire(origin=…), use_edns, Message.__eq__ saying no, from_wire(question_only / raise_on_truncation), RFC values of the flag "
            "constants and known-answer wires of the EDNS option codecs.",
    "note": "Trusted: Lean kernel + propext/Classical.choice/Quot.sound; the statements in lean/Props/C03.lean; the correspondence "
            "harness and its generators; harness/extract_C03.py. RDATA without compressible names is opaque octets; HMAC abstract. "
            "Imports the C01 compression lemma (Proofs/NameCompress.lean: loop_sound).",
    "technique": "Lean 4 proof (induction over the rendering fold with a compression-table invariant, parametric in the name relation "
                 "(up to case / exact under CaseClosed); offset-relative renderer; record-by-record parser simulation; commutation of the "
                 "parser with relativisation) + model-vs-implementation correspondence",
    "design_ref": "DESIGN.md §7 C03",
}

"""C19 — the copy-on-write B-tree of dns/btree.py is a correct sorted map with isolated clones.

Correspondence: every history is run on the real dns.btree (in-process) and on lean/Model/BTree.lean (driver op
`c19.hist`, one history per protocol line).  After every mutation the *full shape* of the mutated tree (all
elements of every node in preorder) is compared, together with a digest of the shape + size + frozen flag of every
live tree (original and clones are re-read from the real nodes each time), and every output (returned elements,
lengths, listings, cursor results, error families).

Oracle (property itself on the implementation): a Python sorted-dict reference per tree handle, an invariant
checker walking the real nodes (occupancy, children count, uniform leaf depth, strict order, size), clone
isolation (every other tree's shape is byte-identical before/after a mutation), frozen trees reject mutation,
cursor results equal navigation in the reference order (cursors are anchored positions that survive mutations).
"""
import bisect
import copy
import gc
import glob
import json
import os
import signal

import dns.btree as btree

from harness.core import Ctx, VERIF
try:
    from harness.core import Stalled
except ImportError:  # older core
    class Stalled(BaseException):
        pass

RULE = (
    "histories are generated from one SplitMix64 state: t in {3,4,5}, in-order optimisation on/off, dict or set API, "
    "int / str / dns.name.Name keys through an order-preserving encoding, key universes of 6..260 keys that always contain the falsy key (0, '', the empty name), phases (build ascending/descending/alternating/random, churn, drain in several "
    "orders), freeze/clone points with mutations of the original and of every clone along shared paths, 0..3 live "
    "registered cursors with seek/next/prev/park kept across mutations, a dedicated stream of cursor-vs-mutation histories simulated while generating (delete the element just returned, insert/delete next to the anchor, a mutation right after a seek, first mutation of a fresh clone under an open cursor), "
    "a stream of `for k in tree` iterators stepped between mutations of the same tree (incl. the mixins' pop()/popitem()), trees made with the constructors' default arguments (t = 127) driven past their first root split, "
    "every public spelling of an operation chosen deterministically per op (d[k]=v / insert_element with and without the in_order argument, del / discard / delete_key / pop / popitem, seek with and without `before`, copy.copy / original=), "
    "falsy keys and falsy dict values (0, None), keys of type int / str / Name / bytes / tuple / float, Element subclasses whose truth value is False, clones made with a different `t=` argument, "
    "an oracle-only stream (no model line): key comparisons that raise (a BaseException, a ValueError or a KeyError subclass) after n comparisons in the middle of an insertion or deletion, then continued use of the trees; "
    "object lifetime: chains of frozen generations whose intermediate tree is dropped (`Z`: last reference deleted + gc.collect(); observed afterwards only through the strings and digests already taken) "
    "while trees sharing its nodes stay observed, followed by short-lived clones that can be allocated at the freed address; "
    "a tree combined with itself (s |= s, s &= s, s ^= s, s -= s, d.update(d), clear()); ==, !=, <=, >=, <, isdisjoint and the binary set operators against plain set/dict and across clones, plus a malformed stream (bad handles, clone "
    "of a mutable tree, delete_exact of foreign elements, use of closed cursors, mutation of frozen trees); a case is "
    "non-trivial if it performs at least one mutation and its key (parameters + op list) is new"
)
TRUSTED_BASE = [
    "Python list semantics (insert/pop/slicing/item assignment) as modelled by take/drop",
    "object identity of nodes/elements is modelled away: nodes are persistent values, elements are (key, value id) pairs",
]
ASSUMPTIONS = [
    "the copy-on-write mechanism is modelled twice: Model.BTree (persistent values; L1-L5) and Model.BTreeCow (heap of cells with "
    "creator tokens, copying exactly where the code copies); the refinement between them (cow_step_refines, cow_run_refines, "
    "clone_isolated_mech, cow_writes_only_own_cells) is proved, both are tied to the code by correspondence (c19.hist, c19.cow)",
    "the session-level refinement theorem is stated for the repaired _delete (collapse_always = true, the code after f381413); the repaired "
    "behaviour (also 90d7725: collapse when delete_exact raised) is the reference of the correspondence check; "
    "the per-operation simulation lemmas hold for both variants",
    "cursors that are not registered with their tree (no `with` block) and are used across a mutation are undefined "
    "behaviour by the library's documentation and are not exercised",
    "creator freshness: Model.BTreeCow.newTree / cloneTree hand out a token (a counter) that no cell of the heap carries, also after "
    "handles have been forgotten; the harness checks exactly this on the implementation (C19/cow/creator-not-fresh: the token of every new tree "
    "differs, under `is` and `==`, from the token of every tree ever made in the history, dropped ones included, and from the creator of every node seen)",
    "keys are natural numbers (any totally ordered key type behaves the same; the code uses only ==, <, >)",
    "exceptions raised by a key's comparison methods in the middle of an operation are outside the property's text; the oracle-only stream "
    "still demands that every other tree is unchanged, that the tree stays a B-tree with a non-empty internal root, and that an aborted "
    "insertion changes neither contents nor size (an aborted deletion of a key held in an internal node may already have removed the "
    "successor: counted as hostile.aborted-delete-lost-successor, not judged)",
]
LEVEL = {
    "text": "Lean 4 theorems over an executable model of dns/btree.py (search_in_node with its fast path and binary search, "
            "insert_nonfull with pre-emptive split/adopt and the re-search loop, optimize_in_order_insertion, delete with "
            "balance = try_left_steal/try_right_steal/merge, successor replacement through _get_node, root growth and "
            "collapse, cursors at implementation level with seek/next/prev/park/unpark as a zipper over the in-order listing): refinement to a strictly sorted association list and preservation "
            "of the shape invariant (occupancy, |children| = |elts|+1, uniform leaf depth) for every t >= 3.  The model is "
            "tied to the code by a differential correspondence check on whole histories comparing the full tree shape "
            "after every operation, and by _MIN/_MAX regenerated from the working tree.",
    "note": "Layers L1-L5 are proved (lean/Props/C19.lean). The deletion layer exposed two defects of the code as pinned (an internal "
            "root left without elements by a deletion of an absent key, or by a delete_exact that raised; later IndexError), both repaired in "
            "/repo (f381413, 90d7725): full theorems (delete_refines, delete_exact_refines) for the repaired root collapse, which is the "
            "reference of the correspondence check (a tree without the repairs disagrees with the model and fails the oracle); guarded theorem "
            "+ counterexamples about the unrepaired variants of the model are kept. "
            "Clone isolation is proved at mechanism level on a second model (heap of cells with creator tokens) that is itself tied to the "
            "code by comparing node identities and creator tokens after every mutation.",
    "technique": "Lean 4 proof (refinement + inductive invariant over height) + model-vs-implementation correspondence on histories",
    "design_ref": "DESIGN.md §7 C19",
}

P31 = 2147483647
_DIG = {}


def poly_hash(s: str) -> int:
    """h := 7; for each character c: h := (h * 256 + c) mod (2^31 - 1)   (same fold as Driver/C19.lean polyHash)"""
    d = _DIG.get(s)
    if d is None:
        b = s.encode("ascii")
        d = (7 * pow(256, len(b), P31) + int.from_bytes(b, "big")) % P31
        if len(_DIG) > 200000:
            _DIG.clear()
        _DIG[s] = d
    return d


# ------------------------------------------------------------------------------------------------
# adapters over the real objects
# ------------------------------------------------------------------------------------------------
# ---- key types: the model's keys are naturals; the implementation is driven with int, str or dns.name.Name keys
# through an order-preserving encoding whose image of 0 is the *falsy* key of that type (0, '', the empty name)
_KT = "int"


def kenc(k):
    if _KT == "str":
        return "" if k == 0 else "%06d" % k
    if _KT == "name":
        import dns.name
        return dns.name.empty if k == 0 else dns.name.Name([b"%06d" % k])
    if _KT == "bytes":
        return b"" if k == 0 else b"%06d" % k
    if _KT == "tuple":
        return () if k == 0 else (k,)
    if _KT == "float":
        return float(k)
    return k


def kdec(o):
    if _KT == "str":
        return 0 if o == "" else int(o)
    if _KT == "name":
        return 0 if len(o.labels) == 0 else int(o.labels[0])
    if _KT == "bytes":
        return 0 if o == b"" else int(o)
    if _KT == "tuple":
        return 0 if o == () else o[0]
    if _KT == "float":
        return int(o)
    return o


class FalsyKV(btree.KV):
    """an Element whose truth value is False (a subclass is free to define __bool__/__len__): the tree must test
    `is None`, never truthiness"""

    def __bool__(self):
        return False

    def __len__(self):
        return 0


class FalsyMember(btree.Member):
    def __bool__(self):
        return False

    def __len__(self):
        return 0


def venc(v):
    """BTreeDict values: the model's value ids are naturals; ids 1 and 2 are stored as the *falsy* values 0 and None"""
    return 0 if v == 1 else (None if v == 2 else v)


def vdec(pv):
    return 2 if pv is None else (1 if pv == 0 else pv)


def vid_of(e) -> int:
    """value id of a stored element: the (decoded) value of a KV, the tag of a Member (0 = untagged, as `add` makes them)"""
    if isinstance(e, btree.KV):
        return vdec(e._value)
    return getattr(e, "_value", 0)


def elt_str(e) -> str:
    return f"{kdec(e.key())}:{vid_of(e)}"


def shape_of(root) -> str:
    """every node in preorder with all its elements (walks the real nodes; bounded against cycles)"""
    out = []
    stack = [(root, 0)]
    visited = 0
    while stack:
        n, d = stack.pop()
        visited += 1
        if visited > 20000 or d > 64:
            out.append("CYCLE")
            break
        es = ",".join([elt_str(e) for e in n.elts])
        if n.is_leaf:
            out.append("L:" + es)
        else:
            out.append(f"N{len(n.children)}:" + es)
            for c in reversed(n.children):
                stack.append((c, d + 1))
    return ";".join(out)


def tree_line(tr) -> str:
    return f"{shape_of(tr.root)}#{len(tr)}#{'F' if tr._immutable else 'M'}"


def check_invariants(tr):
    """independent walk of the real nodes; returns list of (clause, detail)"""
    bad = []
    t = tr.t
    lo, hi = t - 1, 2 * t - 1
    leaf_depths = set()
    count = 0
    keys = []

    def walk(n, depth, is_root):
        nonlocal count
        if depth > 64:
            bad.append(("depth", "deeper than 64 levels (cycle?)"))
            return
        ne = len(n.elts)
        count += ne
        if ne > hi:
            bad.append(("occupancy-max", f"node with {ne} > {hi} elements at depth {depth}"))
        if not is_root and ne < lo:
            bad.append(("occupancy-min", f"non-root node with {ne} < {lo} elements at depth {depth}"))
        if getattr(n, "t", t) != t:
            bad.append(("node-t", f"node.t={n.t} tree.t={t}"))
        if n.is_leaf:
            if n.children:
                bad.append(("children", f"leaf with {len(n.children)} children"))
            leaf_depths.add(depth)
            keys.extend(kdec(e.key()) for e in n.elts)
        else:
            if len(n.children) != ne + 1:
                bad.append(("children", f"internal node with {ne} elements and {len(n.children)} children at depth {depth}"))
            for i, c in enumerate(n.children):
                walk(c, depth + 1, False)
                if i < ne:
                    keys.append(kdec(n.elts[i].key()))

    walk(tr.root, 0, True)
    if not tr.root.is_leaf and len(tr.root.elts) == 0:
        bad.append(("root-empty", f"the root is an internal node without elements ({len(tr.root.children)} children)"))
    if len(leaf_depths) > 1:
        bad.append(("leaf-depth", f"leaves at depths {sorted(leaf_depths)}"))
    if any(not (a < b) for a, b in zip(keys, keys[1:])):
        bad.append(("sorted", "in-order keys are not strictly increasing"))
    if count != len(tr):
        bad.append(("size", f"len()={len(tr)} but {count} elements stored"))
    return bad, keys


class Hang(BaseException):
    pass


def _alarm(signum, frame):
    raise Hang()


class RefCursor:
    """a cursor is an anchored position in the sorted order: left/right boundary, or just before/after a key"""

    def __init__(self):
        self.state = ("L",)

    def pos(self, keys):
        s = self.state
        if s[0] == "L":
            return 0
        if s[0] == "R":
            return len(keys)
        return bisect.bisect_left(keys, s[1]) if s[2] == "b" else bisect.bisect_right(keys, s[1])

    def seek(self, k, before):
        self.state = ("K", k, "b" if before else "a")

    def next(self, keys):
        p = self.pos(keys)
        if p < len(keys):
            self.state = ("K", keys[p], "a")
            return keys[p]
        self.state = ("R",)
        return None

    def prev(self, keys):
        p = self.pos(keys)
        if p > 0:
            self.state = ("K", keys[p - 1], "b")
            return keys[p - 1]
        self.state = ("L",)
        return None


BRANCH = {}


def _instrument():
    """count which rebalancing branches the histories reach (evidence only; wrappers call the originals)"""
    N = btree._Node
    if getattr(N, "_c19_instrumented", False):
        return
    N._c19_instrumented = True

    def bump(k):
        BRANCH[k] = BRANCH.get(k, 0) + 1

    def wrap_bool(name):
        orig = getattr(N, name)

        def w(self, *a):
            r = orig(self, *a)
            if r:
                bump("branch." + name)
            return r

        setattr(N, name, w)

    def wrap(name):
        orig = getattr(N, name)

        def w(self, *a):
            bump("branch." + name + (".leaf" if self.is_leaf else ".internal") if name in ("split", "merge") else "branch." + name)
            return orig(self, *a)

        setattr(N, name, w)

    for nm in ("try_left_steal", "try_right_steal"):
        if hasattr(N, nm):
            wrap_bool(nm)
    for nm in ("split", "merge", "_get_node", "optimize_in_order_insertion"):
        if hasattr(N, nm):
            wrap(nm)


# ------------------------------------------------------------------------------------------------
# running one history on the implementation
# ------------------------------------------------------------------------------------------------
class Runner:
    def __init__(self, case):
        self.case = case
        self.t = case["t"]
        self.io = bool(case["io"])
        self.is_set = case.get("set", False)
        self.trees = []
        self.refs = []  # dict key -> value id
        self.lines = []  # last observed tree_line per tree
        self.serial = {}  # id(node) -> serial number (first appearance in the identity dumps)
        self.keep = []  # the node objects, kept alive so that ids are not reused
        self.snap = {}  # serial -> (element identities, child identities) at the last dump
        self.creators = {}  # id(creator token) -> tree handle index
        self.cow_tokens = []
        self.emptied_by_failed_exact = {}  # tree -> its root was left empty by a delete_exact that raised ValueError
        self._cow = None
        self.height_before = 0
        self.last_digs = []
        self.tokens_made = []  # the creator token of every tree ever made in this history (the tokens, not the trees)
        self.in_order_of = []  # the in_order argument each tree was made with
        self.curs = []  # (tree index, cursor, refcursor, open)
        self.objs = {}
        self.fails = []  # (signature, what, op index)
        self.mutations = 0
        self.tokens = []

    def fail(self, sig, what, at):
        if len(self.fails) < 20:
            self.fails.append((sig, what, at))

    def new_tree(self, original=None, io=False, via_copy=False, odd_t=False):
        cls = btree.BTreeSet if self.is_set else btree.BTreeDict
        if original is None:
            if self.case.get("defaults"):
                tr = cls(in_order=True) if io else cls()  # documented defaults: t = 127, in_order = False
                if tr.t != 127 or tr.in_order != bool(io):
                    self.fail("C19/constructor/defaults", f"{cls.__name__}() has t={tr.t} in_order={tr.in_order}", 0)
                return tr
            return cls(t=self.t, in_order=io)
        if via_copy and not io:
            return copy.copy(original)
        if odd_t:
            c = cls(t=self.t + 2, original=original, in_order=io)  # `t` is ignored when cloning: the clone keeps its original's t
            if c.t != original.t:
                self.fail("C19/clone/t", f"a clone made with t={self.t + 2} has t={c.t}, its original {original.t}", 0)
            return c
        return cls(original=original, in_order=io)

    def note_creator(self, tr, at):
        """The assumption of the copy-on-write refinement (Model.BTreeCow.newTree / cloneTree take a token that no cell
        carries), checked on the implementation: the token of a new tree is distinct — under `is` and under `==`, whichever
        the code compares with — from the token of every tree made before in this history (also of trees that have been
        dropped since) and from the creator of every node seen so far."""
        c = tr.creator
        for j, old in enumerate(self.tokens_made):
            if old is c or old == c:
                self.fail("C19/cow/creator-not-fresh", f"op {at}: the creator token of the new tree #{len(self.tokens_made)} ({type(c).__name__}) equals the token of tree #{j}"
                          + (" (dropped)" if j < len(self.trees) and self.trees[j] is None else ""), at)
                break
        else:
            for n in self.keep:
                if n.creator is c or n.creator == c:
                    self.fail("C19/cow/creator-not-fresh", f"op {at}: the creator token of the new tree equals the creator of node #{self.serial.get(id(n))}", at)
                    break
        self.tokens_made.append(c)

    def make_elt(self, k, v):
        e = self.objs.get((k, v))
        if e is None:
            falsy = self.case.get("falsy_elts")
            if self.is_set:
                e = (FalsyMember if falsy else btree.Member)(kenc(k))
                e._value = v  # tag only; Member has no value of its own (printed as the value id)
            else:
                e = (FalsyKV if falsy else btree.KV)(kenc(k), venc(v))
            self.objs[(k, v)] = e
        return e

    def digests(self, at):
        """re-read every live tree from its real nodes; isolation: only `mutated` may differ from the last reading"""
        out = []
        for j, tr in enumerate(self.trees):
            out.append(self.lines[j] if tr is None else tree_line(tr))  # a dropped tree: its last reading (a plain string)
        return out

    # ---- mechanism level: node identities and creator tokens ------------------------------------------------
    def id_dump(self, h, at, mutating=True):
        """Walk the real nodes of every tree (handle order, preorder).  Node identities become serial numbers in order
        of first appearance, creator tokens become the index of the tree handle they belong to.  Returns the identity
        line of tree h and the digests of all trees.  Oracle (copy-on-write mechanism): a mutation of tree h creates
        only nodes owned by h, changes no node owned by another tree, copies at most the nodes along its path, and the
        nodes owned by a mutable tree are reachable from that tree only."""
        mine = ""
        digs = []
        new_nodes = 0
        reach = {}
        tok = self.case["ops"][at] if at < len(self.case["ops"]) else "?"
        for j, tr in enumerate(self.trees):
            if tr is None:  # dropped: the digest of its last dump (the model's trees are values and stay)
                digs.append(self.last_digs[j])
                continue
            out = []
            stack = [(tr.root, 0)]
            visited = 0
            while stack:
                n, d = stack.pop()
                visited += 1
                if visited > 20000 or d > 64:
                    out.append("CYCLE")
                    break
                sn = self.serial.get(id(n))
                cr = self.creators.get(id(n.creator), -1)
                content = (tuple(id(e) for e in n.elts), tuple(id(c) for c in n.children))
                if sn is None:
                    sn = len(self.keep)
                    self.serial[id(n)] = sn
                    self.keep.append(n)
                    new_nodes += 1
                    if mutating and cr != h:
                        self.fail("C19/cow/new-node-foreign-creator", f"op {at} {tok}: the mutation of tree {h} created node #{sn} with the creator of tree {cr}", at)
                else:
                    old = self.snap.get(sn)
                    if old is not None and old != content and (cr != h or not mutating):
                        self.fail("C19/cow/shared-node-mutated", f"op {at} {tok}: the mutation of tree {h} changed node #{sn}, which is owned by tree {cr}", at)
                self.snap[sn] = content
                reach.setdefault(sn, (cr, set()))[1].add(j)
                es = ",".join([elt_str(e) for e in n.elts])
                if n.is_leaf:
                    out.append(f"L{sn}@{cr}:" + es)
                else:
                    out.append(f"N{sn}@{cr}/{len(n.children)}:" + es)
                    for c in reversed(n.children):
                        stack.append((c, d + 1))
            line = ";".join(out)
            if j == h:
                mine = line
            digs.append(poly_hash(f"{line}#{len(tr)}#{'F' if tr._immutable else 'M'}"))
        self.last_digs = list(digs)
        for sn, (cr, trees) in reach.items():
            if 0 <= cr < len(self.trees) and self.trees[cr] is not None and not self.trees[cr]._immutable and trees != {cr}:
                self.fail("C19/cow/owned-node-shared", f"op {at} {tok}: node #{sn} is owned by the mutable tree {cr} but reachable from trees {sorted(trees)}", at)
        if mutating and new_nodes > 3 * (self.height_before + 1) + 2:
            self.fail("C19/cow/copies-not-minimal", f"op {at} {tok}: {new_nodes} new nodes for a tree of height {self.height_before}", at)
        return mine, ",".join(str(x) for x in digs)

    def after_mutation(self, h, at, res, changed_ok=True):
        tr = self.trees[h]
        lines = self.digests(at)
        for j, ln in enumerate(lines):
            if j != h and ln != self.lines[j]:
                self.fail("C19/clone/isolation", f"op {at} {self.case['ops'][at]}: mutation of tree {h} changed tree {j}: {self.lines[j]} -> {ln}", at)
            if j == h and not changed_ok and ln != self.lines[j]:
                self.fail("C19/frozen/changed", f"op {at} {self.case['ops'][at]}: rejected mutation changed the frozen tree {h}", at)
        self.lines = lines
        bad, keys = check_invariants(tr)
        for clause, detail in bad:
            self.fail(f"C19/invariant/{clause}", f"op {at} {self.case['ops'][at]} on tree {h}: {detail}; shape {shape_of(tr.root)}", at)
        ref = self.refs[h]
        if keys != sorted(ref):
            self.fail("C19/content/keys", f"op {at} {self.case['ops'][at]} on tree {h}: keys {keys} != reference {sorted(ref)}", at)
        self.mutations += 1
        mine, digs = self.id_dump(h, at, mutating=changed_ok)
        self._cow = f"{res}|{len(tr)}|{mine}|{digs}"
        return f"{res}|{len(tr)}|{shape_of(tr.root)}|" + ",".join(str(poly_hash(x)) for x in lines)

    def items_of(self, tr):
        out = []
        tr.visit_in_order(lambda e: out.append(e))
        return out

    def step(self, at, tok):
        f = tok.split(",")
        op = f[0]
        try:
            a = [int(x) for x in f[1:]]
        except ValueError:
            return "!"
        if any(x < 0 for x in a):
            return "!"
        T = self.trees
        sel = (at * 7 + sum(a)) % 3  # which public API spelling is used (deterministic)
        if op == "Z":
            # the program drops its last reference to tree h; from here on the tree is observed through the strings and
            # digests taken so far, its address and those of its cursors are free for re-use
            if len(a) != 1 or a[0] >= len(T) or T[a[0]] is None:
                return "!"
            h = a[0]
            for cu in self.curs:
                if cu[0] == h and cu[3]:
                    if hasattr(cu[1], "close"):
                        cu[1].close()
                    else:
                        cu[1].__exit__(None, None, None)
                    cu[3] = False
                if cu[0] == h:
                    cu[1] = None
            self.lines[h] = tree_line(T[h])
            self.id_dump(h, at, mutating=False)  # last reading of its nodes and digest (it may have been frozen since the last one)
            T[h] = None
            gc.collect()
            return "ok"
        if op in TREE_OPS and a and a[0] < len(T) and T[a[0]] is None:
            return "!"
        if op in ("I", "D", "X") and len(a) == {"I": 3, "D": 2, "X": 3}[op]:
            h = a[0]
            if h >= len(T):
                return "!"
            tr, ref = T[h], self.refs[h]
            k = a[1]
            frozen = tr._immutable
            empty_root = (not tr.root.is_leaf) and len(tr.root.elts) == 0
            hb, nn = 0, tr.root
            while not nn.is_leaf and nn.children and hb < 64:
                nn = nn.children[0]
                hb += 1
            self.height_before = hb
            try:
                if op == "I":
                    v = a[2]
                    if self.is_set and v == 0:
                        e = (FalsyMember if self.case.get("falsy_elts") else btree.Member)(kenc(k))  # an untagged member, as `add` makes them
                    else:
                        e = self.make_elt(k, v)
                    if self.case.get("falsy_elts") and sel == 0:
                        sel = 2  # d[k]=v / add() would make plain elements
                    exp_old = ref.get(k)
                    opt_before = BRANCH.get("branch.optimize_in_order_insertion", 0)
                    if sel == 0 and not frozen and not (self.is_set and v != 0):
                        old = tr.get_element(kenc(k))
                        if self.is_set:
                            tr.add(kenc(k))
                        else:
                            tr[kenc(k)] = venc(v)
                            self.objs[(k, v)] = tr.get_element(kenc(k))  # the KV object made by __setitem__
                    elif sel == 1 and not tr.in_order:
                        old = tr.insert_element(e)  # the default of `in_order` (False)
                    elif at % 2:
                        old = tr.insert_element(e, in_order=tr.in_order)
                    else:
                        old = tr.insert_element(e, tr.in_order)
                    ref[k] = v
                    opt_calls = BRANCH.get("branch.optimize_in_order_insertion", 0) - opt_before
                    if opt_calls and not self.in_order_of[h]:
                        self.fail("C19/in_order/optimised-although-off", f"op {at} {tok}: optimize_in_order_insertion ran {opt_calls}x on a tree made with in_order=False", at)
                    if not opt_calls and self.in_order_of[h] and hb >= 1 and exp_old is None:
                        self.fail("C19/in_order/not-optimised", f"op {at} {tok}: optimize_in_order_insertion did not run on a tree of height {hb} made with in_order=True", at)
                    got = None if old is None else (kdec(old.key()), vid_of(old))
                    exp = None if exp_old is None else (k, exp_old)
                    if got != exp:
                        self.fail("C19/insert/returned-element", f"op {at} {tok}: returned {got}, reference {exp}", at)
                    res = "-" if old is None else elt_str(old)
                elif op == "D":
                    exp_old = ref.get(k)
                    if sel == 0 and not frozen:
                        old = tr.get_element(kenc(k))
                        if self.is_set:
                            tr.discard(kenc(k))
                        else:
                            try:
                                del tr[kenc(k)]
                                if old is None:
                                    self.fail("C19/delete/keyerror", f"op {at} {tok}: no KeyError for a missing key", at)
                            except KeyError:
                                if old is not None:
                                    self.fail("C19/delete/keyerror", f"op {at} {tok}: KeyError for a present key", at)
                    elif sel == 2 and not frozen and ref and k == min(ref):
                        # MutableSet.pop() / MutableMapping.popitem(): `next(iter(self))`, then a deletion while that
                        # iterator is still suspended
                        old = tr.get_element(kenc(k))
                        if self.is_set:
                            gotk = tr.pop()
                        else:
                            gotk, gotv = tr.popitem()
                            if old is not None and gotv is not old.value():
                                self.fail("C19/api/popitem-value", f"op {at} {tok}: popitem returned the value {gotv!r}", at)
                        if kdec(gotk) != k:
                            self.fail("C19/api/pop-least", f"op {at} {tok}: pop()/popitem() returned key {kdec(gotk)}, the least key is {k}", at)
                        if tr.cursors:
                            live = sum(1 for x in self.curs if x[0] == h and x[3])
                            if len(tr.cursors) > live:
                                self.fail("C19/iteration/cursor-leaked", f"op {at} {tok}: {len(tr.cursors)} registered cursors, {live} open", at)
                    else:
                        old = tr.delete_key(kenc(k))
                    ref.pop(k, None)
                    got = None if old is None else (kdec(old.key()), vid_of(old))
                    exp = None if exp_old is None else (k, exp_old)
                    if got != exp:
                        self.fail("C19/delete/returned-element", f"op {at} {tok}: returned {got}, reference {exp}", at)
                    res = "-" if old is None else elt_str(old)
                else:
                    v = a[2]
                    cur = tr.get_element(kenc(k))
                    if self.is_set and v == 0:
                        # untagged members (made by `add`) carry no identity tag: (k, 0) names the stored one
                        e = cur if (cur is not None and not hasattr(cur, "_value")) else btree.Member(kenc(k))
                        self.objs[(k, 0)] = e
                    else:
                        e = self.make_elt(k, v)
                    old = tr.delete_exact(e)
                    if cur is not e or old is not e:
                        self.fail("C19/delete_exact/accepted-foreign", f"op {at} {tok}: delete_exact of an element that is not stored returned {old}", at)
                    ref.pop(k, None)
                    res = "-" if old is None else elt_str(old)
            except btree.Immutable:
                if not frozen:
                    self.fail("C19/frozen/spurious", f"op {at} {tok}: Immutable raised on a mutable tree", at)
                return self.after_mutation(h, at, "IMM", changed_ok=False)
            except ValueError:
                if op != "X":
                    self.fail(f"C19/{op}/exception:ValueError", f"op {at} {tok}: ValueError", at)
                else:
                    cur = tr.get_element(kenc(k))
                    if cur is not None and cur is self.objs.get((k, a[2])):
                        self.fail("C19/delete_exact/rejected-own", f"op {at} {tok}: ValueError although the stored element was passed", at)
                if (not tr.root.is_leaf) and len(tr.root.elts) == 0:
                    # the failed delete_exact merged the root's children on its way down and left the root empty
                    self.emptied_by_failed_exact[h] = True
                return self.after_mutation(h, at, "VE")
            except IndexError as e:
                # no operation of a sorted dictionary raises IndexError
                # trigger class: the root was an internal node without elements before the call (left behind by an
                # earlier deletion of an absent key, see KNOWN_FINDINGS); anything else is a different failure
                if empty_root and op in ("D", "X") and self.emptied_by_failed_exact.get(h):
                    sig = "C19/delete/exception:IndexError/empty-internal-root-after-failed-delete_exact"
                elif empty_root and op in ("D", "X"):
                    sig = "C19/delete/exception:IndexError/empty-internal-root"
                else:
                    sig = f"C19/{op}/exception:IndexError"
                self.fail(sig,
                          f"op {at} {tok}: IndexError: {e} (tree {h} before the operation: {self.lines[h][:200]})", at)
                return self.after_mutation(h, at, "EXC:IndexError")
            if frozen:
                self.fail("C19/frozen/accepted-mutation", f"op {at} {tok}: mutation of a frozen tree did not raise Immutable", at)
            if tr.root.is_leaf or len(tr.root.elts) > 0:
                self.emptied_by_failed_exact[h] = False
            return self.after_mutation(h, at, res)
        if op in ("O", "R") and len(a) == 2:
            # the mapping / set API that mutates: d.pop(k); del d[k] / s.remove(k)
            h, k = a
            if h >= len(T):
                return "!"
            tr, ref = T[h], self.refs[h]
            frozen = tr._immutable
            hb, nn = 0, tr.root
            while not nn.is_leaf and nn.children and hb < 64:
                nn = nn.children[0]
                hb += 1
            self.height_before = hb
            res = None
            try:
                if op == "O":
                    if self.is_set:
                        e = tr.get_element(kenc(k))  # BTreeSet.pop() takes no key: pop of a member through discard
                        if e is None:
                            raise KeyError(k)
                        tr.discard(kenc(k))
                        val = vid_of(e)
                    else:
                        val = vdec(tr.pop(kenc(k)))
                    if k not in ref or ref[k] != val:
                        self.fail("C19/api/pop-value", f"op {at} {tok}: pop returned {val}, reference {ref.get(k)}", at)
                    ref.pop(k, None)
                    res = str(val)
                else:
                    if self.is_set:
                        tr.remove(kenc(k))
                    else:
                        del tr[kenc(k)]
                    if k not in ref:
                        self.fail("C19/api/delete-absent-accepted", f"op {at} {tok}: no KeyError for an absent key", at)
                    ref.pop(k, None)
                    res = "ok"
            except KeyError:
                if k in ref:
                    self.fail("C19/api/keyerror-present", f"op {at} {tok}: KeyError for a present key", at)
                res = "KE"
            except btree.Immutable:
                if not frozen:
                    self.fail("C19/frozen/spurious", f"op {at} {tok}: Immutable raised on a mutable tree", at)
                return self.after_mutation(h, at, "IMM", changed_ok=False)
            if frozen and res != "KE":
                self.fail("C19/frozen/accepted-mutation", f"op {at} {tok}: mutation of a frozen tree did not raise Immutable", at)
            return self.after_mutation(h, at, res, changed_ok=not frozen)
        if op == "g" and len(a) == 2:
            h, k = a
            if h >= len(T):
                return "!"
            got = kenc(k) in T[h]
            if got != (k in self.refs[h]):
                self.fail("C19/api/contains", f"op {at} {tok}: `in` gives {got}, reference {k in self.refs[h]}", at)
            return "1" if got else "0"
        if op in ("K", "V") and len(a) == 1:
            h = a[0]
            if h >= len(T):
                return "!"
            tr, ref = T[h], self.refs[h]
            if op == "K":
                got = [kdec(x) for x in tr] if self.is_set else [kdec(x) for x in tr.keys()]
                exp = sorted(ref)
            else:
                got = [vid_of(e) for e in self.items_of(tr)] if self.is_set else [vdec(x) for x in tr.values()]
                exp = [ref[k] for k in sorted(ref)]
            if got != exp:
                self.fail("C19/api/" + ("keys" if op == "K" else "values"), f"op {at} {tok}: {got} != reference {exp}", at)
            return "[" + ",".join(str(x) for x in got) + "]"
        if op == "G" and len(a) == 2:
            h, k = a
            if h >= len(T):
                return "!"
            tr, ref = T[h], self.refs[h]
            e = tr.get_element(kenc(k))
            if not self.is_set:
                if sel == 0:
                    try:
                        v = tr[kenc(k)]
                        if e is None or e.value() != v:
                            self.fail("C19/lookup/getitem", f"op {at} {tok}: __getitem__ {v} vs get_element {e}", at)
                    except KeyError:
                        if e is not None:
                            self.fail("C19/lookup/getitem", f"op {at} {tok}: KeyError for a present key", at)
                elif sel == 1:
                    if (kenc(k) in tr) != (e is not None):
                        self.fail("C19/lookup/contains", f"op {at} {tok}: `in` disagrees with get_element", at)
            else:
                if (kenc(k) in tr) != (e is not None):
                    self.fail("C19/lookup/contains", f"op {at} {tok}: `in` disagrees with get_element", at)
            got = None if e is None else (kdec(e.key()), vid_of(e))
            exp = (k, ref[k]) if k in ref else None
            if got != exp:
                self.fail("C19/lookup/value", f"op {at} {tok}: got {got}, reference {exp}", at)
            return "-" if e is None else elt_str(e)
        if op == "L" and len(a) == 1:
            h = a[0]
            if h >= len(T):
                return "!"
            if len(T[h]) != len(self.refs[h]):
                self.fail("C19/len/value", f"op {at} {tok}: len {len(T[h])}, reference {len(self.refs[h])}", at)
            return str(len(T[h]))
        if op == "T" and len(a) == 1:
            h = a[0]
            if h >= len(T):
                return "!"
            tr, ref = T[h], self.refs[h]
            items = self.items_of(tr)
            got = [(kdec(e.key()), vid_of(e)) for e in items]
            exp = [(k, ref[k]) for k in sorted(ref)]
            if got != exp:
                self.fail("C19/iteration/visit_in_order", f"op {at} {tok}: {got} != reference {exp}", at)
            it = [kdec(x) for x in tr]  # __iter__ (a registered cursor)
            if it != [k for k, _ in exp]:
                self.fail("C19/iteration/iter", f"op {at} {tok}: iter {it} != reference keys", at)
            if not self.is_set and sel == 0:
                if [(kdec(a_), vdec(b_)) for a_, b_ in tr.items()] != exp:
                    self.fail("C19/iteration/items", f"op {at} {tok}: items() differs from the reference", at)
            return "[" + ",".join(elt_str(e) for e in items) + "]"
        if op == "S" and len(a) == 1:
            h = a[0]
            if h >= len(T):
                return "!"
            return shape_of(T[h].root)
        if op == "M" and len(a) == 1:
            h = a[0]
            if h >= len(T):
                return "!"
            tr, ref = T[h], self.refs[h]
            if len(tr) == 0:
                return "-"
            mn, mx = tr.root.minimum(), tr.root.maximum()
            if ref and (kdec(mn.key()) != min(ref) or kdec(mx.key()) != max(ref)):
                self.fail("C19/minmax/value", f"op {at} {tok}: {kdec(mn.key())}/{kdec(mx.key())} vs reference {min(ref)}/{max(ref)}", at)
            return elt_str(mn) + "/" + elt_str(mx)
        if op == "C" and len(a) == 2:
            h, io = a
            if h >= len(T):
                return "!"
            try:
                c = self.new_tree(T[h], bool(io), via_copy=(sel == 1), odd_t=(sel == 2 or (sel == 1 and bool(io))))
            except ValueError:
                if T[h]._immutable:
                    self.fail("C19/clone/rejected-frozen", f"op {at} {tok}: clone of a frozen tree raised ValueError", at)
                return "VE"
            if not T[h]._immutable:
                self.fail("C19/clone/accepted-mutable", f"op {at} {tok}: clone of a mutable tree was accepted", at)
            self.note_creator(c, at)
            T.append(c)
            self.in_order_of.append(bool(io))
            self.creators[id(c.creator)] = len(T) - 1
            self.refs.append(self.refs[h].copy())
            self.lines.append(tree_line(c))
            return str(len(T) - 1)
        if op == "F" and len(a) == 1:
            h = a[0]
            if h >= len(T):
                return "!"
            T[h].make_immutable()
            self.lines[h] = tree_line(T[h])
            return "ok"
        if op == "c" and len(a) == 1:
            h = a[0]
            if h >= len(T):
                return "!"
            if self.case.get("itercur"):
                cu = iter(T[h])  # the generator of BTree.__iter__: its cursor registers at the first next()
            else:
                cu = T[h].cursor()
                cu.__enter__()
                if sel == 1:
                    T[h].register_cursor(cu)  # registering twice is registering once
            self.curs.append([h, cu, RefCursor(), True])
            return str(len(self.curs) - 1)
        if op in ("s", "n", "p", "f", "l", "P", "x"):
            if not a or a[0] >= len(self.curs) or not self.curs[a[0]][3]:
                return "!"
            if len(a) != (3 if op == "s" else 1):
                return "!"
            h, cu, rc, _ = self.curs[a[0]]
            ref = self.refs[h]
            if self.case.get("itercur"):
                if op == "x":
                    cu.close()
                    self.curs[a[0]][3] = False
                    if any(True for x in T[h].cursors) and not any(x[0] == h and x[3] for x in self.curs):
                        self.fail("C19/iteration/cursor-leaked", f"op {at} {tok}: a closed iterator left its cursor registered", at)
                    return "ok"
                if op != "n":
                    return "!"
                kk = next(cu, self)
                e = None if kk is self else T[h].get_element(kk)
                ek = rc.next(sorted(ref))
                got = None if kk is self else kdec(kk)
                if got != ek:
                    self.fail("C19/iteration/step", f"op {at} {tok}: the iterator yielded {got}, reference order gives {ek}", at)
                return "-" if e is None else elt_str(e)
            if op == "s":
                if a[2] != 0 and sel == 1:
                    cu.seek(kenc(a[1]))  # the default of `before` (True)
                elif sel == 2:
                    cu.seek(kenc(a[1]), before=(a[2] != 0))
                else:
                    cu.seek(kenc(a[1]), a[2] != 0)
                rc.seek(a[1], a[2] != 0)
                return "ok"
            if op == "f":
                cu.seek_first()
                rc.state = ("L",)
                return "ok"
            if op == "l":
                cu.seek_last()
                rc.state = ("R",)
                return "ok"
            if op == "P":
                cu.park()
                return "ok"
            if op == "x":
                cu.__exit__(None, None, None)
                self.curs[a[0]][3] = False
                if sel != 0:
                    T[h].deregister_cursor(cu)  # deregistering a cursor that is not registered is a no-op
                if cu in T[h].cursors:
                    self.fail("C19/cursor/still-registered", f"op {at} {tok}: the cursor is still registered after leaving its `with` block", at)
                return "ok"
            keys = sorted(ref)
            e = cu.next() if op == "n" else cu.prev()
            ek = rc.next(keys) if op == "n" else rc.prev(keys)
            got = None if e is None else (kdec(e.key()), vid_of(e))
            exp = None if ek is None else (ek, ref[ek])
            if got != exp:
                self.fail(f"C19/cursor/{'next' if op == 'n' else 'prev'}", f"op {at} {tok}: cursor returned {got}, reference order gives {exp}", at)
            return "-" if e is None else elt_str(e)
        return "!"

    def run(self):
        global _KT
        _KT = self.case.get("ktype", "int")
        _instrument()
        if self.t < 3:
            try:
                self.new_tree(None, self.io)
                self.fail("C19/constructor/t-accepted", f"t={self.t} accepted", 0)
                return "ok"
            except ValueError:
                return "err ValueError"
            except Exception as e:  # the constructor's own guard is ValueError; anything else is a foreign exception
                self.fail(f"C19/constructor/exception:{type(e).__name__}", f"t={self.t}: {type(e).__name__} instead of ValueError", 0)
                return "err " + type(e).__name__
        T0 = self.new_tree(None, self.io)
        self.note_creator(T0, 0)
        self.trees.append(T0)
        self.in_order_of.append(self.io)
        self.creators[id(T0.creator)] = 0
        self.refs.append({})
        self.lines.append(tree_line(T0))
        ops = self.case["ops"]
        old = signal.signal(signal.SIGALRM, _alarm)
        signal.alarm(20)
        try:
            for at, tok in enumerate(ops):
                self._cow = None
                try:
                    r = self.step(at, tok)
                except Hang:
                    self.fail("C19/hang", f"op {at} {tok}: no termination within the time limit", at)
                    self.tokens.append("HANG")
                    break
                except (KeyboardInterrupt, SystemExit, Stalled):
                    raise
                except BaseException as e:  # foreign exception out of the implementation
                    self.fail(f"C19/{tok[:1]}/exception:{type(e).__name__}", f"op {at} {tok}: {type(e).__name__}: {e}", at)
                    r = "EXC:" + type(e).__name__
                    # re-read everything so that later isolation checks compare against the present state
                    try:
                        self.lines = [self.lines[j] if t is None else tree_line(t) for j, t in enumerate(self.trees)]
                    except Stalled:
                        raise
                    except BaseException:
                        pass
                self.tokens.append(r)
                if tok[:1] in COW_OPS:
                    self.cow_tokens.append(self._cow if self._cow is not None else r)
        finally:
            signal.alarm(0)
            signal.signal(signal.SIGALRM, old)
        return "ok " + " ".join(self.tokens) if self.tokens else "ok"




def collapse_always() -> int:
    """The repaired `_delete` (dnspython f381413: an emptied root is collapsed whenever `delete` returns) is the
    reference; the model is always run with this variant, so a tree without the repair disagrees with it."""
    return 1


COW_OPS = "IDXGCFORZ"
TREE_OPS = ("I", "D", "X", "O", "R", "G", "g", "L", "T", "K", "V", "S", "M", "C", "F", "c")


def collapse_on_error() -> int:
    """The repaired `_delete` (dnspython 90d7725: the root is collapsed also when `delete_exact` raised) is the
    reference."""
    return 1


def cow_line(case):
    """the same history for the mechanism-level model (heap of nodes with creator tokens): cursor and listing ops,
    which never touch a node, are left out"""
    return (f"c19.cow {case['t']} {case['io']} {collapse_always()} {collapse_on_error()} {1 if case.get('set') else 0} "
            + " ".join(t for t in case["ops"] if t[:1] in COW_OPS))


def op_line(case):
    return (f"c19.hist {case['t']} {case['io']} {collapse_always()} {collapse_on_error()} {1 if case.get('set') else 0} "
            + " ".join(case["ops"]))


def run_impl(case):
    r = Runner(case)
    out = r.run()
    return r, out


def minimise(case, sig):
    """delta-debug the op list while the same failure signature persists (implementation only)"""
    ops = list(case["ops"])

    def fails(o):
        c = dict(case, ops=o)
        r, _ = run_impl(c)
        return any(s == sig for s, _, _ in r.fails)

    r, _ = run_impl(case)
    ats = [at for s, _, at in r.fails if s == sig]
    if ats:
        ops = ops[: min(ats) + 1]
    n = 2
    budget = 400
    while len(ops) >= 2 and budget > 0:
        chunk = max(1, len(ops) // n)
        reduced = False
        for i in range(0, len(ops), chunk):
            cand = ops[:i] + ops[i + chunk:]
            budget -= 1
            if cand and fails(cand):
                ops = cand
                n = max(n - 1, 2)
                reduced = True
                break
            if budget <= 0:
                break
        if not reduced:
            if chunk == 1:
                break
            n = min(len(ops), n * 2)
    return dict(case, ops=ops)


_MINIMISED = set()


def eval_case(ctx: Ctx, case: dict, minimize=True):
    if case.get("kind") == "search":
        ks = case["keys"]
        n = btree._Node(3, btree._Creator(), True)
        n.elts = [btree.KV(k, 0) for k in ks]
        i, eq = n.search_in_node(case["key"])
        ctx.corr(f"c19.search {case['key']} " + (",".join(map(str, ks)) if ks else "-"), f"ok {i} {1 if eq else 0}", case)
        exp_i = bisect.bisect_left(ks, case["key"])
        exp_eq = exp_i < len(ks) and ks[exp_i] == case["key"]
        if (i, bool(eq)) != (exp_i, exp_eq):
            ctx.fail("C19/search_in_node/value", f"search_in_node({case['key']}) over {ks} -> {(i, eq)}, expected {(exp_i, exp_eq)}",
                     {"kind": "search", "case": case})
        ctx.count("search_in_node")
        return
    if case.get("kind") == "hostile":
        fails, lost = run_hostile(case)
        ctx.count("hostile.ops", len(case["ops"]))
        ctx.count("hostile.aborted-delete-lost-successor", lost)
        seen = set()
        for sig, what, at in fails:
            if sig not in seen:
                seen.add(sig)
                ctx.fail(sig, what, {"kind": "hostile", "case": dict(case, ops=case["ops"][: at + 1])})
        return None
    r, out = run_impl(case)
    ctx.corr(op_line(case), out, case)
    if case["t"] >= 3:
        ctx.corr(cow_line(case), "ok " + " ".join(r.cow_tokens) if r.cow_tokens else "ok", case)
    for tok in case["ops"]:
        ctx.count("op." + tok[:1])
    ctx.count("hist.t%d.io%d.%s" % (case["t"], case["io"], "set" if case.get("set") else "dict"))
    ctx.count("hist.mutations", r.mutations)
    seen = set()
    done = _MINIMISED
    for sig, what, at in r.fails:
        if sig in seen:
            continue
        seen.add(sig)
        small = case
        if minimize and sig not in done and len(done) < 8:
            done.add(sig)
            try:
                small = minimise(case, sig)
            except (KeyboardInterrupt, SystemExit, Stalled):
                raise
            except BaseException:
                small = case
            r2, _ = run_impl(small)
            w2 = [w for s, w, _ in r2.fails if s == sig]
            what = w2[0] if w2 else what
        ctx.fail(sig, what, {"kind": "hist", "case": small, "original_length": len(case["ops"])})
    return r


# ------------------------------------------------------------------------------------------------
# generators
# ------------------------------------------------------------------------------------------------
def key_order(rng, keys, mode):
    keys = sorted(keys)
    if mode == "asc":
        return keys
    if mode == "desc":
        return keys[::-1]
    if mode == "alt":  # outside-in
        out = []
        i, j = 0, len(keys) - 1
        while i <= j:
            out.append(keys[i])
            if i != j:
                out.append(keys[j])
            i += 1
            j -= 1
        return out
    if mode == "mid":  # middle-out
        return key_order(rng, keys, "alt")[::-1]
    if mode == "nearasc":  # ascending with local disorder
        out = list(keys)
        for i in range(len(out) - 1):
            if rng.chance(1, 4):
                out[i], out[i + 1] = out[i + 1], out[i]
        return out
    return rng.shuffle(keys)


ORDERS = ["asc", "desc", "alt", "mid", "nearasc", "rand", "rand"]


class Gen:
    def __init__(self, rng, size_class=None):
        self.rng = rng
        self.ops = []
        self.vid = 0
        self.ntrees = 1
        self.frozen = [False]
        self.present = [set()]  # approximate content per tree (for aiming ops)
        self.ncurs = 0
        self.open_curs = []  # (cursor id, tree)
        self.pairs = [dict()]  # tree -> key -> vid

    def v(self):
        self.vid += 1
        return self.vid

    def ins(self, h, k):
        v = 0 if (self.is_set and self.rng.chance(1, 2)) else self.v()
        self.ops.append(f"I,{h},{k},{v}")
        if not self.frozen[h]:
            self.present[h].add(k)
            self.pairs[h][k] = v

    def dele(self, h, k):
        self.ops.append(f"D,{h},{k}")
        if not self.frozen[h]:
            self.present[h].discard(k)
            self.pairs[h].pop(k, None)

    def mutable(self):
        return [h for h in range(self.ntrees) if not self.frozen[h]]

    def cursor_ops(self, n, universe):
        rng = self.rng
        for _ in range(n):
            if not self.open_curs or (len(self.open_curs) < 3 and rng.chance(1, 6)):
                h = rng.below(self.ntrees)
                self.ops.append(f"c,{h}")
                self.open_curs.append((self.ncurs, h))
                self.ncurs += 1
                continue
            c, h = rng.choice(self.open_curs)
            m = rng.below(20)
            if m < 4:
                pres = sorted(self.present[h])
                if pres and rng.chance(2, 3):
                    k = rng.choice(pres) + rng.choice([0, 0, 0, 1, -1 if min(pres) > 0 else 0])
                else:
                    k = rng.below(universe + 2)
                self.ops.append(f"s,{c},{max(k, 0)},{rng.below(2)}")
            elif m < 11:
                for _ in range(rng.choice([1, 1, 2, 3, 6])):
                    self.ops.append(f"n,{c}")
            elif m < 17:
                for _ in range(rng.choice([1, 1, 2, 3, 6])):
                    self.ops.append(f"p,{c}")
            elif m == 17:
                self.ops.append(rng.choice([f"f,{c}", f"l,{c}"]))
            elif m == 18:
                self.ops.append(f"P,{c}")
            else:
                if rng.chance(1, 3):
                    self.ops.append(f"x,{c}")
                    self.open_curs = [x for x in self.open_curs if x[0] != c]
                else:
                    self.ops.append(f"n,{c}")

    def queries(self, h, universe, n=1):
        rng = self.rng
        for _ in range(n):
            m = rng.below(14)
            if m < 5:
                self.ops.append(f"G,{h},{rng.below(universe + 1)}")
            elif m < 7:
                self.ops.append(f"L,{h}")
            elif m < 8:
                self.ops.append(f"M,{h}")
            elif m < 10:
                self.ops.append(f"T,{h}")
            elif m < 12:
                self.ops.append(f"g,{h},{rng.below(universe + 1)}")
            elif m < 13:
                self.ops.append(f"K,{h}")
            else:
                self.ops.append(f"K,{h}" if self.is_set else f"V,{h}")

    def api_delete(self, h, k):
        """del d[k] / s.remove(k) / d.pop(k)"""
        op = "R" if (self.is_set or self.rng.chance(1, 2)) else "O"
        self.ops.append(f"{op},{h},{k}")
        if not self.frozen[h]:
            self.present[h].discard(k)
            self.pairs[h].pop(k, None)

    def freeze_and_clone(self):
        rng = self.rng
        cands = list(range(self.ntrees))
        h = rng.choice(cands)
        if not self.frozen[h]:
            self.ops.append(f"F,{h}")
            self.frozen[h] = True
        for _ in range(rng.choice([1, 1, 2, 3])):
            if self.ntrees >= 6:
                break
            self.ops.append(f"C,{h},{rng.below(2)}")
            self.frozen.append(False)
            self.present.append(set(self.present[h]))
            self.pairs.append(dict(self.pairs[h]))
            self.ntrees += 1


def gen_history(rng, size_class=None):
    g = Gen(rng)
    t = rng.choice([3, 3, 3, 4, 4, 5])
    io = rng.below(2)
    g.is_set = rng.chance(1, 6)
    sc = size_class if size_class is not None else rng.choice(["tiny", "small", "small", "medium", "medium", "large"])
    universe = {"tiny": rng.range(4, 9), "small": rng.range(10, 24), "medium": rng.range(30, 70), "large": rng.range(90, 260)}[sc]
    budget = {"tiny": rng.range(10, 60), "small": rng.range(30, 120), "medium": rng.range(80, 200), "large": rng.range(150, 330)}[sc]
    use_cursors = rng.chance(3, 5)
    use_clones = rng.chance(3, 5)
    allkeys = list(range(0, universe + 1))  # 0 is the falsy key of every key type
    # phase 1: build
    fill = rng.choice([3, 5, 8, 10]) * universe // 10
    build = key_order(rng, rng.shuffle(allkeys)[:max(1, fill)], rng.choice(ORDERS))
    for k in build:
        g.ins(0, k)
        if rng.chance(1, 12):
            g.queries(0, universe)
        if use_cursors and rng.chance(1, 10):
            g.cursor_ops(rng.range(1, 3), universe)
        if len(g.ops) > budget * 2 // 3:
            break
    # phases 2..: churn / drain / refill, with freeze and clone points
    rounds = 0
    while len(g.ops) < budget and rounds < 200:
        rounds += 1
        phase = rng.below(10)
        muts = g.mutable()
        if not muts and g.ntrees >= 6:
            for x in range(g.ntrees):
                g.queries(x, universe, 2)
            if use_cursors:
                g.cursor_ops(6, universe)
            g.ins(rng.below(g.ntrees), rng.range(0, universe))  # rejected: every tree is frozen
            continue
        if use_clones and (not muts or rng.chance(1, 3)):
            g.freeze_and_clone()
            continue
        if not muts:
            g.freeze_and_clone()
            continue
        h = rng.choice(muts)
        n = rng.range(3, 25)
        if phase < 4:  # churn
            for _ in range(n):
                k = 0 if rng.chance(1, 12) else rng.range(0, universe)
                m = rng.below(10)
                if m < 4:
                    g.ins(h, k)
                elif m < 8:
                    pres = sorted(g.present[h])
                    kk = rng.choice(pres) if pres and rng.chance(4, 5) else k
                    if rng.chance(1, 4):
                        g.api_delete(h, kk)
                    else:
                        g.dele(h, kk)
                elif m < 9:
                    g.queries(h, universe)
                elif use_cursors:
                    g.cursor_ops(rng.range(1, 4), universe)
                if use_clones and rng.chance(1, 8):
                    # touch another tree along the same path
                    others = [x for x in g.mutable() if x != h]
                    if others:
                        o = rng.choice(others)
                        if rng.chance(1, 2):
                            g.ins(o, k)
                        else:
                            g.dele(o, k)
                if rng.chance(1, 25) and g.frozen.count(True):
                    fz = rng.choice([x for x in range(g.ntrees) if g.frozen[x]])
                    if rng.chance(1, 2):
                        g.ins(fz, k)
                    else:
                        g.dele(fz, k)
        elif phase < 7:  # drain
            pres = key_order(rng, g.present[h], rng.choice(ORDERS))
            for k in pres[: rng.range(1, max(1, len(pres)))]:
                g.dele(h, k)
                if use_cursors and rng.chance(1, 6):
                    g.cursor_ops(rng.range(1, 3), universe)
                if rng.chance(1, 15):
                    g.queries(h, universe)
        elif phase < 9:  # refill in some order
            missing = [k for k in allkeys if k not in g.present[h]]
            for k in key_order(rng, missing, rng.choice(ORDERS))[: rng.range(1, max(1, len(missing)))]:
                g.ins(h, k)
                if use_cursors and rng.chance(1, 8):
                    g.cursor_ops(rng.range(1, 3), universe)
        else:  # exact deletes and replacements
            for _ in range(n):
                pres = sorted(g.present[h])
                if not pres:
                    break
                k = rng.choice(pres)
                if g.pairs[h].get(k, 0) == 0 or rng.chance(1, 2):
                    g.ins(h, k)  # replacement
                else:
                    v = g.pairs[h].get(k, 0)
                    if rng.chance(1, 6):
                        v = max(0, v - 1)  # an element that is not (any longer) stored: ValueError expected
                    g.ops.append(f"X,{h},{k},{v}")
                    if v == g.pairs[h].get(k):
                        g.present[h].discard(k)
                        g.pairs[h].pop(k, None)
        if rng.chance(1, 3):
            for x in range(g.ntrees):
                if rng.chance(1, 2):
                    g.queries(x, universe)
    return {"kind": "hist", "t": t, "io": io, "set": g.is_set, "ktype": rng.choice(KTYPES), "falsy_elts": rng.chance(1, 6), "ops": g.ops}


def gen_absent_sweeps(rng):
    """sparse (all-minimal) trees built in key order without the in-order optimisation, then sweeps of deletions of
    absent keys (each may merge two minimal siblings although nothing is removed), mixed with real deletions,
    re-insertions, queries and cursor steps"""
    g = Gen(rng)
    g.is_set = rng.chance(1, 2)
    t = rng.choice([3, 3, 4, 5])
    n = rng.choice([6, 8, 12, 19, 24, 30, 40, 56, 60, 80]) * (1 if t == 3 else 2)
    pure = rng.chance(1, 3)
    if pure:  # nothing but whole sweeps over a tree of a few hundred elements at most
        t = 3
        n = rng.range(50, 64)
    present = [2 * i for i in range(n)]
    order = rng.choice(["asc", "asc", "desc", "nearasc"])
    failing_exact = rng.chance(1, 2)  # delete_exact of elements that are not stored: each raises ValueError
    if pure:
        for k in key_order(rng, present, rng.choice(["asc", "desc"])):
            g.ins(0, k)
        for rep in range(8):
            for k in range(1, 2 * n, 2):
                if failing_exact:
                    g.ops.append(f"X,0,{k},999999")
                else:
                    g.dele(0, k)
            if failing_exact and rng.chance(1, 3):
                g.ops.append(f"X,0,{rng.choice(present)},999998")  # present key, foreign element
        if failing_exact:
            g.dele(0, rng.choice(present))
        return {"kind": "hist", "t": t, "io": 0, "set": g.is_set, "ops": g.ops}
    for k in key_order(rng, present, order):
        g.ins(0, k)
    if rng.chance(1, 3):
        g.ops.append("c,0")
        g.open_curs.append((0, 0))
        g.ncurs = 1
    clone = rng.chance(1, 4)
    if clone:
        g.ops += ["F,0", "C,0,0"]
        g.frozen[0] = True
        g.frozen.append(False)
        g.present.append(set(g.present[0]))
        g.pairs.append(dict(g.pairs[0]))
        g.ntrees = 2
    h = 1 if clone else 0
    absent = [2 * i + 1 for i in range(n)]
    for rep in range(rng.range(2, 7)):
        sweep = key_order(rng, absent, rng.choice(["asc", "asc", "desc", "rand"]))
        if rng.chance(1, 2):
            sweep = sweep[: rng.range(1, len(sweep))]
        for k in sweep:
            if failing_exact and rng.chance(3, 4):
                g.ops.append(f"X,{h},{k},999999")
            else:
                g.dele(h, k)
            m = rng.below(40)
            if m == 0:
                pres = sorted(g.present[h])
                if pres:
                    g.dele(h, rng.choice(pres))
            elif m == 1:
                g.ins(h, rng.choice(present))
            elif m == 2:
                g.queries(h, 2 * n)
            elif m == 3 and g.open_curs:
                g.cursor_ops(2, 2 * n)
        if len(g.ops) > 700:
            break
    return {"kind": "hist", "t": t, "io": 0, "set": g.is_set, "ops": g.ops}


def gen_cursor_reuse(rng):
    """one or two cursors re-used on an unchanging tree of two or three levels: seek into the middle, a partial walk,
    seek_first / seek_last / another seek, then a complete walk to the far boundary and back (no mutation in between,
    so nothing is ever parked)"""
    t = rng.choice([3, 3, 4])
    n = rng.choice([8, 20, 40, 60, 90, 130]) if t == 3 else rng.choice([30, 70, 150])
    ops = []
    keys = list(range(0, 2 * n, 2))
    for i, k in enumerate(key_order(rng, keys, rng.choice(["asc", "rand", "desc"]))):
        ops.append(f"I,0,{k},{i + 1}")
    if rng.chance(1, 4):
        ops.append("F,0")
    ncur = rng.choice([1, 2])
    for c in range(ncur):
        ops.append(f"c,0")
    for _ in range(rng.range(3, 8)):
        c = rng.below(ncur)
        ops.append(f"s,{c},{rng.below(2 * n + 1)},{rng.below(2)}")
        d = rng.choice("np")
        ops += [f"{d},{c}"] * rng.range(0, 9)
        if rng.chance(1, 3):
            ops += [f"{'p' if d == 'n' else 'n'},{c}"] * rng.range(1, 4)
        ops.append(rng.choice([f"f,{c}", f"l,{c}", f"f,{c}", f"l,{c}", f"s,{c},{rng.below(2 * n + 1)},{rng.below(2)}"]))
        far = "n" if ops[-1].startswith("f") else ("p" if ops[-1].startswith("l") else rng.choice("np"))
        ops += [f"{far},{c}"] * (n + 2)
        ops += [f"{'p' if far == 'n' else 'n'},{c}"] * rng.choice([0, 3, n + 2])
    return {"kind": "hist", "t": t, "io": rng.below(2), "set": False, "ktype": rng.choice(KTYPES), "ops": ops}


KTYPES = ["int", "int", "int", "str", "name", "bytes", "tuple", "float"]


def gen_cursor_mutation(rng):
    """Cursors kept open across mutations of *their own* tree, simulated exactly while generating so that the
    mutations aim at the cursor: delete the element just returned (`for k in b: del b[k]`), insert or delete right
    before / after the anchor, mutate a fresh clone under an open cursor (the first mutation copies the cursor's
    leaf).  Universes are small and always contain key 0 (the falsy key: 0, '', the empty name), and the run
    starts at the low end, so that cursors are regularly parked on it."""
    t = rng.choice([3, 3, 4, 5])
    io = rng.below(2)
    is_set = rng.chance(1, 4)
    n = rng.choice([3, 5, 6, 8, 12, 20, 30, 45])
    step = rng.choice([1, 1, 2, 3])
    ops = []
    vid = [0]
    refs = [set()]
    frozen = [False]

    def ins(h, k):
        vid[0] += 1
        ops.append(f"I,{h},{k},{0 if is_set else vid[0]}")
        if not frozen[h]:
            refs[h].add(k)

    def dele(h, k):
        m = rng.below(4)
        ops.append(f"R,{h},{k}" if m == 0 else (f"O,{h},{k}" if (m == 1 and not is_set) else f"D,{h},{k}"))
        if not frozen[h]:
            refs[h].discard(k)

    keys0 = [i * step for i in range(n)]
    for k in key_order(rng, keys0, rng.choice(["asc", "asc", "desc", "rand"])):
        ins(0, k)
    h = 0
    if rng.chance(1, 3):  # work on a clone: its first mutation copies the nodes under the cursor
        ops.append("F,0")
        ops.append(f"C,0,{rng.below(2)}")
        frozen[0] = True
        frozen.append(False)
        refs.append(set(refs[0]))
        h = 1
    ncur = rng.choice([1, 1, 2])
    curs = []
    for c in range(ncur):
        ops.append(f"c,{h}")
        rc = RefCursor()
        m = rng.below(4)
        if m == 0:
            ops.append(f"s,{c},0,{rng.below(2)}")
            rc.seek(0, ops[-1].endswith(",1"))
        elif m == 1:
            ops.append(f"l,{c}")
            rc.state = ("R",)
        curs.append(rc)
    hi = max(keys0) + 2
    for _ in range(rng.range(8, 60)):
        c = rng.below(ncur)
        rc = curs[c]
        keys = sorted(refs[h])
        fwd = rng.chance(3, 4)
        got = rc.next(keys) if fwd else rc.prev(keys)
        ops.append(f"n,{c}" if fwd else f"p,{c}")
        m = rng.below(12)
        if m < 5 and got is not None:
            dele(h, got)  # delete what was just returned (iteration that empties the map)
        elif m < 7:
            base = got if got is not None else (0 if rc.state[0] == "L" else hi)
            ins(h, max(0, base + rng.choice([-2, -1, -1, 1, 1, 2])))
        elif m < 8 and keys:
            dele(h, rng.choice(keys))
        elif m < 9:
            ins(h, rng.below(hi + 1))
        elif m < 10:
            ins(h, 0) if 0 not in refs[h] else dele(h, 0)
        elif m < 11:
            k = rng.choice([0, 0, rng.below(hi + 1)])
            b = rng.below(2)
            ops.append(f"s,{c},{k},{b}")
            rc.seek(k, bool(b))
            if rng.chance(1, 2):  # parked right after a seek (parking key not read yet)
                if k in refs[h] and rng.chance(1, 2):
                    dele(h, k)
                else:
                    ins(h, max(0, k + rng.choice([-1, 0, 1])))
        # else: no mutation between two cursor steps
        if rng.chance(1, 10):
            ops.append(rng.choice([f"T,{h}", f"K,{h}", f"L,{h}", f"P,{c}"]))
    return {"kind": "hist", "t": t, "io": io, "set": is_set, "ktype": rng.choice(KTYPES), "falsy_elts": rng.chance(1, 6), "ops": ops}


def gen_iter_mutation(rng):
    """`for k in tree:` interleaved with mutations of the same tree ("may be mutated while iterating"): the `c` op opens
    `iter(tree)`, `n` is `next(it)`, `x` closes it; between two steps the tree is mutated around the key just yielded
    (delete it, insert right before / after it, delete the next one, touch the falsy key)"""
    t = rng.choice([3, 3, 4, 5])
    io = rng.below(2)
    is_set = rng.chance(1, 2)
    n = rng.choice([3, 6, 9, 14, 25, 40])
    step = rng.choice([1, 2, 3])
    ops = []
    vid = [0]
    ref = set()

    def ins(k):
        vid[0] += 1
        ops.append(f"I,0,{k},{0 if is_set else vid[0]}")
        ref.add(k)

    def dele(k):
        m = rng.below(4)
        ops.append(f"R,0,{k}" if m == 0 else (f"O,0,{k}" if (m == 1 and not is_set) else f"D,0,{k}"))
        ref.discard(k)

    for k in key_order(rng, [i * step for i in range(n)], rng.choice(["asc", "desc", "rand"])):
        ins(k)
    hi = n * step + 2
    its = []  # (cursor id, RefCursor)
    ncur = 0
    for _ in range(rng.range(10, 70)):
        if not its or (len(its) < 2 and rng.chance(1, 8)):
            ops.append("c,0")
            its.append((ncur, RefCursor()))
            ncur += 1
            if rng.chance(1, 3):
                ins(rng.below(hi)) if rng.chance(1, 2) else (ref and dele(min(ref)))  # before the generator started
            continue
        c, rc = rng.choice(its)
        keys = sorted(ref)
        got = rc.next(keys)
        ops.append(f"n,{c}")
        if got is None:
            ops.append(f"x,{c}")
            its = [x for x in its if x[0] != c]
            continue
        m = rng.below(12)
        if m < 4:
            dele(got)
        elif m < 6:
            ins(max(0, got + rng.choice([-2, -1, 1, 1, 2])))
        elif m < 7:
            later = [k for k in keys if k > got]
            if later:
                dele(later[0])
        elif m < 8:
            ins(rng.below(hi))
        elif m < 9:
            ins(0) if 0 not in ref else dele(0)
        elif m < 10 and keys:
            dele(min(ref))  # the mixins' pop()/popitem() route
        elif m < 11 and rng.chance(1, 3):
            ops.append(f"x,{c}")  # abandon the loop (`break`)
            its = [x for x in its if x[0] != c]
        if rng.chance(1, 10):
            ops.append(rng.choice(["T,0", "K,0", "L,0"]))
    return {"kind": "hist", "t": t, "io": io, "set": is_set, "ktype": rng.choice(KTYPES), "itercur": True, "falsy_elts": rng.chance(1, 6), "ops": ops}


def gen_defaults(rng, is_set):
    """trees made with the constructors' default arguments (t = DEFAULT_T = 127, in_order = False): enough keys for the
    first root split at 2t-1 = 253 elements, then deletions back below it"""
    io = 1 if rng.chance(1, 3) else 0
    n = rng.range(262, 300) if is_set else rng.range(508, 540)  # 2 * 253 + 1 = 507: a second split below the root
    ops = []
    keys = list(range(0, 2 * n, 2))
    for i, k in enumerate(key_order(rng, keys, rng.choice(["asc", "nearasc", "rand", "desc"]))):
        ops.append(f"I,0,{k},{0 if is_set else i + 1}")
    ops += ["L,0", "M,0", f"G,0,{rng.choice(keys)}", f"G,0,{rng.choice(keys) + 1}"]
    for k in rng.shuffle(keys)[: rng.range(20, 70)]:
        ops.append(f"D,0,{k}")
    ops += ["K,0", "F,0", "C,0,0", f"I,1,{2 * n + 1},{0 if is_set else 900000}", f"D,1,{keys[0]}", "L,0", "L,1"]
    return {"kind": "hist", "t": 127, "io": io, "set": is_set, "defaults": True, "ops": ops}


# ------------------------------------------------------------------------------------------------
# oracle-only stream: exceptions raised in the middle of an operation, aliasing, equality relations
# ------------------------------------------------------------------------------------------------
class Boom(BaseException):
    """not an Exception: what KeyboardInterrupt / a custom BaseException from a key's comparison looks like"""


class BoomV(ValueError):
    pass


class BoomK(KeyError):
    pass


BOOMS = {"B": Boom, "V": BoomV, "K": BoomK}
SETOP_SIG = "C19/api/set-operator:TypeError/_from_iterable"


class HK(int):
    """an int key whose comparisons raise once `fuse` of them have been made (while armed)"""

    def __new__(cls, v, fuse, exc):
        o = int.__new__(cls, v)
        o.fuse, o.exc, o.armed = fuse, exc, True
        return o

    def _tick(self):
        if self.armed:
            if self.fuse <= 0:
                raise self.exc("comparison")
            self.fuse -= 1

    def __eq__(self, o):
        self._tick()
        return int(self) == int(o)

    def __ne__(self, o):
        self._tick()
        return int(self) != int(o)

    def __lt__(self, o):
        self._tick()
        return int(self) < int(o)

    def __gt__(self, o):
        self._tick()
        return int(self) > int(o)

    def __le__(self, o):
        self._tick()
        return int(self) <= int(o)

    def __ge__(self, o):
        self._tick()
        return int(self) >= int(o)

    __hash__ = int.__hash__


def run_hostile(case):
    """Runs a history of the oracle-only stream on the implementation.  Returns [(signature, what, op index)].
    After an operation that was aborted by an exception out of a key comparison: every *other* tree is unchanged (a clone
    stays isolated whatever happens), the tree itself is still a B-tree (occupancy, depth, order, root condition); after
    an aborted insertion also contents and size are those of before.  (An aborted deletion of a key held in an internal
    node may have removed the successor already — counted, not judged; the history stops there.)"""
    global _KT
    _KT = "int"
    fails = []
    is_set = case["set"]
    cls = btree.BTreeSet if is_set else btree.BTreeDict
    T = [cls(t=case["t"], in_order=bool(case["io"]))]
    refs = [dict()]
    lines = [tree_line(T[0])]
    cur = None
    rc = RefCursor()
    lost = 0

    def fail(sig, what, at):
        if len(fails) < 10:
            fails.append((sig, what, at))

    def check(h, at, tok, content=True):
        nonlocal lines
        new = [tree_line(t) for t in T]
        for j, ln in enumerate(new):
            if j != h and j < len(lines) and ln != lines[j]:
                fail("C19/clone/isolation", f"op {at} {tok}: tree {j} changed by an operation on tree {h}", at)
        lines = new
        bad, keys = check_invariants(T[h])
        for clause, detail in bad:
            if clause == "size" and not content:
                continue
            fail(f"C19/invariant/{clause}", f"op {at} {tok} on tree {h}: {detail}", at)
        if content and keys != sorted(refs[h]):
            fail("C19/content/keys", f"op {at} {tok} on tree {h}: keys {keys} != reference {sorted(refs[h])}", at)
        return keys

    old = signal.signal(signal.SIGALRM, _alarm)
    signal.alarm(20)
    try:
        for at, tok in enumerate(case["ops"]):
            f = tok.split(",")
            op = f[0]
            h = int(f[1]) if len(f) > 1 else 0
            if h >= len(T):
                continue
            tr, ref = T[h], refs[h]
            try:
                if op in ("i", "d"):
                    k = int(f[2])
                    if op == "i":
                        e = btree.Member(k) if is_set else btree.KV(k, at)
                        tr.insert_element(e, tr.in_order)
                        ref[k] = at
                    else:
                        tr.delete_key(k)
                        ref.pop(k, None)
                    check(h, at, tok)
                elif op in ("I", "D"):
                    k, fuse, exc = int(f[2]), int(f[3]), BOOMS[f[4]]
                    hk = HK(k, fuse, exc)
                    raised = False
                    try:
                        if op == "I":
                            tr.insert_element(btree.Member(hk) if is_set else btree.KV(hk, at), tr.in_order)
                        else:
                            tr.delete_key(hk)
                    except exc:
                        raised = True
                    finally:
                        hk.armed = False
                    if not raised:
                        if op == "I":
                            ref[k] = at
                        else:
                            ref.pop(k, None)
                        check(h, at, tok)
                    elif op == "I":
                        check(h, at, tok)
                        if len(tr) != len(ref):
                            fail("C19/len/value", f"op {at} {tok}: len {len(tr)} after an aborted insertion, reference {len(ref)}", at)
                    else:
                        keys = check(h, at, tok, content=False)
                        if keys != sorted(ref) or len(tr) != len(keys):
                            lost += 1  # successor removed, key not yet replaced: outside the property
                            break
                elif op == "F":
                    tr.make_immutable()
                    tr.make_immutable()
                    lines[h] = tree_line(tr)
                elif op == "C":
                    if tr._immutable and len(T) < 4:
                        T.append(copy.copy(tr))
                        refs.append(dict(ref))
                        lines.append(tree_line(T[-1]))
                elif op == "c":
                    if cur is not None:
                        cur.__exit__(None, None, None)
                    cur = T[0].cursor()
                    cur.__enter__()
                    rc = RefCursor()
                elif op == "n" and cur is not None:
                    e = cur.next()
                    ek = rc.next(sorted(refs[0]))
                    if (None if e is None else e.key()) != ek:
                        fail("C19/cursor/next", f"op {at} {tok}: cursor returned {None if e is None else e.key()}, reference {ek}", at)
                elif op == "U":  # aliasing: the tree combined with itself, contents unchanged
                    if tr._immutable:
                        continue
                    if is_set:
                        if int(f[2]) % 2:
                            tr |= tr
                        else:
                            try:
                                tr &= tr  # MutableSet.__iand__ computes `self - it`, i.e. a new set through _from_iterable
                            except TypeError as e:
                                fail(SETOP_SIG, f"op {at} {tok}: `s &= s` raised TypeError: {e}", at)
                    else:
                        tr.update(tr)
                    check(h, at, tok)
                elif op == "Y":  # aliasing: the tree emptied through itself
                    if tr._immutable:
                        continue
                    if is_set:
                        m = int(f[2]) % 3
                        if m == 0:
                            tr ^= tr
                        elif m == 1:
                            tr -= tr
                        else:
                            tr.clear()
                    else:
                        tr.clear()
                    ref.clear()
                    check(h, at, tok)
                    if tr.cursors and cur is None:
                        fail("C19/iteration/cursor-leaked", f"op {at} {tok}: {len(tr.cursors)} cursors left registered", at)
                elif op == "E":  # equality-like relations across object routes
                    plain = set(ref) if is_set else {k: tr.get_element(k).value() for k in ref}
                    rel = {
                        "== plain": tr == plain, "plain ==": plain == tr, "not !=": not (tr != plain), "== self": tr == tr,
                        "len": len(tr) == len(plain), "in": all(k in tr for k in ref) and (max(ref, default=0) + 1) not in tr,
                    }
                    if is_set:
                        rel.update({"<= self": tr <= tr, ">= self": tr >= tr, "not < self": not (tr < tr), "<= plain": tr <= plain,
                                    "plain <=": plain <= tr, "isdisjoint": tr.isdisjoint(plain) == (not plain)})
                        bigger = plain | {max(ref, default=0) + 7}
                        probe = {min(ref, default=0), max(ref, default=0) + 7}
                        for name, fn, exp in (("&", lambda: tr & probe, plain & probe), ("|", lambda: tr | probe, plain | probe),
                                              ("-", lambda: tr - probe, plain - probe), ("^", lambda: tr ^ probe, plain ^ probe),
                                              ("r-", lambda: probe - tr, probe - plain)):
                            try:
                                got = fn()
                                if set(got) != exp or len(got) != len(exp):
                                    fail("C19/api/set-operator/value", f"op {at} {tok}: `{name}` gives {sorted(got)}, expected {sorted(exp)}", at)
                            except TypeError as e:
                                # the Set mixin builds its result with cls._from_iterable(it) = cls(it); BTreeSet's constructor
                                # takes no iterable
                                fail(SETOP_SIG, f"op {at} {tok}: binary set operator `{name}` on a BTreeSet raised TypeError: {e}", at)
                        rel.update({"!= bigger": tr != bigger, "< bigger": tr < bigger, "not >= bigger": not (tr >= bigger)})
                    else:
                        other = dict(plain)
                        other[max(ref, default=0) + 7] = 1
                        rel.update({"!= bigger": tr != other, "bigger !=": other != tr})
                    for j, o in enumerate(T):
                        if j != h and type(o) is type(tr):
                            same = (sorted(refs[j]) == sorted(ref)) if is_set else (
                                {k: o.get_element(k).value() for k in refs[j]} == plain)
                            rel[f"== tree {j}"] = (tr == o) == same and (o == tr) == same and (tr != o) == (not same)
                    for name, okv in rel.items():
                        if not okv:
                            fail("C19/api/equality", f"op {at} {tok}: relation `{name}` fails on tree {h} with keys {sorted(ref)[:20]}", at)
            except Hang:
                fail("C19/hang", f"op {at} {tok}: no termination", at)
                break
            except btree.Immutable:
                if not tr._immutable:
                    fail("C19/frozen/spurious", f"op {at} {tok}: Immutable on a mutable tree", at)
                check(h, at, tok)
            except (KeyboardInterrupt, SystemExit, Stalled):
                raise
            except BaseException as e:
                fail(f"C19/{op}/exception:{type(e).__name__}", f"op {at} {tok}: {type(e).__name__}: {e}", at)
                break
    finally:
        signal.alarm(0)
        signal.signal(signal.SIGALRM, old)
    return fails, lost


def gen_hostile(rng):
    t = rng.choice([3, 3, 4])
    is_set = rng.chance(1, 2)
    n = rng.choice([5, 9, 17, 26, 40, 60])
    ops = []
    keys = [2 * i for i in range(n)]
    for k in key_order(rng, keys, rng.choice(["asc", "asc", "rand", "desc"])):  # ascending without in_order: minimal nodes
        ops.append(f"i,0,{k}")
    ntrees, frozen = 1, [False]
    if rng.chance(1, 2):
        ops.append("c")
    for _ in range(rng.range(6, 40)):
        muts = [h for h in range(ntrees) if not frozen[h]]
        m = rng.below(20)
        h = rng.choice(muts) if muts else 0
        exc = rng.choice("BBVK")
        if m < 6:
            ops.append(f"D,{h},{rng.choice(keys) + rng.below(2)},{rng.below(14)},{exc}")
        elif m < 10:
            ops.append(f"I,{h},{rng.below(2 * n + 2)},{rng.below(12)},{exc}")
        elif m < 12:
            ops.append(f"d,{h},{rng.choice(keys)}")
        elif m < 14:
            ops.append(f"i,{h},{rng.below(2 * n + 2)}")
        elif m < 15 and ntrees < 4:
            fz = rng.below(ntrees)
            ops += [f"F,{fz}", f"C,{fz}"]
            frozen[fz] = True
            frozen.append(False)
            ntrees += 1
        elif m < 16:
            ops.append(f"U,{h},{rng.below(4)}")
        elif m < 17 and rng.chance(1, 3):
            ops.append(f"Y,{h},{rng.below(6)}")
            for k in rng.shuffle(keys)[: rng.range(3, max(4, n // 2))]:
                ops.append(f"i,{h},{k}")
        elif m < 19:
            ops.append(f"E,{rng.below(ntrees)}")
        else:
            ops.append("n")
    ops.append(f"E,{rng.below(ntrees)}")
    return {"kind": "hostile", "t": t, "io": rng.below(2), "set": is_set, "ops": ops}


def gen_generations(rng):
    """Object lifetime as a dimension of the history: chains of generations base -> a -> b (each frozen, then cloned),
    the intermediate generation `a` is *dropped* (`Z`: last reference deleted, gc.collect()) while `b`, which shares the
    nodes `a` created, stays observed; then several short-lived clones of the surviving frozen trees are made (one of
    them is likely to be allocated where the dropped tree lived), mutated along the keys `a` touched, and dropped again."""
    t = rng.choice([3, 3, 4])
    io = rng.below(2)
    is_set = rng.chance(1, 4)
    n = rng.choice([8, 14, 25, 40])
    ops = []
    vid = [0]

    def ins(h, k):
        vid[0] += 1
        ops.append(f"I,{h},{k},{0 if is_set else vid[0]}")

    for k in key_order(rng, list(range(0, 2 * n, 2)), rng.choice(["asc", "rand", "desc"])):
        ins(0, k)
    ops.append("F,0")
    ntrees = 1
    frozen_live = [0]
    for _ in range(rng.range(2, 5)):
        if ntrees > 13:
            break
        g = rng.choice(frozen_live)
        # generation a: rewrites a few entries, is frozen
        ops.append(f"C,{g},{rng.below(2)}")
        a = ntrees
        ntrees += 1
        touched = rng.shuffle(list(range(0, 2 * n + 2)))[: rng.range(2, max(3, n // 2))]
        for k in touched:
            if rng.chance(1, 5):
                ops.append(f"D,{a},{k}")
            else:
                ins(a, k)
        if rng.chance(1, 4):
            ops += [f"c,{a}", f"n,{rng.below(3)}"]  # a cursor that dies with its tree (closed ids answer `!` on both sides)
        ops.append(f"F,{a}")
        # generation b: a clone of a, frozen with few or no changes
        ops.append(f"C,{a},{rng.below(2)}")
        b = ntrees
        ntrees += 1
        for k in touched[: rng.choice([0, 0, 1, 2])]:
            ins(b, k)
        ops.append(f"F,{b}")
        frozen_live.append(b)
        if rng.chance(1, 3):
            ops.append(f"T,{b}")
        ops.append(f"Z,{a}")
        # short-lived clones of the survivors, mutated along what a touched
        for _ in range(rng.range(1, 4)):
            if ntrees > 13:
                break
            src = b if rng.chance(2, 3) else rng.choice(frozen_live)
            ops.append(f"C,{src},{rng.below(2)}")
            c = ntrees
            ntrees += 1
            for k in rng.shuffle(touched)[: rng.range(1, len(touched))]:
                m = rng.below(5)
                if m == 0:
                    ops.append(f"D,{c},{k}")
                elif m == 1:
                    ops.append(f"R,{c},{k}")
                else:
                    ins(c, k)
            if rng.chance(1, 2):
                ops.append(f"T,{b}")
            if rng.chance(1, 2):
                ops.append(f"Z,{c}")
            elif rng.chance(1, 2):
                ops.append(f"F,{c}")
                frozen_live.append(c)
        if rng.chance(1, 6):
            ops.append(f"G,{a},{rng.choice(touched)}")  # use of a dropped handle: `!` on both sides
    for h in frozen_live:
        ops.append(f"T,{h}")
    return {"kind": "hist", "t": t, "io": io, "set": is_set, "ktype": rng.choice(KTYPES), "ops": ops}


def gen_malformed(rng):
    """histories with invalid handles, clones of mutable trees, foreign exact deletes, closed cursors, junk tokens"""
    c = gen_history(rng, "tiny" if rng.chance(1, 2) else "small")
    ops = list(c["ops"])
    junk = ["C,0,0", "C,9,0", "I,7,1,1", "D,8,1", "G,9,0", "n,9", "p,7", "s,5,1,1", "x,0", "x,0", "c,9", "X,0,3,999", "X,0,1,0",
            "Q,1", "I,0,1", "I,0,a,1", "", "F,9", "L,9", "T,9", "M,9", "P,9", "S,0", "F,0", "I,0,2,5000", "D,0,2", "n,0", "f,0", "l,0"]
    for _ in range(rng.range(1, 8)):
        j = rng.choice(junk)
        if j == "":
            j = "?"
        ops.insert(rng.below(len(ops) + 1), j)
    c["ops"] = ops
    if rng.chance(1, 12):
        c["t"] = rng.choice([0, 1, 2])
    return c


def gen_search(rng):
    n = rng.choice([0, 1, 2, 3, 4, 5, 6, 7, 8, 9, 13])
    ks = sorted(set(rng.range(0, 30) for _ in range(n)))
    pool = [0, 31] + ks + [k + 1 for k in ks] + [max(k - 1, 0) for k in ks]
    return {"kind": "search", "key": rng.choice(pool), "keys": ks}


def exhaustive_small(ctx):
    """thorough tier: every op sequence of length <= 6 over 5 keys at t=3 (insert/delete), both in-order settings"""
    import itertools
    alphabet = [f"I,0,{k},0" for k in range(1, 6)] + [f"D,0,{k}" for k in range(1, 6)]
    # start from a two-level tree so that the sequences reach split/steal/merge
    prefix = [f"I,0,{k},0" for k in (10, 20, 30, 40, 50, 60, 70, 80)]
    n = 0
    for io in (0, 1):
        for L in range(1, 6):
            for seq in itertools.product(alphabet, repeat=L):
                case = {"kind": "hist", "t": 3, "io": io, "set": True, "ops": prefix + list(seq)}
                ctx.case(("exh", io, seq), sample=None)
                eval_case(ctx, case)
                n += 1
    ctx.count("exhaustive.sequences", n)


def generate(ctx: Ctx, scale: float, rng):
    n_hist = max(1, int(1100 * scale))
    for i in range(n_hist):
        case = gen_history(rng)
        r = eval_case(ctx, case)
        ctx.case(("hist", case["t"], case["io"], case["set"], tuple(case["ops"])), nontrivial=bool(r and r.mutations), sample=_sample(case))
    for i in range(max(1, int(300 * scale))):
        case = gen_cursor_mutation(rng)
        r = eval_case(ctx, case)
        ctx.count("cursor-mutation")
        ctx.count("ktype." + case["ktype"])
        ctx.case(("curmut", case["t"], case["io"], case["set"], case["ktype"], tuple(case["ops"])),
                 nontrivial=bool(r and r.mutations), sample=_sample(case))
    for i in range(max(1, int(40 * scale))):
        case = gen_cursor_reuse(rng)
        eval_case(ctx, case)
        ctx.count("cursor-reuse")
        ctx.case(("curreuse", case["t"], case["ktype"], tuple(case["ops"])), nontrivial=True, sample=_sample(case))
    for i in range(max(1, int(60 * scale))):
        case = gen_iter_mutation(rng)
        r = eval_case(ctx, case)
        ctx.count("iter-mutation")
        ctx.case(("itermut", case["t"], case["io"], case["set"], case["ktype"], tuple(case["ops"])),
                 nontrivial=bool(r and r.mutations), sample=_sample(case))
    for i in range(max(2, int(2 * scale))):
        case = gen_defaults(rng, bool(i % 2))
        r = eval_case(ctx, case)
        ctx.count("default-ctor")
        ctx.case(("defaults", case["io"], case["set"], tuple(case["ops"])), nontrivial=True, sample=_sample(case))
    for i in range(max(1, int(80 * scale))):
        case = gen_generations(rng)
        r = eval_case(ctx, case)
        ctx.count("generations")
        ctx.case(("gens", case["t"], case["io"], case["set"], case["ktype"], tuple(case["ops"])),
                 nontrivial=bool(r and r.mutations), sample=_sample(case))
    for i in range(max(1, int(150 * scale))):
        case = gen_hostile(rng)
        eval_case(ctx, case)
        ctx.count("hostile")
        ctx.case(("hostile", case["t"], case["io"], case["set"], tuple(case["ops"])), nontrivial=True, sample=_sample(case))
    for i in range(max(1, int(40 * scale))):
        case = gen_absent_sweeps(rng)
        r = eval_case(ctx, case)
        ctx.count("absent-sweeps")
        ctx.case(("abs", case["t"], case["set"], tuple(case["ops"])), nontrivial=bool(r and r.mutations), sample=_sample(case))
    for i in range(max(1, int(120 * scale))):
        case = gen_malformed(rng)
        r = eval_case(ctx, case)
        ctx.count("malformed")
        ctx.case(("mal", case["t"], case["io"], tuple(case["ops"])), nontrivial=bool(r and r.mutations), sample=_sample(case))
    for i in range(max(1, int(600 * scale))):
        case = gen_search(rng)
        eval_case(ctx, case)
        ctx.case(("search", case["key"], tuple(case["keys"])), sample=case)
    for k, v in BRANCH.items():
        ctx.hist[k] = v


def _sample(case):
    if len(case["ops"]) > 40:
        return dict(case, ops=case["ops"][:40] + [f"...(+{len(case['ops']) - 40} ops)"])
    return case


def run(ctx: Ctx):
    for p in sorted(glob.glob(os.path.join(VERIF, "corpus", "C19", "*.json"))):
        c = json.load(open(p))
        ctx.case(("corpus", p), sample=None)
        eval_case(ctx, c, minimize=False)
        ctx.count("corpus")
    if ctx.tier == "thorough":
        exhaustive_small(ctx)
    generate(ctx, 1 if ctx.tier == "quick" else 10, ctx.rng)
    ctx.extra["layers"] = PROVED_LAYERS


def search(ctx: Ctx):
    """failing-input search on the implementation: the disagreeing histories again, then a fresh larger budget"""
    for m in ctx.mismatches[:30]:
        if m.case is not None:
            eval_case(ctx, m.case)
    generate(ctx, 3 if ctx.tier == "quick" else 30, ctx.rng.fork(19))


def replay(ctx: Ctx, obj: dict):
    eval_case(ctx, obj["case"], minimize=False)
    return [f.what for f in ctx.failures]


def impl_of_op(op: str):
    f = op.split()
    if f[0] == "c19.hist":
        return run_impl({"kind": "hist", "t": int(f[1]), "io": int(f[2]), "set": f[5] == "1", "ops": f[6:]})[1]
    return "?"


PROVED_LAYERS = {
    "proved": [
        "L1 get_refines, inorder_sorted, len_exact",
        "L2 insert_refines / insert_refines_node: Wf preserved, flat = insSorted, replaced element returned, every t >= 3, in-order optimisation on and off",
        "L3 delete_refines (repaired root collapse: full statement), delete_exact_refines / delete_exact_failure_keeps_contents "
        "(delete_exact: the stored element -> plain deletion; any other element -> ValueError, well-formed tree, root condition, same listing "
        "and size), delete_exact_unrepaired_loses_rootOk (the repair 90d7725 is needed), delete_refines_partial (code as pinned, guarded), "
        "delete_refines_or_indexError (code as shipped, every well-formed tree: refinement or IndexError with the tree unchanged), "
        "delete_asShipped_loses_rootOk and delete_asShipped_indexError (counterexamples by evaluation)",
        "L4 in_order_opt_refines (the optimisation changes the shape only)",
        "L5 cursor_boundaries, cursor_seek_refines, cursor_next_refines, cursor_prev_refines, cursor_unpark_refines "
        "(cursors kept across arbitrary mutations resume at the bound of their anchor), cursor_bound_unique",
        "frozen_rejects, clone_isolated (immediate in the persistent model)",
        "mechanism level (Model.BTreeCow): cow_step_refines, cow_run_refines (any interleaving of insert/delete/clone/freeze/new on any "
        "number of trees refines the persistent model), clone_isolated_mech, cow_writes_only_own_cells",
        "API level: dict_reads_refine, dict_writes_refine (getitem/get/in/len/keys/items/values, setitem/delitem/pop), set_refines "
        "(in/len/iteration/add/discard/remove), mutation_parks_registered, registered_cursor_resumes",
        "consts_agree (_MIN/_MAX at t = 3..8 and the t >= 3 guard regenerated from the working tree)",
    ],
    "tie_only": [
        "garbage (cells dropped from every tree) and Python object identity of elements are outside the heap model",
        "the amount of space optimisation of in-order insertion (how full left siblings end up) and the exact set of nodes copied are "
        "properties of the model tied by correspondence only (shape / node-identity comparison), not stated as theorems about occupancy",
    ],
}

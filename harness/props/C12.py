"""C12 — versioned-zone writers are serialized, FIFO and deadlock-free in every schedule.

Tie = trace validation.  `dns.versioned.threading` is replaced by the shim of harness/sched.py, real threads run
`Zone.writer()` / `Zone.reader()` / commit / rollback under a deterministic scheduler with `sys.settrace` line
preemption inside dns/versioned.py (and the three anchored functions of dns/zone.py), the visible steps
(lock and event operations, every change of `_write_txn`, `_write_event`, `_write_waiters`, `_versions`, `nodes`,
`_readers`) are recorded with the shared state after each of them, and the model (lean/Model/Writers.lean,
through the driver) must accept the same sequence step by step and reach the same states.

Oracle = the property itself monitored on the implementation along the same schedules: mutual exclusion,
admission in the order of enqueueing, no lost wake-up (scheduler-detected deadlock), no wait under the lock,
final zone = serial application of the committed bodies in admission order, readers see whole commits only.
"""
from __future__ import annotations

import glob
import json
import os

import dns.name
import dns.rdata
import dns.rdataset
import dns.transaction
import dns.versioned
import dns.btreezone
import dns.zone

from harness import sched as S
from harness.core import VERIF, Ctx, Rng

RULE = (
    "a case is one schedule: a role vector (2-5 writers that append/reset and commit, roll back, commit nothing, end through a "
    "with block, through an exception in its body, try to end twice, or are opened with replacement=True; "
    "0-3 readers), a granularity (line = preemption before every source line of the anchored functions, sync = only "
    "at lock/event operations) and the list of thread ids chosen at every choice point, produced from the SplitMix64 "
    "state by one of four strategies (uniform, sticky 3/4, sticky 15/16, PCT with 1-3 priority changes) or by the "
    "depth-first enumeration (thorough tier); a case is non-trivial if its (roles, mode, choice list) is new"
)
TRUSTED_BASE = [
    "contract of threading.Lock (mutual exclusion, not re-entrant) and threading.Event (set releases every current and "
    "future wait; Event() objects are pairwise distinct and distinct from None) as implemented by harness/sched.py's shim",
    "CPython executes one source line of one thread between two settrace line events when only one thread is runnable",
]
ASSUMPTIONS = [
    "liveness is proved under an explicit bounded-fairness hypothesis (a started, enabled thread is passed over at most k "
    "times between two of its steps): eventually_admitted gives admission within 360*(d+1)*(k+1)^2 steps (d = admissions "
    "still needed), readers_wait_free gives a reader's completion within 108*(k+1)^2 steps whatever the writers do; plain weak "
    "fairness is insufficient because threading.Lock is not FIFO; the liveness half of the threading contract (acquire of a "
    "free lock and wait on a set event return) is assumed, not modelled",
    "the trace validation runs the model's silent steps (event=None, the admission test, _setup_version reads, the body, "
    "prune) lazily right before the thread's next visible step; the theorems quantify over every placement of them",
    "version pruning itself is outside this model (C11); the implementation's deque is compared through its last element; "
    "a pruning policy that raises during a commit is modelled (Cfg.pruneFails, any pattern of failures): the commit behaves "
    "as a rollback with hand-off, and 1 schedule in 4 installs such a policy (always / k-th call / while readers are open)",
    "every model thread runs one transaction; a thread running several in sequence is the same as several threads "
    "(the protocol never looks at thread identity)",
    "async (trio/asyncio) use and cancellation inside writer() are not modelled (threading only, as the code says)",
]
LEVEL = {
    "text": "Lean 4 theorems over a small-step model of dns/versioned.py's admission protocol (one step per source line "
            "that touches the lock, an event or a guarded field; any number of threads; any interleaving): inductive "
            "invariants for lock/transaction mutual exclusion, uniqueness and validity of the wake-up token, exactness "
            "of the waiter queue, FIFO admission, absence of deadlock (some thread enabled while anyone is unfinished), "
            "serial equivalence of the final zone, readers blocked only by bounded lock holds and seeing whole commits, and, under "
            "bounded fairness, admission of every waiting writer and completion of every reader within explicit step bounds. "
            "The model is tied to the code by trace validation under a deterministic scheduler with line-level "
            "preemption: every visible implementation step must be an enabled model step reaching the same shared state.",
    "note": "Trusted: Lean kernel + propext/Classical.choice/Quot.sound; statements in lean/Props/C12.lean; the scheduler "
            "and threading shim (harness/sched.py), the record/diff observer and the schedule generators (random + "
            "bounded/exhaustive DFS bound the tie); the threading contract; the fairness hypothesis of the liveness theorems.",
    "technique": "Lean 4 proof (inductive invariants over a transition system) + trace validation of real threads under a "
                 "deterministic scheduler",
    "design_ref": "DESIGN.md §7 C12",
}

LOG = dns.name.from_text("log", None)
# role -> (the zone changes at the end?, body kind, route to the end of the transaction)
#   body: a = append own id, r = reset the log to [own id], n = no change
#   route: commit / rollback = explicit call; with = `with txn:` left normally (commit in __exit__);
#          with-exc = exception raised in the with body (rollback in __exit__);
#          double = commit(), then a second rollback() and commit() that must raise AlreadyEnded and touch nothing
ROLE_INFO = {
    "wca": (True, "a", "commit"), "wcr": (True, "r", "commit"), "wra": (False, "a", "rollback"),
    "wcn": (False, "n", "commit"), "wwa": (True, "a", "with"), "wxa": (False, "a", "with-exc"),
    "wda": (True, "a", "double"),
    "wcR": (True, "a", "commit"), "wrR": (False, "a", "rollback"),  # opened with writer(replacement=True)
    "rd": (False, "n", "rollback"), "rdw": (False, "n", "with"),
    # reader(id=k) (found or KeyError, both legitimate for k = 1, 2), reader(id=0) and reader(serial=0): falsy but given,
    # must be looked up (and not found), never treated as "no argument"
    "rdi0": (False, "n", "rollback"), "rdi1": (False, "n", "rollback"), "rdi2": (False, "n", "rollback"),
    "rds0": (False, "n", "rollback"),
    "rdd": (False, "n", "double"),  # reader ended, then a second rollback()/commit() that must raise AlreadyEnded
}
ROLES = tuple(ROLE_INFO)
READERS = ("rd", "rdw", "rdd", "rdi0", "rdi1", "rdi2", "rds0")
LOOKUP = {"rdi0": ("id", 0), "rdi1": ("id", 1), "rdi2": ("id", 2), "rds0": ("serial", 0)}
REPLACEMENT = ("wcR", "wrR")


class PolicyError(Exception):
    """raised on purpose by the pruning policy installed by the harness"""


class PolicyAbort(BaseException):
    """a policy interrupted by something that is not an `Exception` (like KeyboardInterrupt / SystemExit)"""


# what the policy raises: the last element of a policy spec, default "E"
POLICY_RAISES = {"E": PolicyError, "B": PolicyAbort, "K": KeyboardInterrupt, "G": GeneratorExit}
POLICY_EXC = tuple(POLICY_RAISES.values())


def policy_parts(spec):
    """(kind, k, exception key) of a spec like ["always"], ["kth", 2], ["readers", "B"], ["kth", 3, "K"]"""
    spec = list(spec)
    exc = "E"
    if spec and spec[-1] in POLICY_RAISES:
        exc = spec.pop()
    return spec[0], (spec[1] if len(spec) > 1 else None), exc


def policy_name(spec):
    if not spec:
        return "-"
    kind, k, exc = policy_parts(spec)
    return kind + ("" if k is None else str(k)) + ("" if exc == "E" else "~" + exc)


def policy_spec(name):
    if name in ("", "-"):
        return None
    name, _, exc = name.partition("~")
    spec = ["kth", int(name[3:])] if name.startswith("kth") else [name]
    return spec + ([exc] if exc else [])


class BodyAbort(BaseException):
    """a `with txn:` body interrupted by something that is not an `Exception`"""


class Boom(Exception):
    """raised on purpose inside a `with txn:` body"""
TRACED_ZONE_FUNCS = {"_setup_version", "_end_transaction"}


def traced(code):
    fn = code.co_filename.replace("\\", "/")
    if fn.endswith("dns/versioned.py"):
        return True
    if fn.endswith("dns/zone.py") and code.co_name in TRACED_ZONE_FUNCS:
        return True
    return False


def content_of(nodes):
    n = nodes.get(LOG)
    if n is None:
        return ()
    for rds in n.rdatasets:
        if rds.rdtype == 16:
            return tuple(int(x) for x in rds[0].strings)
    return ()


def rdataset_of(content):
    txt = " ".join('"%d"' % x for x in content)
    return dns.rdataset.from_text("IN", "TXT", 300, txt)


def sl(xs):
    xs = list(xs)
    return ".".join(str(x) for x in xs) if xs else "-"


def so(x):
    return "-" if x is None else str(x)


def body_of(role, tid, c):
    kind = ROLE_INFO[role][1]
    if kind == "a":
        return tuple(c) + (tid,)
    if kind == "r":
        return (tid,)
    return tuple(c)


class Observer:
    """records the visible steps of the implementation and runs the property monitors"""

    def __init__(self, zone, lock, roles):
        self.z = zone
        self.lock = lock
        self.roles = roles
        self.events = []  # ShimEvent objects in creation order (id = index)
        self.txn_owner = {}  # id(txn) -> tid
        self.reader_of = {}  # id(txn) -> tid
        self.recs = []  # "t:label"
        self.states = []  # state string after each record
        self.fail = []  # (signature, what)
        self.prev = self._raw()
        # monitors
        self.waiting = []  # tids in enqueue order (their event was appended, they are not admitted yet)
        self.ev_owner = {}
        self.open_writers = []
        self.admitted = []
        self.committed = []
        self.returned = set()
        self.ended = set()
        self.reader_obs = []  # (tid, version id, version content, seen)
        self.hist = {}
        self.blocked_on_wait = set()
        self.in_hook = {}  # tid -> "setup" | "freeze" while inside a version-factory hook
        self.lookup_failed = set()  # readers whose reader(id=..)/reader(serial=..) raised KeyError
        self.failing = set()  # writers during whose commit the pruning policy raised
        self.policy_calls = 0
        self.pre = {}  # tid -> (zone.nodes, last version) when its end section began
        self.ending = set()  # writers that called commit()/rollback() and have not returned
        self.local = {}  # tid -> (version id, snapshot) of an admitted writer

    # -- raw snapshot of the guarded fields (objects, not ids)
    def _raw(self):
        z = self.z
        return (z._write_txn, z._write_event, tuple(z._write_waiters), len(z._versions),
                z._versions[-1] if z._versions else None, z.nodes, frozenset(z._readers))

    def new_event(self, ev):
        self.events.append(ev)
        return len(self.events) - 1

    def evid(self, e):
        if e is None:
            return None
        return getattr(e, "id", "?")

    def state(self):
        z = self.z
        txn = z._write_txn
        owner = None if txn is None else self.txn_owner.get(id(txn), "?")
        last = z._versions[-1] if z._versions else None
        readers = sorted(self.reader_of.get(id(r), 99) for r in z._readers)
        return ("L" + so(self.lock.holder) + "T" + so(owner) + "E" + so(self.evid(z._write_event)) + "W"
                + sl(self.evid(e) for e in z._write_waiters) + "S" + sl(e.id for e in self.events if e.flag)
                + "V" + (str(last.id) + ":" + sl(content_of(last.nodes)) if last is not None else "none") + "N" + sl(content_of(z.nodes)) + "R" + sl(readers))

    def emit(self, tid, label, suffix=""):
        self.recs.append(f"{tid}:{label}")
        self.states.append(self.state() + suffix)
        k = label.split(".")[0]
        self.hist[k] = self.hist.get(k, 0) + 1

    def policy_raised(self, tid):
        self.note("pruning-policy-raised")
        if tid is not None and self.roles[tid] not in READERS:
            self.failing.add(tid)
            self.note("commit-failed-in-pruning-policy")
            if self.z._write_waiters:
                self.note("commit-failed-with-writers-queued")
        elif tid is not None:
            self.note("reader-end-raised-in-pruning-policy")

    def note(self, k):
        self.hist[k] = self.hist.get(k, 0) + 1

    def bad(self, sig, what):
        if len(self.fail) < 20:
            self.fail.append((sig, what))

    # -- called at every line boundary and before every shim operation of thread `tid`
    def micro(self, tid):
        cur = self._raw()
        old = self.prev
        if (cur[0] is old[0] and cur[1] is old[1] and cur[4] is old[4] and cur[5] is old[5] and len(cur[2]) == len(old[2])
                and all(a is b for a, b in zip(cur[2], old[2])) and cur[6] == old[6]):
            return
        self.prev = cur
        otxn, oev, owq, onv, olast, onodes, ordr = old
        ntxn, nev, nwq, nnv, nlast, nnodes, nrdr = cur
        if otxn is not ntxn:
            if otxn is None:
                self.txn_owner[id(ntxn)] = tid
                self.emit(tid, "txn+")
                self.on_admit(tid)
            elif ntxn is None:
                self.emit(tid, "txn-")
            else:
                self.emit(tid, "txn!")
        if owq != nwq or oev is not nev:
            if len(owq) > 0 and nwq == owq[1:] and nev is owq[0]:
                self.emit(tid, f"pop.{self.evid(nev)}")
            elif len(nwq) == len(owq) + 1 and nwq[:-1] == owq and oev is nev:
                e = nwq[-1]
                self.emit(tid, f"app.{self.evid(e)}")
                self.on_enqueue(tid, e)
                if ntxn is None:
                    # the rare interleaving of the property text: a newcomer arrives between a wake-up and the woken
                    # thread re-taking the lock (no open transaction, but the token is out)
                    self.note("newcomer-queued-behind-outstanding-token")
                elif self.txn_owner.get(id(ntxn)) in self.ending:
                    self.note("newcomer-queued-while-owner-is-ending")
            elif owq == nwq and nev is None:
                self.emit(tid, "wev-")
            else:
                self.emit(tid, "wq!")
        if nlast is not olast:
            if nlast is not None and olast is not None and nlast.id < olast.id:
                self.emit(tid, "ver-")  # the version appended by a failing commit was withdrawn
            else:
                self.emit(tid, "ver")
        if nnodes is not onodes:
            self.emit(tid, "nod")
            self.committed.append(tid)
        if ordr != nrdr:
            if len(nrdr) == len(ordr) + 1 and ordr < nrdr:
                (r,) = nrdr - ordr
                self.reader_of[id(r)] = tid
                self.emit(tid, "rd+")
            elif len(nrdr) + 1 == len(ordr) and nrdr < ordr:
                self.emit(tid, "rd-")
            else:
                self.emit(tid, "rd!")

    # -- shim and harness operations
    def op(self, tid, what):
        k = what[0]
        if k == "acq":
            self.emit(tid, "acq")
        elif k == "rel":
            self.emit(tid, "rel")
            # a writer does no lock operation between the return of writer() and its end section, so the first release
            # after `ret` is the end of its write transaction
            if tid in self.open_writers:
                self.open_writers.remove(tid)
                if tid in self.failing:
                    # the failed commit must leave nothing behind: not published, write ended (same lock hold)
                    nodes0, last0 = self.pre.get(tid, (None, None))
                    z = self.z
                    if z.nodes is not nodes0 or not z._versions or z._versions[-1] is not last0 or z._write_txn is not None:
                        self.bad("C12/commit-failure/half-published-or-not-ended",
                                 f"writer {tid}: its commit failed in the pruning policy, yet zone.nodes changed="
                                 f"{z.nodes is not nodes0}, newest version changed={not z._versions or z._versions[-1] is not last0}, "
                                 f"write txn still registered={z._write_txn is not None}")
        elif k == "new":
            self.ev_owner[what[1]] = tid
            self.emit(tid, f"new.{what[1]}")
        elif k == "set":
            self.emit(tid, f"set.{what[1]}")
        elif k == "wait":
            if tid not in self.blocked_on_wait:
                self.note("event-set-before-the-waiter-waits")
            self.blocked_on_wait.discard(tid)
            if self.roles[tid] in READERS:
                self.bad("C12/readers-nonblocking/reader-waits-on-event", f"reader {tid} waited on event {what[1]}")
            self.emit(tid, f"wait.{what[1]}")
        elif k == "setup":  # the writable-version factory is being called (deferred _setup_version)
            self.emit(tid, "setup")
        elif k == "waitto":  # a wait with a timeout returned without the event being set
            self.emit(tid, f"waitto.{what[1]}")
        elif k == "ret":  # writer() returned
            txn, vid, snap = what[1], what[2], what[3]
            self.returned.add(tid)
            self.open_writers.append(tid)
            if len(self.open_writers) > 1:
                self.bad("C12/mutex/two-open-write-transactions", f"writers {self.open_writers} hold open write transactions at once")
            if self.z._write_txn is not txn:
                self.bad("C12/mutex/returned-txn-is-not-write-txn", f"writer {tid} got a transaction that is not zone._write_txn")
            want = () if self.roles[tid] in REPLACEMENT else content_of(self.z.nodes)
            if tuple(snap) != want:
                self.bad("C12/serial/stale-snapshot", f"writer {tid} ({self.roles[tid]}) was given a private version {snap}, the zone is {content_of(self.z.nodes)}")
            if tid not in self.admitted:
                self.on_admit(tid)
            self.local[tid] = (vid, tuple(snap))
            self.emit(tid, "ret", f"/{vid}:{sl(snap)}")
        elif k == "wending":
            self.ending.add(tid)
            self.pre[tid] = (self.z.nodes, self.z._versions[-1] if self.z._versions else None)
        elif k == "wend":  # commit()/rollback() returned
            if tid in self.open_writers:
                self.bad("C12/mutex/end-without-release", f"writer {tid} ended its transaction without a lock hold")
                self.open_writers.remove(tid)
            self.ended.add(tid)
            self.ending.discard(tid)
        elif k == "rret":
            self.emit(tid, "rret", f"/{what[1]}:{sl(what[2])}")
            if self.z._write_txn is not None:
                self.hist["reader-admitted-during-open-write-txn"] = self.hist.get("reader-admitted-during-open-write-txn", 0) + 1
        elif k == "seen":
            self.reader_obs.append((tid, what[1], tuple(what[2]), tuple(what[3])))
            self.emit(tid, "seen", f"/{sl(what[3])}")

    def blocked(self, tid, what):
        if what[0] == "wait" and self.lock.holder == tid:
            self.bad("C12/readers-nonblocking/wait-inside-lock", f"thread {tid} blocks on event {what[1]} while holding the version lock")
        if what[0] == "acq" and what[2] in self.in_hook:
            kind = "reader" if self.roles[tid] in READERS else "writer"
            self.bad("C12/readers-nonblocking/blocked-by-hook",
                     f"{kind} {tid} blocks on the version lock while thread {what[2]} is inside the {self.in_hook[what[2]]} hook under that lock")
        if what[0] == "acq" and what[2] == tid:
            self.bad("C12/deadlock/self-deadlock", f"thread {tid} re-acquires the version lock it holds")
        if what[0] == "wait":
            self.blocked_on_wait.add(tid)
        self.emit(tid, "blk")
        self.hist["blocked." + what[0]] = self.hist.get("blocked." + what[0], 0) + 1

    # -- FIFO monitor, in the words of the property: admitted in the order they started waiting
    def on_enqueue(self, tid, ev):
        if tid in self.waiting:
            self.bad("C12/fifo/enqueued-twice", f"writer {tid} is in the waiter queue twice")
        self.waiting.append(tid)

    def on_admit(self, tid):
        if tid in self.admitted:
            return
        if tid in self.waiting:
            ahead = self.waiting[: self.waiting.index(tid)]
            self.waiting.remove(tid)
        else:
            ahead = list(self.waiting)
        if ahead:
            self.bad("C12/fifo/overtaken", f"writer {tid} admitted while writers {ahead} that started waiting earlier still wait")
        self.admitted.append(tid)


def run_schedule(roles, mode, chooser, max_steps=None, policy=None, zone_kind="plain"):
    """run one schedule on the implementation; returns a result dict"""
    saved = dns.versioned.threading
    res = {}
    if max_steps is None:
        # a thread of the unchanged code takes < 90 line steps (< 20 lock/event steps): anything far beyond is a livelock
        max_steps = (250 if mode == "line" else 60) * len(roles) + 200
    try:
        sch = S.Scheduler(chooser, mode=mode, traced=traced, max_steps=max_steps)
        dns.versioned.threading = S.ShimThreading(sch)
        zone = dns.btreezone.Zone("example.") if zone_kind == "btree" else dns.versioned.Zone("example.")
        lock = zone._version_lock
        obs = Observer(zone, lock, roles)
        sch.observer = obs
        # the public version-factory hooks: where the node map is copied (`_setup_version`) and frozen (commit).  Both
        # must run outside the version lock; the thread is parked there (a yield point) so that readers and further
        # writers get their chance while it is inside.
        wfac = zone.writable_version_factory or dns.zone.WritableVersion
        ifac = zone.immutable_version_factory or dns.zone.ImmutableVersion

        def hooked(what, inner):
            def hook(*a):
                me = sch.current()
                if me is None:
                    return inner(*a)
                sch._micro(me)
                if lock.holder == me.tid:
                    obs.bad(f"C12/readers-nonblocking/{what}-inside-lock",
                            f"thread {me.tid} runs the {what} hook (copy of the node map / user callback) while holding the version lock")
                if what == "setup":
                    sch.op(("setup",))
                obs.in_hook[me.tid] = what
                try:
                    sch.mark("hook-" + what, yield_here=True)
                    return inner(*a)
                finally:
                    obs.in_hook.pop(me.tid, None)
            return hook

        zone.writable_version_factory = hooked("setup", wfac)
        zone.immutable_version_factory = hooked("freeze", ifac)
        if policy:
            def prune_policy(z, version):
                obs.policy_calls += 1
                kind, k, exc = policy_parts(policy)
                hit = (kind == "always" or (kind == "kth" and obs.policy_calls == k)
                       or (kind == "readers" and len(z._readers) > 0))
                if hit:
                    me = sch.current()
                    obs.policy_raised(None if me is None else me.tid)
                    obs.note("pruning-policy-raised." + POLICY_RAISES[exc].__name__)
                    raise POLICY_RAISES[exc](policy_name(policy))
                return True

            zone.set_pruning_policy(prune_policy)

        def writer_prog(t, role):
            def prog():
                sch.mark("w-call")
                if role in REPLACEMENT:
                    txn = zone.writer(True) if t % 2 else zone.writer(replacement=True)  # positional / keyword
                else:
                    txn = zone.writer(False) if t % 3 == 2 else zone.writer()
                sch._micro(sch.current())
                sch.op(("ret", txn, txn.version.id, content_of(txn.version.nodes)))
                sch.mark("w-body")
                rds = txn.get(LOG, "TXT")
                cur = tuple(int(x) for x in rds[0].strings) if rds is not None else ()
                new = body_of(role, t, cur)
                route = ROLE_INFO[role][2]

                def body():
                    if ROLE_INFO[role][1] != "n":
                        txn.replace(LOG, rdataset_of(new))

                if route in ("commit", "rollback", "double"):
                    body()
                sch.mark("w-end")
                sch.op(("wending",))
                raised = False
                try:
                    if route == "commit":
                        txn.commit()
                    elif route == "rollback":
                        txn.rollback()
                    elif route == "with":
                        with txn:
                            body()
                    elif route == "with-exc":
                        exc = (Boom, KeyboardInterrupt, BodyAbort)[t % 3]
                        try:
                            with txn:
                                body()
                                raise exc()
                        except exc:
                            pass
                    else:  # double
                        try:
                            txn.commit()
                        except POLICY_EXC:
                            raised = True
                        for again in (txn.rollback, txn.commit):
                            try:
                                again()
                            except dns.transaction.AlreadyEnded:
                                pass
                            else:
                                obs.bad("C12/mutex/transaction-ended-twice", f"writer {t}: a second end of an ended transaction was accepted")
                except POLICY_EXC:
                    raised = True
                if raised != (t in obs.failing):
                    obs.bad("C12/commit-failure/exception-lost",
                            f"writer {t}: pruning policy raised during its commit={t in obs.failing}, commit raised it={raised}")
                sch._micro(sch.current())
                sch.op(("wend",))
                sch.mark("w-done")
            return prog

        def reader_prog(t, role):
            def prog():
                sch.mark("r-call")
                if role in LOOKUP:
                    what, k = LOOKUP[role]
                    try:
                        if what == "id":
                            r = zone.reader(k) if t % 2 else zone.reader(id=k)  # positional / keyword
                        else:
                            r = zone.reader(None, k) if t % 2 else zone.reader(serial=k)
                    except KeyError:
                        obs.lookup_failed.add(t)
                        sch._micro(sch.current())
                        sch.mark("r-done")
                        return
                    if what == "serial" or k == 0:
                        obs.bad("C12/readers/lookup-should-fail", f"reader {t}: reader({what}={k}) returned version {r.version.id} "
                                                                   f"although no version has that {what}")
                    elif r.version.id != k:
                        obs.bad("C12/readers/wrong-version", f"reader {t}: reader(id={k}) returned version {r.version.id}")
                else:
                    r = zone.reader()
                sch._micro(sch.current())
                sch.op(("rret", r.version.id, content_of(r.version.nodes)))
                sch.mark("r-body")
                rds = r.get(LOG, "TXT")
                seen = tuple(int(x) for x in rds[0].strings) if rds is not None else ()
                sch.op(("seen", r.version.id, content_of(r.version.nodes), seen))
                sch.mark("r-end")
                try:
                    if role == "rdw":
                        with r:
                            pass
                    else:
                        r.rollback()
                    if role == "rdd":
                        for again in (r.rollback, r.commit):
                            try:
                                again()
                            except dns.transaction.AlreadyEnded:
                                pass
                            except POLICY_EXC:
                                raise
                            except Exception as e:  # noqa: BLE001
                                obs.bad("C12/readers/ended-twice", f"reader {t}: a second end raised {type(e).__name__} instead of AlreadyEnded")
                            else:
                                obs.bad("C12/readers/ended-twice", f"reader {t}: a second end of an ended read transaction was accepted")
                except POLICY_EXC:
                    pass  # the policy raised inside _end_read's prune: the reader is unregistered, the lock released
                sch._micro(sch.current())
                sch.mark("r-done")
            return prog

        for t, role in enumerate(roles):
            sch.spawn(reader_prog(t, role) if role in READERS else writer_prog(t, role))
        sch.run()
        # ---- verdicts of the monitors
        fails = list(obs.fail)
        for mt in sch.threads:
            if mt.exc is not None:
                fails.append((f"C12/exception/{type(mt.exc).__name__}", f"thread {mt.tid} ({roles[mt.tid]}) raised {mt.exc!r}"))
        if sch.deadlock is not None:
            waiting_writers = [t for t, why in sch.deadlock if why and why[0] == "event"]
            sig = "C12/no-lost-wakeup/deadlock" if waiting_writers else "C12/deadlock/lock-never-released"
            fails.append((sig, f"no thread can run: {sch.deadlock}; open write txn={zone._write_txn is not None}, "
                               f"token={obs.evid(zone._write_event)}, queue={[obs.evid(e) for e in zone._write_waiters]}"))
        if sch.livelock:
            fails.append(("C12/livelock/step-limit", f"more than {max_steps} steps"))
        finished = sch.deadlock is None and not sch.livelock and all(mt.exc is None for mt in sch.threads)
        if finished:
            writers = [t for t, r in enumerate(roles) if r not in READERS]
            if sorted(obs.admitted) != writers:
                fails.append(("C12/admission/not-all-admitted", f"admitted {obs.admitted} of {writers}"))
            expect = ()
            hist = [()]
            for t in obs.admitted:
                if ROLE_INFO[roles[t]][0] and t not in obs.failing:
                    expect = body_of(roles[t], t, () if roles[t] in REPLACEMENT else expect)
                    hist.append(expect)
            got = content_of(zone.nodes)
            if not zone._versions:
                fails.append(("C12/serial/no-version-left", "the zone has no version at the end"))
            elif got != expect or content_of(zone._versions[-1].nodes) != expect:
                fails.append(("C12/serial/final-content", f"final zone {got}, serial application in admission order {obs.admitted} gives {expect}"))
            if zone._versions and zone._versions[-1].id != len(hist):
                fails.append(("C12/serial/version-id", f"last version id {zone._versions[-1].id}, {len(hist) - 1} commits"))
            if zone._write_txn is not None or zone._write_event is not None or len(zone._write_waiters) or len(zone._readers):
                fails.append(("C12/no-orphan/final-state", "write_txn/write_event/waiters/readers not empty at the end"))
            for (t, vid, vc, seen) in obs.reader_obs:
                if seen != vc or vid < 1 or vid > len(hist) or hist[vid - 1] != seen:
                    fails.append(("C12/readers-atomic/partial-or-unknown-version", f"reader {t} saw {seen} in version {vid}; committed history {hist}"))
        obs.emit(0, "fin")
        obs.states[-1] = "A" + sl(obs.admitted) + "C" + sl(obs.committed) + "D" + ("1" if finished else "0")
        res = {"model_roles": [("rdx" if t in obs.lookup_failed else ("rdi%d" % LOOKUP[r][1] if r in LOOKUP else (r + "!" if t in obs.failing else r)))
                               for t, r in enumerate(roles)], "recs": obs.recs, "states": obs.states, "fails": fails, "choices": list(sch.choices),
               "steps": sch.nsteps, "choice_points": sch.nchoice_points, "switches": sch.switches, "hist": obs.hist,
               "deadlock": sch.deadlock, "finished": finished, "sched": sch}
    finally:
        dns.versioned.threading = saved
    return res


def make_chooser(strategy, rng, nthreads):
    k = strategy[0]
    if k == "uniform":
        return S.RandomChooser(rng)
    if k == "sticky":
        return S.RandomChooser(rng, strategy[1], strategy[2])
    if k == "pct":
        return S.PctChooser(rng, nthreads, strategy[1], strategy[2])
    raise ValueError(strategy)


def eval_case(ctx: Ctx, c: dict, chooser=None):
    """one schedule: run, monitor (oracle), queue the trace for the model"""
    roles = c["roles"]
    mode = c.get("mode", "line")
    if chooser is None:
        if c.get("choices") is not None:
            chooser = S.ReplayChooser(c["choices"])
        else:
            chooser = make_chooser(tuple(c["strategy"]), Rng(c["seed"]), len(roles))
    r = run_schedule(roles, mode, chooser, policy=c.get("policy"), zone_kind=c.get("zone", "plain"))
    full = dict(c, choices=r["choices"])
    for k, v in r["hist"].items():
        ctx.count("step." + k, v)
    ctx.count("schedules." + mode)
    ctx.count("schedule.steps", r["steps"])
    ctx.count("schedule.choice-points", r["choice_points"])
    ctx.count("schedule.switches", r["switches"])
    op = ("c12.run " + ",".join(r["model_roles"]) + " @" + mode + "/" + sl(r["choices"]) + "/" + policy_name(c.get("policy"))
          + "/" + c.get("zone", "plain") + " " + " ".join(r["recs"]))
    ctx.corr(op, " ".join(r["states"]), full)
    seen = set()
    for sig, what in r["fails"]:
        if sig in seen:
            continue
        seen.add(sig)
        ctx.fail(sig, what, {"kind": "sched", "case": full})
    return r


def gen_roles(rng):
    if rng.chance(1, 14):
        # a long queue: 7-10 writers (bounded queues, position arithmetic), few readers
        nw = rng.range(7, 10)
        roles = [rng.choice(["wca", "wca", "wca", "wra", "wwa"]) for _ in range(nw)] + ["rd"] * rng.below(2)
        return rng.shuffle(roles)
    nw = rng.choice([2, 2, 3, 3, 3, 4, 4, 5])
    nr = rng.choice([0, 0, 1, 1, 2, 3])
    roles = ([rng.choice(["wca", "wca", "wca", "wcr", "wra", "wra", "wcn", "wwa", "wxa", "wda", "wcR", "wrR"]) for _ in range(nw)]
             + [rng.choice(["rd", "rd", "rd", "rdw", "rdd", "rdi1", "rdi2", "rdi0", "rds0"]) for _ in range(nr)])
    return rng.shuffle(roles)


STRATEGIES = [("uniform",), ("sticky", 3, 4), ("sticky", 15, 16), ("pct", 1, 300), ("pct", 2, 300), ("pct", 3, 400)]
BOUNDARY_ROLES = [
    ["wca", "wca"], ["wca", "wra"], ["wra", "wca"], ["wcn", "wca"], ["wca", "wca", "wca"], ["wra", "wra", "wca"],
    ["wca", "rd"], ["wca", "wca", "rd"], ["wca", "wcr", "rd", "rd"], ["wca", "wca", "wca", "wca", "wca", "rd", "rd", "rd"],
    ["wxa", "wca"], ["wxa", "wca", "wca"], ["wwa", "wwa"], ["wda", "wca"], ["wcn", "wca", "wca"], ["wca", "rdw", "rd"],
    ["wca"] * 8, ["wca", "wra"] * 4, ["wca", "rdd"], ["wca", "rdi1", "rdi2"], ["wca", "wca", "rdi2", "rd"], ["wca", "rdi0", "rds0"],
    ["wca", "wca", "wca", "wca"], ["wca", "wcR"], ["wcR", "wca", "rd"], ["wca", "wrR", "wca"], ["wca", "wcR", "wca", "rd"],
]


def nfail(ctx: Ctx) -> int:
    return sum(v for k, v in ctx.hist.items() if k.startswith("oracle.fail:"))


def enough(ctx: Ctx) -> bool:
    """stop exploring once plenty of failing schedules are in hand (never true on a tree that keeps the property)"""
    return nfail(ctx) >= 60


def generate(ctx: Ctx, n: int, rng):
    for i in range(n):
        if enough(ctx):
            ctx.count("generate.stopped-early-on-failures")
            return
        roles = rng.choice(BOUNDARY_ROLES) if rng.chance(1, 4) else gen_roles(rng)
        mode = "line" if rng.chance(3, 4) else "sync"
        strategy = rng.choice(STRATEGIES)
        if mode == "sync" and strategy[0] == "pct":
            strategy = ("pct", strategy[1], 40)
        c = {"kind": "sched", "roles": roles, "mode": mode, "strategy": list(strategy), "seed": rng.next() & 0xFFFFFFFF}
        if rng.chance(1, 5):
            c["zone"] = "btree"  # dns.btreezone.Zone: same admission code, its own version factories and node map
            ctx.count("zone.btree")
        if rng.chance(1, 4):
            # a user-supplied pruning policy that raises: always / on its k-th call / only while readers are open
            c["policy"] = list(rng.choice([["always"], ["always"], ["kth", 1], ["kth", 2], ["kth", 3], ["readers"], ["readers"]]))
            # half of them are interrupted by a BaseException that is not an Exception (custom, KeyboardInterrupt, GeneratorExit)
            if rng.chance(1, 2):
                c["policy"].append(rng.choice(["B", "B", "K", "G"]))
            ctx.count("policy." + c["policy"][0])
            ctx.count("policy.raises." + POLICY_RAISES[policy_parts(c["policy"])[2]].__name__)
        r = eval_case(ctx, c)
        ctx.case((tuple(roles), mode, tuple(r["choices"])), sample={"roles": roles, "mode": mode, "strategy": list(strategy), "steps": r["steps"]})


def malformed(ctx: Ctx, rng, n: int):
    """malformed stream: traces that are *not* executions of the protocol must be rejected by the model
    (guards the validator against accepting everything): a valid implementation trace with one record dropped,
    duplicated, swapped with its neighbour of another thread, or given to another thread."""
    for i in range(n):
        roles = gen_roles(rng)
        r = run_schedule(roles, "sync", S.RandomChooser(Rng(rng.next())))
        recs = list(r["recs"][:-1])
        if len(recs) < 4:
            continue
        k = rng.below(4)
        j = rng.below(len(recs) - 1)
        if k == 0:
            del recs[j]
        elif k == 1:
            recs.insert(j, recs[j])
        elif k == 2:
            t, lab = recs[j].split(":")
            recs[j] = f"{(int(t) + 1) % len(roles)}:{lab}"
        else:
            recs[j], recs[j + 1] = recs[j + 1], recs[j]
        out = core_run_model(ctx, "c12.run " + ",".join(roles) + " @malformed " + " ".join(recs))
        if out is None:
            return
        ctx.count("malformed." + ("rejected" if "!" in out else "accepted-equivalent"))
        if "!" not in out:
            # accepted: then it must be a genuine execution, i.e. commute to the same final state (a swap of independent
            # steps, a blk record that stays true ...).  Check the final shared state against the original.
            orig = r["states"][-2] if len(r["states"]) > 1 else ""
            if k in (0, 1, 2) and out.split(" ")[-1] != orig and not recs[j].endswith(":blk"):
                ctx.count("malformed.accepted-different")


def core_run_model(ctx, line):
    from harness.core import run_driver
    if not ctx.driver_ok:
        return None
    return run_driver(ctx.prop, [line])[0]


def exhaustive(ctx: Ctx, roles, mode, max_runs, bound=None, use_keys=True, policy=None):
    state = {}

    if enough(ctx):
        return 0, False

    def once(ch):
        c = {"kind": "sched", "roles": roles, "mode": mode}
        if policy:
            c["policy"] = policy
        r = eval_case(ctx, c, chooser=ch)
        ctx.case((tuple(roles), mode, tuple(r["choices"])), sample=None)
        state["last"] = r

    def keyfn(sch):
        z = sch.observer.z
        return (sch.observer.state(), sch.state_key(), tuple(sorted(sch.observer.ev_owner.items())),
                tuple(v.id for v in z._versions), tuple(sorted(r.version.id for r in z._readers)),
                tuple(sorted(sch.observer.local.items())), sch.observer.policy_calls, tuple(sorted(sch.observer.failing)))

    runs, complete = S.dfs(once, max_runs, keyfn=keyfn if use_keys else None, preemption_bound=bound,
                           stop_fn=lambda: nfail(ctx) >= 3)
    tag = f"dfs.{'+'.join(roles)}.{mode}" + (f".pb{bound}" if bound is not None else "") + (f".policy-{policy_name(policy)}" if policy else "")
    ctx.count(tag + ".runs", runs)
    ctx.count(tag + (".complete" if complete else ".budget-exhausted"))
    ctx.extra.setdefault("dfs", {})[tag] = {"runs": runs, "complete": complete}
    return runs, complete


def run(ctx: Ctx):
    for p in sorted(glob.glob(os.path.join(VERIF, "corpus", "C12", "*.json"))):
        c = json.load(open(p))
        eval_case(ctx, c)
        ctx.case(("corpus", os.path.basename(p)), sample=None)
        ctx.count("corpus")
    rng = ctx.rng
    # small exhaustive scopes also in the quick tier (sync granularity: every order of the lock/event operations)
    exhaustive(ctx, ["wca", "wca"], "sync", 150)
    exhaustive(ctx, ["wca", "wra"], "sync", 150)
    exhaustive(ctx, ["wca", "wca"], "line", 900)
    exhaustive(ctx, ["wca", "wca"], "sync", 150, policy=["always"])
    exhaustive(ctx, ["wca", "wca"], "sync", 150, policy=["always", "B"])
    exhaustive(ctx, ["wca", "wra", "rd"], "sync", 300, policy=["kth", 1, "K"], bound=1, use_keys=False)
    exhaustive(ctx, ["wca", "wca", "wca"], "sync", 400, policy=["kth", 2], bound=1, use_keys=False)
    generate(ctx, ctx.n(2600, 7000), rng)
    malformed(ctx, rng.fork(3), ctx.n(60, 600))
    if ctx.tier == "thorough":
        # exhaustive at line granularity (every interleaving of the source lines of the anchored functions; a state
        # seen before is not expanded again): 2 writers in all role mixes, 3 writers, 2 writers + 1 reader
        for roles in (["wca", "wca"], ["wca", "wra"], ["wra", "wca"], ["wcn", "wca"], ["wca", "rd"]):
            exhaustive(ctx, roles, "line", 20000)
        for roles in (["wca", "wca", "wca"], ["wca", "wra", "wca"], ["wra", "wra", "wca"], ["wca", "wca", "rd"], ["wra", "wca", "rd"]):
            exhaustive(ctx, roles, "sync", 20000)
        exhaustive(ctx, ["wca", "wca", "wca"], "line", 40000)
        exhaustive(ctx, ["wca", "wca", "rd"], "line", 60000)
        # beyond the exhaustive scopes: 4 writers, at most 2 preemptive switches, lock/event granularity
        exhaustive(ctx, ["wca", "wra", "wca", "wca"], "sync", 2000, bound=2, use_keys=False)


def search(ctx: Ctx):
    """failing-input search on the implementation: replay the disagreeing schedules, then a fresh larger budget
    and the exhaustive small scopes"""
    for m in ctx.mismatches[:30]:
        if m.case is not None:
            eval_case(ctx, m.case)
    exhaustive(ctx, ["wca", "wca"], "line", 3000)
    exhaustive(ctx, ["wca", "wca", "wca"], "sync", 3000)
    exhaustive(ctx, ["wca", "wca", "rd"], "sync", 2000)
    generate(ctx, ctx.n(3000, 30000), ctx.rng.fork(7))


def replay(ctx: Ctx, obj: dict):
    eval_case(ctx, obj["case"])
    return [f.what for f in ctx.failures]


def impl_of_op(op: str):
    """re-run the schedule recorded in the op line (`@mode/choices`) on the implementation; returns its state line"""
    toks = op.split(" ")
    roles = [x.rstrip("!") for x in toks[1].split(",")]
    if "rdx" in roles:
        raise ValueError("the op line does not say which lookup the failed reader made; use the replay file's case")
    parts = toks[2][1:].split("/")
    mode, ch, pol = parts[0], (parts[1] if len(parts) > 1 else ""), (parts[2] if len(parts) > 2 else "-")
    zk = parts[3] if len(parts) > 3 else "plain"
    choices = [] if ch in ("", "-") else [int(x) for x in ch.split(".")]
    r = run_schedule(roles, mode, S.ReplayChooser(choices), policy=policy_spec(pol), zone_kind=zk)
    return " ".join(r["states"])

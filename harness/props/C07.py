"""C07 — records and record sets have value semantics and exact set algebra.

Correspondence: dns.set.Set / dns.rdataset.Rdataset / dns.rrset.RRset / ImmutableRdataset (working tree) vs
lean/Model/SetAlg.lean + Model/Rdataset.lean on whole operation histories over four registers (ops c07.set, c07.rds),
and Rdata.__eq__ / _cmp vs the abstract record model (op c07.rd).
Oracle: set laws against Python's builtin set on canonical keys, first-insertion order, in-place = copying,
aliasing a op a, equality ignoring order, add refusal rules, singleton replacement, TTL = minimum of the TTLs merged
since the set was last found empty by a merge, value semantics of records (eq iff same class/type/canonical
encoding, eq => equal hash, order = octet order of the canonical encoding), immutability probes.
"""
import glob
import json
import os

import dns.exception
import dns.name
import dns.rdata
import dns.rdataclass
import dns.rdataset
import dns.rdatatype
import dns.rrset
import dns.set

from harness.core import Ctx, VERIF

try:
    from harness.core import Stalled
except ImportError:  # older core
    class Stalled(BaseException):
        pass

RULE = (
    "cases come from one SplitMix64 state: operation histories of length 5..40 over four registers, operations drawn "
    "from every public method of Set/Rdataset (add, remove, discard, pop, clear, update, update_ttl, the four *_update "
    "methods and the operator forms |= &= -= ^= +=, the four copying forms and | & - ^ +, copy, index/slice get and "
    "delete, issubset/issuperset/isdisjoint/==, match, ImmutableRdataset wrapping), operands aliased (a op a) in about "
    "one case in five; Set histories over integers 0..7; Rdataset/RRset histories over pools of real records per type "
    "(A, MX with case-variant and relative exchanges, TXT, CNAME and SOA singletons, RRSIG and SIG covering A / NS / MX and the boundary type 0, CH TXT), "
    "TTLs from {0,1,5,60,300,3600,2^31-1,2^31,2^32-1}; every record also through other object routes (its GenericRdata twin via "
    "to_generic and via GenericRdata(class, type, wire), a re-parsed typed instance, a subclass instance), in the pools of "
    "the set histories and in the pair/triple universe; record pairs/triples from the same pools plus case-swapped texts of every "
    "type of tests/example; a case is non-trivial if its key (kind + script) is new"
)
TRUSTED_BASE = [
    "Python dict insertion-order semantics (item in d, d[k]=None on an absent key appends, del, popitem LIFO, d == d')",
    "abstraction of a record to (class, type, relative flag, to_digestable(root)); hash(bytes) is a parameter",
]
ASSUMPTIONS = [
    "immutability is an exhaustive enumeration of a finite surface regenerated from the code on every run "
    "(harness/extract_C07.py -> Generated/C07.lean, closed by decide), not a proof about Python objects: partial",
    "the canonical encoding itself (which embedded names are lower-cased) belongs to C15; here only that ==, hash and "
    "< are functions of it",
    "TSIG/TKEY/OPT have no specimen in the field-type probe (slot rebinding is probed for every class)",
    "RRset owner name / deleting (RRset.__eq__, match, full_match, _clone), the module-level constructors, Rdata.replace, "
    "copy/pickle and dns.immutable.constify are checked by the direct oracle only (not modelled)",
]

# Singleton types, pinned here independently of dns.rdatatype._singletons (the table under test):
# CNAME 5 (RFC 1034 3.6.2, RFC 2181 10.1: at most one CNAME at a name), SOA 6 (RFC 1035 / RFC 2181 6.1: one per zone apex),
# NXT 30 (RFC 2535 5.1: one NXT per name), DNAME 39 (RFC 6672 2.4: at most one DNAME at a name), NSEC 47 (RFC 4035 2.3:
# one NSEC per owner name).  This is the list of the pinned tree's documentation of is_singleton().
SINGLETONS = frozenset({5, 6, 30, 39, 47})
SIG_TYPES = frozenset({24, 46})  # SIG, RRSIG: the types whose records carry a covered type (RFC 2535 4.1, RFC 4034 3.1)

TTLS = [0, 1, 5, 60, 300, 3600, 2 ** 31 - 1, 2 ** 31, 2 ** 32 - 1]


# ------------------------------------------------------------------------------------------------
# record pools
# ------------------------------------------------------------------------------------------------
_POOLS = None


def rd_text(c, t, text, origin=dns.name.root, relativize=False):
    return dns.rdata.from_text(c, t, text, origin=origin, relativize=relativize)


def pools():
    """type label -> list of real records"""
    global _POOLS
    if _POOLS is not None:
        return _POOLS
    P = {}
    P["A"] = [rd_text("IN", "A", f"10.0.0.{i}") for i in (1, 2, 3, 4, 5)]
    mx = ["10 mail.example.", "10 MAIL.Example.", "10 mail2.example.", "20 mail.example.", "10 mAIL2.EXAMPLE."]
    P["MX"] = [rd_text("IN", "MX", x) for x in mx]
    P["MX"] += [rd_text("IN", "MX", "10 mail", origin=None), rd_text("IN", "MX", "10 MAIL", origin=None),
                rd_text("IN", "MX", "10 mail2", origin=None), rd_text("IN", "MX", "10 mail."), rd_text("IN", "MX", "10 Mail2.")]
    P["TXT"] = [rd_text("IN", "TXT", x) for x in ('"a"', '"A"', '"a" "b"', '"ab"', '""')]
    P["CNAME"] = [rd_text("IN", "CNAME", x) for x in ("a.example.", "A.EXAMPLE.", "b.example.", "c.example.")]
    P["SOA"] = [rd_text("IN", "SOA", x) for x in ("ns.example. root.example. 1 2 3 4 5", "NS.example. ROOT.example. 1 2 3 4 5",
                                                 "ns.example. root.example. 2 2 3 4 5")]
    sig = "{} 8 2 3600 20300101000000 20200101000000 12345 example. AAAA"
    P["RRSIG"] = [rd_text("IN", "RRSIG", sig.format("A")), rd_text("IN", "RRSIG", sig.format("A").replace("12345", "12346")),
                  rd_text("IN", "RRSIG", sig.format("NS")), rd_text("IN", "RRSIG", sig.format("NS").replace("example.", "EXAMPLE.")),
                  rd_text("IN", "RRSIG", sig.format("MX")),
                  # the boundary value of the type-covered field: 0 (TYPE0 / NONE), which is also "no covered type yet"
                  rd_text("IN", "RRSIG", sig.format("TYPE0")), rd_text("IN", "RRSIG", sig.format("TYPE0").replace("12345", "12347"))]
    P["SIG"] = [rd_text("IN", "SIG", sig.format(t_)) for t_ in ("A", "NS", "TYPE0", "A")]
    P["SIG"][3] = rd_text("IN", "SIG", sig.format("A").replace("12345", "12346"))
    P["CHTXT"] = [rd_text("CH", "TXT", x) for x in ('"a"', '"b"')]
    P["DNAME"] = [rd_text("IN", "DNAME", x) for x in ("a.example.", "A.EXAMPLE.", "b.example.", "c.example.")]
    P["NSEC"] = [rd_text("IN", "NSEC", x) for x in ("a.example. A NS", "b.example. A NS", "a.example. A MX", "c.example. TXT")]
    P["NXT"] = [dns.rdata.GenericRdata(1, 30, bytes([1, x, 0x40])) for x in (97, 98, 99, 100)]  # no typed class: generic records
    for lab in ("A", "MX", "TXT", "CNAME", "SOA", "RRSIG"):
        # the same records through other object routes (GenericRdata twins, re-parsed and subclass instances)
        P[lab] = P[lab] + other_routes(P[lab][0]) + other_routes(P[lab][1])[:1] + other_routes(P[lab][2])[-1:]
    _POOLS = P
    return P


POOL_META = {  # label -> (rdclass, rdtype)
    "A": (1, 1), "MX": (1, 15), "TXT": (1, 16), "CNAME": (1, 5), "SOA": (1, 6), "RRSIG": (1, 46), "SIG": (1, 24), "CHTXT": (3, 16), "DNAME": (1, 39), "NSEC": (1, 47), "NXT": (1, 30),
}


_SUBCLS = {}


def other_routes(rd):
    """the same record reached through other object routes: its GenericRdata twin (to_generic and direct construction
    from the wire form), a freshly parsed typed instance, an instance of a subclass of its class"""
    import inspect

    out = []
    try:
        wire = rd.to_wire()
    except Exception:  # a relative name without origin
        wire = None
    if wire is not None:
        makers = [lambda: dns.rdata.from_wire(rd.rdclass, rd.rdtype, wire, 0, len(wire))]
        if int(rd.rdtype) not in (24, 46):
            # (GenericRdata.covers() is NONE whatever the wire says, so generic twins of SIG/RRSIG are outside the model)
            makers = [lambda: rd.to_generic(), lambda: dns.rdata.GenericRdata(rd.rdclass, rd.rdtype, wire)] + makers
        for mk in makers:
            try:
                out.append(mk())
            except Exception:
                pass
    cls = type(rd)
    try:
        params = [p_ for p_ in inspect.signature(cls.__init__).parameters if p_ != "self"]
        if all(hasattr(rd, p_) for p_ in params):
            if cls not in _SUBCLS:
                sub = type(cls.__name__ + "Sub", (cls,), {"__slots__": (), "__module__": __name__})
                globals()[sub.__name__] = sub  # picklable
                _SUBCLS[cls] = sub
            out.append(_SUBCLS[cls](*[getattr(rd, p_) for p_ in params]))
    except Exception:
        pass
    return out


def rd_rel(rd) -> bool:
    try:
        rd.to_digestable()
        return False
    except dns.name.NeedAbsoluteNameOrOrigin:
        return True


def rd_key(rd):
    return (int(rd.rdclass), int(rd.rdtype), rd_rel(rd), rd.to_digestable(dns.name.root))


def rd_lit(rd) -> str:
    c, t, r, d = rd_key(rd)
    return f"{c}:{t}:{1 if r else 0}:{d.hex() if d else '-'}"


# ------------------------------------------------------------------------------------------------
# Set histories over integers
# ------------------------------------------------------------------------------------------------
SET_OPS = ["new", "upd", "add", "add", "add", "rm", "disc", "pop", "clear", "cp", "get", "del", "gets", "dels",
           "uu", "iu", "du", "sdu", "uu", "iu", "du", "sdu", "un", "in", "df", "sd", "sub", "sup", "dj", "eq",
           "ior", "iand", "isub", "ixor", "iadd", "or", "and", "minus", "xor", "plus"]
ALIAS = {"ior": "uu", "iand": "iu", "isub": "du", "ixor": "sdu", "iadd": "uu", "or": "un", "and": "in", "minus": "df",
         "xor": "sd", "plus": "un"}


def gen_set_script(rng):
    n = rng.range(5, 40)
    script = []
    # start with some content
    for r in range(rng.range(1, 3)):
        xs = [rng.below(8) for _ in range(rng.below(7))]
        script.append(["new", r, xs])
    for _ in range(n):
        op = rng.choice(SET_OPS)
        a = rng.below(4)
        b = a if rng.chance(1, 5) else rng.below(4)
        c = rng.below(4)
        if op in ("new", "upd"):
            script.append([op, a, [rng.below(8) for _ in range(rng.below(6))]])
        elif op in ("add", "rm", "disc"):
            script.append([op, a, rng.below(8)])
        elif op in ("pop", "clear"):
            script.append([op, a])
        elif op == "cp":
            script.append([op, c, a])
        elif op in ("get", "del"):
            script.append([op, a, rng.below(7)])
        elif op in ("gets", "dels"):
            script.append([op, a, rng.below(4), rng.choice([None, None, 0, 1, 2, 3, 5, 9]), rng.choice([1, 1, 1, 2, 3])])
        elif op in ("un", "in", "df", "sd", "or", "and", "minus", "xor", "plus"):
            script.append([op, c, a, b])
        else:
            script.append([op, a, b])
    return script


def show_nats(xs):
    xs = list(xs)
    return ",".join(str(x) for x in xs) if xs else "-"


def script_tokens(script, lit=str):
    toks = []
    for st in script:
        op = ALIAS.get(st[0], st[0])
        toks.append(op)
        for x in st[1:]:
            if isinstance(x, list):
                toks.append(str(len(x)))
                toks += [lit(y) for y in x]
            elif x is None:
                toks.append("-")
            else:
                toks.append(lit(x) if not isinstance(x, int) else str(x))
    return toks


class RefSet:
    """reference: insertion-ordered list + builtin set (what the property says a record set is)"""

    def __init__(self, items=()):
        self.l = []
        for x in items:
            self.add(x)

    def add(self, x):
        if x not in self.l:
            self.l.append(x)

    def copy(self):
        r = RefSet()
        r.l = list(self.l)
        return r


def ref_binop(op, a, b):
    """expected list (first-insertion order) of a op b from set theory"""
    sa, sb = set(a), set(b)
    if op == "un":
        return list(a) + [x for x in b if x not in sa]
    if op == "in":
        return [x for x in a if x in sb]
    if op == "df":
        return [x for x in a if x not in sb]
    if op == "sd":
        return [x for x in a if x not in sb] + [x for x in b if x not in sa]
    raise ValueError(op)


def run_set_script(ctx, script, rep):
    regs = [dns.set.Set() for _ in range(4)]
    trace = []

    def fail(sig, what):
        ctx.fail(sig, what + f" (step {len(trace)}: {st!r})", rep)

    for st in script:
        op0 = st[0]
        op = ALIAS.get(op0, op0)
        try:
            if op in ("new", "upd"):
                r, xs = st[1], st[2]
                before = list(regs[r]) if op == "upd" else []
                if op == "new":
                    regs[r] = dns.set.Set(xs)
                else:
                    regs[r].update(xs)
                exp = ref_binop("un", before, list(dict.fromkeys(xs)))
                if list(regs[r]) != exp:
                    fail("C07/Set/update/first-insertion-order", f"update({xs}) on {before} gave {list(regs[r])}, expected {exp}")
                trace.append("ok:" + show_nats(regs[r]))
            elif op == "add":
                r, x = st[1], st[2]
                before = list(regs[r])
                regs[r].add(x)
                exp = before if x in before else before + [x]
                if list(regs[r]) != exp:
                    fail("C07/Set/add/duplicates-collapse", f"add({x}) on {before} gave {list(regs[r])}")
                trace.append("ok:" + show_nats(regs[r]))
            elif op == "rm":
                r, x = st[1], st[2]
                before = list(regs[r])
                try:
                    regs[r].remove(x)
                    if x not in before or list(regs[r]) != [y for y in before if y != x]:
                        fail("C07/Set/remove/spec", f"remove({x}) on {before} gave {list(regs[r])}")
                    trace.append("ok:" + show_nats(regs[r]))
                except ValueError:
                    if x in before or list(regs[r]) != before:
                        fail("C07/Set/remove/spec", f"remove({x}) on {before} raised ValueError")
                    trace.append("err ValueError:" + show_nats(regs[r]))
            elif op == "disc":
                r, x = st[1], st[2]
                before = list(regs[r])
                regs[r].discard(x)
                if list(regs[r]) != [y for y in before if y != x]:
                    fail("C07/Set/discard/spec", f"discard({x}) on {before} gave {list(regs[r])}")
                trace.append("ok:" + show_nats(regs[r]))
            elif op == "pop":
                r = st[1]
                before = list(regs[r])
                try:
                    x = regs[r].pop()
                    if x not in before or sorted(list(regs[r]) + [x]) != sorted(before):
                        fail("C07/Set/pop/spec", f"pop() on {before} returned {x} leaving {list(regs[r])}")
                    trace.append(f"ok {x}:" + show_nats(regs[r]))
                except KeyError:
                    if before:
                        fail("C07/Set/pop/spec", f"pop() on {before} raised KeyError")
                    trace.append("err KeyError:" + show_nats(regs[r]))
            elif op == "clear":
                regs[st[1]].clear()
                trace.append("ok:" + show_nats(regs[st[1]]))
            elif op == "cp":
                c, a = st[1], st[2]
                new = regs[a].copy()
                if new is regs[a] or list(new) != list(regs[a]):
                    fail("C07/Set/copy/spec", "copy() is not a fresh equal set")
                regs[c] = new
                trace.append("ok:" + show_nats(regs[c]))
            elif op == "get":
                r, i = st[1], st[2]
                try:
                    x = regs[r][i]
                    if list(regs[r])[i] != x:
                        fail("C07/Set/getitem/order", f"[{i}] gave {x}")
                    trace.append(f"ok {x}")
                except (StopIteration, IndexError):
                    trace.append("err StopIteration")
            elif op == "del":
                r, i = st[1], st[2]
                before = list(regs[r])
                try:
                    del regs[r][i]
                    if list(regs[r]) != before[:i] + before[i + 1:]:
                        fail("C07/Set/delitem/spec", f"del [{i}] on {before} gave {list(regs[r])}")
                    trace.append("ok:" + show_nats(regs[r]))
                except (StopIteration, IndexError):
                    trace.append("err StopIteration:" + show_nats(regs[r]))
            elif op in ("gets", "dels"):
                r, a, b, step = st[1], st[2], st[3], st[4]
                before = list(regs[r])
                sl = slice(a, b, step)
                if op == "gets":
                    got = regs[r][sl]
                    if list(got) != before[sl]:
                        fail("C07/Set/getitem/slice", f"[{a}:{b}:{step}] on {before} gave {got}")
                    trace.append("ok " + show_nats(got))
                else:
                    del regs[r][sl]
                    gone = set(before[sl])
                    if list(regs[r]) != [y for y in before if y not in gone]:
                        fail("C07/Set/delitem/slice", f"del [{a}:{b}:{step}] on {before} gave {list(regs[r])}")
                    trace.append("ok:" + show_nats(regs[r]))
            elif op in ("uu", "iu", "du", "sdu"):
                a, b = st[1], st[2]
                A, B = list(regs[a]), list(regs[b])
                bop = {"uu": "un", "iu": "in", "du": "df", "sdu": "sd"}[op]
                if op0 in ("ior", "iand", "isub", "ixor", "iadd"):
                    x = regs[a]
                    if op0 == "ior":
                        x |= regs[b]
                    elif op0 == "iand":
                        x &= regs[b]
                    elif op0 == "isub":
                        x -= regs[b]
                    elif op0 == "ixor":
                        x ^= regs[b]
                    else:
                        x += regs[b]
                    if x is not regs[a]:
                        fail("C07/Set/inplace-operator/identity", f"{op0} did not return self")
                else:
                    getattr(regs[a], {"uu": "union_update", "iu": "intersection_update", "du": "difference_update",
                                      "sdu": "symmetric_difference_update"}[op])(regs[b])
                exp = ref_binop(bop, A, B)
                if set(regs[a]) != set(exp) or len(regs[a]) != len(exp):
                    fail(f"C07/Set/{op}/set-theory" + ("/self-alias" if a == b else ""), f"{A} {op} {B} gave {list(regs[a])}, set theory says {exp}")
                elif list(regs[a]) != exp:
                    fail(f"C07/Set/{op}/first-insertion-order", f"{A} {op} {B} gave {list(regs[a])}, expected order {exp}")
                if a != b and list(regs[b]) != B:
                    fail(f"C07/Set/{op}/other-operand-changed", f"other operand changed to {list(regs[b])}")
                trace.append("ok:" + show_nats(regs[a]))
            elif op in ("un", "in", "df", "sd"):
                c, a, b = st[1], st[2], st[3]
                A, B = list(regs[a]), list(regs[b])
                if op0 in ("or", "and", "minus", "xor", "plus"):
                    new = {"or": lambda x, y: x | y, "and": lambda x, y: x & y, "minus": lambda x, y: x - y,
                           "xor": lambda x, y: x ^ y, "plus": lambda x, y: x + y}[op0](regs[a], regs[b])
                else:
                    new = getattr(regs[a], {"un": "union", "in": "intersection", "df": "difference", "sd": "symmetric_difference"}[op])(regs[b])
                exp = ref_binop(op, A, B)
                if set(new) != set(exp) or len(new) != len(exp):
                    fail(f"C07/Set/{op}/set-theory" + ("/self-alias" if a == b else ""), f"{A} {op} {B} gave {list(new)}, set theory says {exp}")
                elif list(new) != exp:
                    fail(f"C07/Set/{op}/first-insertion-order", f"{A} {op} {B} gave {list(new)}, expected order {exp}")
                if list(regs[a]) != A or list(regs[b]) != B or new is regs[a] or new is regs[b]:
                    fail(f"C07/Set/{op}/operands-changed", "a copying form changed or returned an operand")
                # in-place form on a clone agrees with the copying form
                cl = regs[a].copy()
                getattr(cl, {"un": "union_update", "in": "intersection_update", "df": "difference_update",
                             "sd": "symmetric_difference_update"}[op])(regs[b])
                if list(cl) != list(new):
                    fail(f"C07/Set/{op}/inplace-vs-copying", f"in-place {list(cl)} vs copying {list(new)}")
                regs[c] = new
                trace.append("ok:" + show_nats(regs[c]))
            elif op in ("sub", "sup", "dj", "eq"):
                a, b = st[1], st[2]
                A, B = set(regs[a]), set(regs[b])
                if op == "sub":
                    got, exp = regs[a].issubset(regs[b]), A <= B
                elif op == "sup":
                    got, exp = regs[a].issuperset(regs[b]), A >= B
                elif op == "dj":
                    got, exp = regs[a].isdisjoint(regs[b]), A.isdisjoint(B)
                else:
                    got, exp = regs[a] == regs[b], A == B
                    if (regs[a] != regs[b]) == got:
                        fail("C07/Set/ne/spec", "!= is not the negation of ==")
                if bool(got) != exp:
                    fail(f"C07/Set/{op}/set-theory", f"{list(regs[a])} {op} {list(regs[b])} gave {got}")
                trace.append("true" if got else "false")
            else:
                raise ValueError(op)
        except (dns.exception.DNSException, ValueError, KeyError, TypeError, AttributeError, RuntimeError, StopIteration) as e:
            fail("C07/Set/foreign-exception:" + type(e).__name__, f"{type(e).__name__}: {e}")
            trace.append("FOREIGN " + type(e).__name__)
            break
        for r in regs:
            if len(set(r)) != len(list(r)):
                fail("C07/Set/duplicates", f"duplicates in {list(r)}")
    return trace


# ------------------------------------------------------------------------------------------------
# Rdataset histories
# ------------------------------------------------------------------------------------------------
RDS_OPS = ["add", "add", "add", "add", "ttl", "rm", "disc", "pop", "clear", "del", "dels", "cp", "imm", "match",
           "uu", "iu", "du", "sdu", "upd", "uu", "iu", "upd", "un", "in", "df", "sd", "sub", "sup", "dj", "eq", "new",
           "ior", "iand", "isub", "ixor", "iadd", "or", "and", "minus", "xor", "plus"]


def gen_rds_script(rng):
    P = pools()
    main = rng.choice(["A", "A", "MX", "MX", "TXT", "CNAME", "SOA", "RRSIG", "RRSIG", "SIG", "DNAME", "NSEC", "NXT"])
    others = [main, main, main, main, rng.choice(list(P))]
    script = []
    flavor = rng.choice(["rds", "rds", "rrset", "mixed"])
    for r in range(4):
        lab = rng.choice(others)
        c, t = POOL_META[lab]
        cov = 0
        if lab in ("RRSIG", "SIG") and rng.chance(1, 2):
            cov = rng.choice([1, 2, 15, 0])
        script.append(["new", r, c, t, cov, rng.choice(TTLS)])
    for r in range(4):
        for _ in range(rng.below(5)):
            script.append(["add", r, [main, rng.below(len(P[main]))], rng.choice(TTLS + [None, None])])
    n = rng.range(5, 40)
    for _ in range(n):
        op = rng.choice(RDS_OPS)
        a = rng.below(4)
        b = a if rng.chance(1, 5) else rng.below(4)
        c = rng.below(4)
        lab = main if rng.chance(9, 10) else rng.choice(list(P))
        rd = [lab, rng.below(len(P[lab]))]
        if op == "new":
            l2 = rng.choice(others)
            cc, tt = POOL_META[l2]
            script.append(["new", a, cc, tt, 0, rng.choice(TTLS)])
        elif op == "add":
            script.append(["add", a, rd, rng.choice(TTLS + [None, None, None])])
        elif op == "ttl":
            script.append(["ttl", a, rng.choice(TTLS)])
        elif op in ("rm", "disc"):
            script.append([op, a, rd])
        elif op in ("pop", "clear"):
            script.append([op, a])
        elif op == "del":
            script.append([op, a, rng.below(5)])
        elif op == "dels":
            script.append([op, a, rng.below(3), rng.choice([None, None, 1, 2, 4]), rng.choice([1, 1, 2])])
        elif op in ("cp", "imm"):
            script.append([op, c, a])
        elif op == "match":
            cc, tt = POOL_META[rng.choice(others)]
            script.append([op, a, cc, tt, rng.choice([0, 0, 1, 2])])
        elif op in ("un", "in", "df", "sd", "or", "and", "minus", "xor", "plus"):
            script.append([op, c, a, b])
        else:
            script.append([op, a, b])
    return {"flavor": flavor, "script": script}


def rds_state(r):
    imm = "I" if isinstance(r, dns.rdataset.ImmutableRdataset) else "M"
    items = ";".join(rd_lit(x) for x in r) if len(r) else "-"
    return f"{int(r.rdclass)}/{int(r.rdtype)}/{int(r.covers)}/{r.ttl}/{imm}/{items}"


def rds_snapshot(r):
    return (int(r.rdclass), int(r.rdtype), int(r.covers), r.ttl, tuple(id(x) for x in r.items))


def new_rds(flavor, c, t, cov, ttl, idx):
    if flavor == "rrset" or (flavor == "mixed" and (idx + c + t + ttl) % 2 == 0):
        r = dns.rrset.RRset(dns.name.from_text(f"n{idx}.example."), c, t, cov)
        r.ttl = ttl
        return r
    return dns.rdataset.Rdataset(c, t, cov, ttl)


def rds_tokens(script):
    P = pools()

    def lit(x):
        return rd_lit(P[x[0]][x[1]])

    toks = []
    for st in script:
        op = "duo" if st[0] == "isub" else ALIAS.get(st[0], st[0])
        toks.append(op)
        for x in st[1:]:
            if isinstance(x, list):
                toks.append(lit(x))
            elif x is None:
                toks.append("-")
            else:
                toks.append(str(x))
    return toks


def run_rds_script(ctx, case, rep):
    P = pools()
    flavor, script = case["flavor"], case["script"]
    regs = [dns.rdataset.Rdataset(1, 1, 0, 0) for _ in range(4)]
    ghost = [[0] for _ in range(4)]  # TTLs merged since the register was last found empty by a merge
    trace = []
    singletons = SINGLETONS

    def is_imm(r):
        return isinstance(regs[r], dns.rdataset.ImmutableRdataset)

    def fail(sig, what):
        ctx.fail(sig, what + f" (step {len(trace)}: {st!r})", rep)

    def merge(r, t, was_empty):
        ghost[r] = [t] if was_empty else ghost[r] + [t]

    def keys(r):
        return [rd_key(x) for x in regs[r]]

    def status(e):
        if isinstance(e, dns.rdataset.IncompatibleTypes):
            return "IncompatibleTypes"
        if isinstance(e, dns.rdataset.DifferingCovers):
            return "DifferingCovers"
        if isinstance(e, ValueError):
            return "ValueError"
        if isinstance(e, KeyError):
            return "KeyError"
        if isinstance(e, StopIteration):
            return "StopIteration"
        return "FOREIGN " + type(e).__name__

    for st in script:
        op0 = st[0]
        op = ALIAS.get(op0, op0)
        tgt = st[1]
        snap = [rds_snapshot(x) for x in regs]
        imm_before = is_imm(tgt)
        mutating = op in ("add", "ttl", "rm", "disc", "pop", "clear", "del", "dels", "uu", "iu", "du", "sdu", "upd")
        out = None
        try:
            if op == "new":
                r, c, t, cov, ttl = st[1:]
                regs[r] = new_rds(flavor, c, t, cov, ttl, r)
                ghost[r] = [ttl]
                out = "ok:" + rds_state(regs[r])
            elif op == "add":
                r, rdref, ttl = st[1], st[2], st[3]
                rd = P[rdref[0]][rdref[1]]
                R = regs[r]
                before = list(R)
                bk = keys(r)
                was_empty = len(R) == 0
                compatible = int(R.rdclass) == int(rd.rdclass) and int(R.rdtype) == int(rd.rdtype)
                cov_before = int(R.covers)
                try:
                    R.add(rd, ttl)
                    err = None
                except (dns.rdataset.IncompatibleTypes, dns.rdataset.DifferingCovers) as e:
                    err = e
                if not imm_before:
                    if compatible and ttl is not None:
                        merge(r, ttl, was_empty)
                    if not compatible:
                        if not isinstance(err, dns.rdataset.IncompatibleTypes) or rds_snapshot(R) != snap[r]:
                            fail("C07/Rdataset/add/refuses-other-class-or-type", f"add of {rd_lit(rd)} to {rds_state(R)}: {err!r}")
                    elif int(R.rdtype) in (24, 46) and not (was_empty and cov_before == 0) and cov_before != int(rd.covers()):
                        if not isinstance(err, dns.rdataset.DifferingCovers) or keys(r) != bk:
                            fail("C07/Rdataset/add/refuses-other-covers", f"add of {rd_lit(rd)} (covers {int(rd.covers())}) to {rds_state(R)}: {err!r}")
                    elif err is not None:
                        fail("C07/Rdataset/add/raises", f"add of {rd_lit(rd)} raised {err!r}")
                    elif int(rd.rdtype) in singletons:
                        if keys(r) != [rd_key(rd)]:
                            fail("C07/Rdataset/add/singleton-keeps-newest", f"after add of {rd_lit(rd)}: {rds_state(R)}")
                    else:
                        exp = bk if rd_key(rd) in bk else bk + [rd_key(rd)]
                        if keys(r) != exp:
                            fail("C07/Rdataset/add/duplicates-collapse", f"after add of {rd_lit(rd)}: {rds_state(R)}")
                        if int(R.rdtype) in (24, 46) and int(R.covers) != int(rd.covers()):
                            fail("C07/Rdataset/add/covers", f"covers {int(R.covers)} after adding a signature covering {int(rd.covers())}")
                out = ("ok" if err is None else "err " + status(err)) + ":" + rds_state(R)
            elif op == "ttl":
                r, t = st[1], st[2]
                was_empty = len(regs[r]) == 0
                regs[r].update_ttl(t)
                merge(r, t, was_empty)
                out = "ok:" + rds_state(regs[r])
            elif op in ("rm", "disc"):
                r, rdref = st[1], st[2]
                rd = P[rdref[0]][rdref[1]]
                bk = keys(r)
                try:
                    (regs[r].remove if op == "rm" else regs[r].discard)(rd)
                    if keys(r) != [k for k in bk if k != rd_key(rd)] or (op == "rm" and rd_key(rd) not in bk):
                        fail(f"C07/Rdataset/{op}/spec", f"{op}({rd_lit(rd)}) gave {rds_state(regs[r])}")
                    out = "ok:" + rds_state(regs[r])
                except ValueError as e:
                    if rd_key(rd) in bk:
                        fail(f"C07/Rdataset/{op}/spec", f"{op}({rd_lit(rd)}) raised ValueError although present")
                    out = "err ValueError:" + rds_state(regs[r])
            elif op == "pop":
                r = st[1]
                try:
                    x = regs[r].pop()
                    out = f"ok {rd_lit(x)}:" + rds_state(regs[r])
                except KeyError:
                    out = "err KeyError:" + rds_state(regs[r])
            elif op == "clear":
                regs[st[1]].clear()
                out = "ok:" + rds_state(regs[st[1]])
            elif op == "del":
                r, i = st[1], st[2]
                bk = keys(r)
                try:
                    del regs[r][i]
                    if keys(r) != bk[:i] + bk[i + 1:]:
                        fail("C07/Rdataset/delitem/spec", f"del [{i}] gave {rds_state(regs[r])}")
                    out = "ok:" + rds_state(regs[r])
                except (StopIteration, IndexError):
                    out = "err StopIteration:" + rds_state(regs[r])
            elif op == "dels":
                r, a, b, step = st[1:]
                del regs[r][slice(a, b, step)]
                out = "ok:" + rds_state(regs[r])
            elif op == "cp":
                c, a = st[1], st[2]
                new = regs[a].copy()
                if new is regs[a] or rds_state(new) != rds_state(regs[a]) or not (new == regs[a]):
                    fail("C07/Rdataset/copy/spec", f"copy of {rds_state(regs[a])} is {rds_state(new)}")
                regs[c] = new
                ghost[c] = list(ghost[a])
                out = "ok:" + rds_state(new)
            elif op == "imm":
                c, a = st[1], st[2]
                new = dns.rdataset.ImmutableRdataset(regs[a])
                regs[c] = new
                ghost[c] = list(ghost[a])
                out = "ok:" + rds_state(new)
            elif op == "match":
                r, c, t, cov = st[1:]
                got = regs[r].match(c, t, cov)
                if bool(got) != ((int(regs[r].rdclass), int(regs[r].rdtype), int(regs[r].covers)) == (c, t, cov)):
                    fail("C07/Rdataset/match/spec", f"match({c},{t},{cov}) on {rds_state(regs[r])} gave {got}")
                out = "true" if got else "false"
            elif op in ("uu", "iu", "du", "sdu", "upd"):
                a, b = st[1], st[2]
                A, B = regs[a], regs[b]
                ak, bkk = keys(a), keys(b)
                was_empty = len(A) == 0
                other_ttl = B.ttl
                same_type = (int(A.rdclass), int(A.rdtype)) == (int(B.rdclass), int(B.rdtype))
                bop = {"uu": "un", "iu": "in", "du": "df", "sdu": "sd", "upd": "un"}[op]
                try:
                    if op0 == "ior":
                        A |= B
                    elif op0 == "iand":
                        A &= B
                    elif op0 == "isub":
                        A -= B
                    elif op0 == "ixor":
                        A ^= B
                    elif op0 == "iadd":
                        A += B
                    else:
                        getattr(A, {"uu": "union_update", "iu": "intersection_update", "du": "difference_update",
                                    "sdu": "symmetric_difference_update", "upd": "update"}[op])(B)
                    err = None
                except (dns.rdataset.IncompatibleTypes, dns.rdataset.DifferingCovers) as e:
                    err = e
                if not imm_before:
                    if op in ("uu", "iu", "upd") or (op == "sdu" and a != b):
                        merge(a, other_ttl, was_empty)
                    plain = int(A.rdtype) not in singletons and int(A.rdtype) not in (24, 46)
                    if err is None and plain and (same_type or op in ("iu", "du")):
                        exp = ref_binop(bop, ak, bkk)
                        if set(keys(a)) != set(exp) or len(keys(a)) != len(exp):
                            fail(f"C07/Rdataset/{op}/set-theory" + ("/self-alias" if a == b else ""),
                                 f"{rds_state(A)} after {op} with {len(bkk)} records; set theory says {len(exp)} records")
                        elif keys(a) != exp:
                            fail(f"C07/Rdataset/{op}/first-insertion-order", f"{rds_state(A)}")
                    if err is not None and same_type and plain:
                        fail(f"C07/Rdataset/{op}/raises", f"{err!r}")
                    if a != b and rds_snapshot(B) != snap[b]:
                        fail(f"C07/Rdataset/{op}/other-operand-changed", f"other operand changed to {rds_state(B)}")
                out = ("ok" if err is None else "err " + status(err)) + ":" + rds_state(regs[a])
            elif op in ("un", "in", "df", "sd"):
                c, a, b = st[1], st[2], st[3]
                A, B = regs[a], regs[b]
                ak, bkk = keys(a), keys(b)
                same_type = (int(A.rdclass), int(A.rdtype)) == (int(B.rdclass), int(B.rdtype))
                try:
                    if op0 in ("or", "and", "minus", "xor", "plus"):
                        new = {"or": lambda x, y: x | y, "and": lambda x, y: x & y, "minus": lambda x, y: x - y,
                               "xor": lambda x, y: x ^ y, "plus": lambda x, y: x + y}[op0](A, B)
                    else:
                        new = getattr(A, {"un": "union", "in": "intersection", "df": "difference", "sd": "symmetric_difference"}[op])(B)
                    err = None
                except (dns.rdataset.IncompatibleTypes, dns.rdataset.DifferingCovers) as e:
                    err = e
                if err is None:
                    plain = int(A.rdtype) not in singletons and int(A.rdtype) not in (24, 46)
                    nk = [rd_key(x) for x in new]
                    if plain and (same_type or op in ("in", "df")):
                        exp = ref_binop(op, ak, bkk)
                        if set(nk) != set(exp) or len(nk) != len(exp):
                            fail(f"C07/Rdataset/{op}/set-theory" + ("/self-alias" if a == b else ""),
                                 f"{rds_state(A)} {op} {rds_state(B)} gave {rds_state(new)}")
                        elif nk != exp:
                            fail(f"C07/Rdataset/{op}/first-insertion-order", f"{rds_state(new)}")
                    if isinstance(A, dns.rdataset.ImmutableRdataset) != isinstance(new, dns.rdataset.ImmutableRdataset):
                        fail(f"C07/Rdataset/{op}/result-mutability", "functional operation changed (im)mutability")
                    if type(new) is not type(A) and not isinstance(A, dns.rdataset.ImmutableRdataset):
                        fail(f"C07/Rdataset/{op}/result-type", f"{type(A).__name__} {op} gave {type(new).__name__}")
                    # ghost of the result: the clone's history plus the merge performed on the clone
                    g = list(ghost[a])
                    if op in ("un", "in", "sd"):
                        g = [B.ttl] if len(A) == 0 else g + [B.ttl]
                    regs[c] = new
                    ghost[c] = g
                    out = "ok:" + rds_state(new)
                else:
                    if same_type and int(A.rdtype) not in (24, 46):
                        fail(f"C07/Rdataset/{op}/raises", f"{err!r}")
                    out = "err " + status(err)
                if rds_snapshot(A) != snap[a] or rds_snapshot(B) != snap[b]:
                    fail(f"C07/Rdataset/{op}/operands-changed", "a copying form changed an operand")
            elif op in ("sub", "sup", "dj", "eq"):
                a, b = st[1], st[2]
                A, B = set(keys(a)), set(keys(b))
                if op == "sub":
                    got, exp = regs[a].issubset(regs[b]), A <= B
                elif op == "sup":
                    got, exp = regs[a].issuperset(regs[b]), A >= B
                elif op == "dj":
                    got, exp = regs[a].isdisjoint(regs[b]), A.isdisjoint(B)
                else:
                    got = regs[a] == regs[b]
                    hdr = lambda r: (int(r.rdclass), int(r.rdtype), int(r.covers))
                    exp = hdr(regs[a]) == hdr(regs[b]) and A == B
                    if isinstance(regs[a], dns.rrset.RRset) and isinstance(regs[b], dns.rrset.RRset):
                        exp = exp and regs[a].name == regs[b].name
                    if bool(regs[b] == regs[a]) != bool(got):
                        fail("C07/Rdataset/eq/symmetry", f"{type(regs[a]).__name__} == {type(regs[b]).__name__} is {got}, reversed {regs[b] == regs[a]}")
                    if (regs[a] != regs[b]) == bool(got):
                        fail("C07/Rdataset/ne/spec", "!= is not the negation of ==")
                if bool(got) != exp:
                    fail(f"C07/Rdataset/{op}/set-theory", f"{rds_state(regs[a])} {op} {rds_state(regs[b])} gave {got}")
                out = None if (op == "eq" and flavor != "rds") else ("true" if got else "false")
                if out is None:
                    # RRset equality also compares owner names, which the model does not carry: oracle only
                    out = "true" if (hdr(regs[a]) == hdr(regs[b]) and A == B) else "false"
            else:
                raise ValueError(op)
        except (TypeError, AttributeError) as e:
            if imm_before and mutating:
                out = "err Immutable:" + rds_state(regs[tgt])
            else:
                fail("C07/Rdataset/foreign-exception:" + type(e).__name__, f"{type(e).__name__}: {e}")
                trace.append("FOREIGN " + type(e).__name__)
                break
        except (dns.exception.DNSException, ValueError, KeyError, RuntimeError, StopIteration) as e:
            fail("C07/Rdataset/foreign-exception:" + type(e).__name__, f"{type(e).__name__}: {e}")
            trace.append("FOREIGN " + type(e).__name__)
            break
        trace.append(out)
        # invariants after every operation
        written = st[1]
        for i, r in enumerate(regs):
            ks = [rd_key(x) for x in r]
            if len(set(ks)) != len(ks):
                fail("C07/Rdataset/duplicates", f"register {i}: {rds_state(r)}")
            if int(r.rdtype) in (24, 46) and any(int(x.covers()) != int(r.covers) for x in r):
                # a signature set holds signatures of one covered type, the one it reports (0 included)
                fail("C07/Rdataset/covers/member-covers-differs", f"register {i}: {rds_state(r)} holds a record covering "
                     f"{[int(x.covers()) for x in r]}")
            if i != written and rds_snapshot(r) != snap[i]:
                # value semantics: copies, wrappers and results share nothing with their sources
                fail("C07/Rdataset/isolation/other-object-changed", f"{op0} on register {written} changed register {i} to {rds_state(r)}")
            if r.ttl != min(ghost[i]):
                fail("C07/Rdataset/ttl/minimum-of-merged", f"register {i}: ttl {r.ttl}, TTLs merged since last empty: {ghost[i]}")
        if imm_before and is_imm(tgt) and mutating and rds_snapshot(regs[tgt]) != snap[tgt]:
            fail("C07/ImmutableRdataset/mutated", f"{op0} changed an immutable rdataset to {rds_state(regs[tgt])}")
        if imm_before and mutating and not out.startswith("err") and not (op0 == "du" and st[1] != st[2] and len(regs[st[2]]) == 0):
            fail("C07/ImmutableRdataset/mutator-accepted", f"{op0} did not raise on an immutable rdataset")
    return trace


# ------------------------------------------------------------------------------------------------
# record value semantics
# ------------------------------------------------------------------------------------------------
_ALLRD = None
_GROUPS = []  # (start, length) of the groups of all_records(): a record, its case-swapped twin, other routes


def all_records():
    """records of every type of tests/example (absolute names), with case-swapped twins"""
    global _ALLRD
    if _ALLRD is not None:
        return _ALLRD
    import dns.zone

    from harness.core import REPO

    out = []
    try:
        z = dns.zone.from_file(os.path.join(REPO, "tests", "example"), origin="example.", relativize=False)
        for name, node in sorted(z.nodes.items()):
            for rds in node.rdatasets:
                for rd in rds:
                    grp = [rd]
                    try:
                        t = rd.to_text()
                        tw = dns.rdata.from_text(rd.rdclass, rd.rdtype, t.swapcase(), origin=dns.name.root, relativize=False)
                        grp.append(tw)
                        grp += other_routes(tw)[:1]
                    except Exception:
                        pass
                    grp += other_routes(rd)
                    _GROUPS.append((len(out), len(grp)))
                    out += grp
    except Exception:
        pass
    for v in pools().values():
        out += v
    _ALLRD = out
    return out


def sgn(x):
    return (x > 0) - (x < 0)


def eval_rdpair(ctx, i, j, rep, corr=True):
    R = all_records()
    a, b = R[i % len(R)], R[j % len(R)]
    ka, kb = rd_key(a), rd_key(b)
    eq = a == b
    same = ka[:2] == kb[:2]
    if same:
        try:
            c = sgn(a._cmp(b))
        except Exception as e:  # pragma: no cover
            ctx.fail("C07/Rdata/cmp/raises", f"{a!r} vs {b!r}: {e!r}", rep)
            return
        line = f"eq={'true' if eq else 'false'} cmp={c}"
    else:
        line = f"eq={'true' if eq else 'false'} cmp=na"
    if corr:
        ctx.corr(f"c07.rd {rd_lit(a)} {rd_lit(b)}", line, rep["case"])
    # the abstraction is faithful: covers() is the leading !H of the canonical encoding for SIG/RRSIG, NONE otherwise
    cov = int(a.covers())
    expcov = (ka[3][0] * 256 + ka[3][1]) if ka[1] in (24, 46) and len(ka[3]) >= 2 else 0
    if cov != expcov:
        ctx.fail("C07/Rdata/covers/abstraction", f"{a!r}: covers() = {cov}, canonical encoding says {expcov}", rep)
    what = f"{a.rdclass.name} {a.rdtype.name} {a.to_text()!r} vs {b.rdclass.name} {b.rdtype.name} {b.to_text()!r}"
    if eq != (ka == kb):
        ctx.fail("C07/Rdata/eq/canonical-encoding", f"== is {eq} but (class, type, relativity, canonical encoding) equal is {ka == kb}: {what}", rep)
    if (a != b) == eq:
        ctx.fail("C07/Rdata/ne/spec", f"!= is not the negation of ==: {what}", rep)
    if bool(b == a) != bool(eq):
        ctx.fail("C07/Rdata/eq/symmetry", f"a == b is {eq} but b == a is {b == a} ({type(a).__name__} vs {type(b).__name__}): {what}", rep)
    if same and (sgn(a._cmp(b)) == 0) != bool(eq):
        ctx.fail("C07/Rdata/eq/cmp-zero", f"== is {eq} but _cmp is {a._cmp(b)} ({type(a).__name__} vs {type(b).__name__}): {what}", rep)
    one = ka == kb
    try:
        n_set, n_dict = len({a, b}), len(dict.fromkeys([a, b]))
    except Exception as e:
        n_set = n_dict = repr(e)
    S = dns.set.Set([a, b])
    if n_set != (1 if one else 2) or n_dict != n_set or len(S) != n_set or (b in [a]) != one or (b in dns.set.Set([a])) != one:
        ctx.fail("C07/Rdata/eq/containers", f"set/dict/Set/list membership of the pair disagrees with equality of the canonical form ({one}); "
                 f"{type(a).__name__} vs {type(b).__name__}: {what}", rep)
    if eq and hash(a) != hash(b):
        ctx.fail("C07/Rdata/hash/equal-records-differ", f"equal records hash differently: {what}", rep)
    if same:
        exp = -1 if (ka[2] and not kb[2]) else 1 if (kb[2] and not ka[2]) else sgn((ka[3] > kb[3]) - (ka[3] < kb[3]))
        got = {"lt": a < b, "le": a <= b, "gt": a > b, "ge": a >= b}
        want = {"lt": exp < 0, "le": exp <= 0, "gt": exp > 0, "ge": exp >= 0}
        if got != want:
            ctx.fail("C07/Rdata/order/canonical-octet-order", f"comparisons {got}, canonical RDATA order says {want}: {what}", rep)
        if sgn(b._cmp(a)) != -c:
            ctx.fail("C07/Rdata/order/antisymmetry", what, rep)
        ctx.count(f"rdpair.same.{'eq' if eq else 'ne'}")
    else:
        for nm, fn in (("<", lambda: a < b), (">=", lambda: a >= b)):
            try:
                fn()
                ctx.fail("C07/Rdata/order/cross-type-accepted", f"{nm} between different class/type did not refuse: {what}", rep)
            except TypeError:
                pass
        ctx.count("rdpair.diff")


def eval_immut(ctx, rep):
    import harness.extract_C07 as ex

    bad = [e for e in ex.probe() if not e[3]]
    for k, cls, member, ok, detail in bad[:20]:
        ctx.fail(f"C07/immutability/{k}/{cls}/{member}", f"immutability surface: {k} {cls}.{member} {detail}", rep)
    ctx.count("immut.entries", len(ex.probe()))
    import dns.immutable
    import dns.rdatatype
    # the singleton table against the pinned list (never read from the implementation)
    for t_ in list(range(0, 300)) + [32768, 32769, 65280, 65535]:
        try:
            got_ = bool(dns.rdatatype.is_singleton(dns.rdatatype.RdataType.make(t_)))
        except Exception as e:
            got_ = repr(e)
        if got_ != (t_ in SINGLETONS):
            ctx.fail(f"C07/rdatatype/is_singleton/{t_}", f"is_singleton({dns.rdatatype.to_text(t_)}) is {got_}, the pinned RFC list says {t_ in SINGLETONS}", rep)
    # dns.immutable.constify (anchored; exported as dns.rdata._constify): every mutable container, at every depth,
    # becomes its immutable carrier with the same content, and the argument is not aliased
    import dns.immutable
    samples = [[1, 2], [[1], [2, [3]]], bytearray(b"ab"), {"k": [1, bytearray(b"x")]}, ([1], 2), (1, (2, [3])), [], {},
               [bytearray(b"")], {"a": {"b": [1]}}, (bytearray(b"z"),), 5, b"x", "s", None, (1, 2)]
    def plain(v):
        if isinstance(v, (list, tuple)):
            return [plain(x) for x in v]
        if isinstance(v, (bytes, bytearray)):
            return bytes(v)
        if isinstance(v, (dict, dns.immutable.Dict)):
            return {kk: plain(x) for kk, x in v.items()}
        return v
    for sm in samples:
        want = plain(sm)
        got = dns.immutable.constify(sm)
        if not ex.carrier_ok(got) or plain(got) != want:
            ctx.fail("C07/immutability/constify/deep", f"constify({sm!r}) = {got!r}", rep)
        _scramble(sm)
        if plain(got) != want:
            ctx.fail("C07/immutability/constify/aliases-argument", f"constify result changed with its argument: {got!r}", rep)
    ctx.count("immut.constify", len(samples))
    # live probes on real values: rebinding and container mutation
    n = dns.name.from_text("www.example.")
    for obj, attr in [(n, "labels")] + [(r, s) for r in all_records()[:200:7] for s in list(r._get_all_slots())[:6]]:
        try:
            setattr(obj, attr, getattr(obj, attr, None))
            ctx.fail(f"C07/immutability/setattr-live/{type(obj).__name__}/{attr}", f"setattr({type(obj).__name__}, {attr!r}) accepted", rep)
        except (TypeError, AttributeError):
            pass
        v = getattr(obj, attr, None)
        if isinstance(v, (list, dict, set, bytearray)):
            ctx.fail(f"C07/immutability/field/{type(obj).__name__}/{attr}", f"{type(obj).__name__}.{attr} is a mutable {type(v).__name__}", rep)


# ------------------------------------------------------------------------------------------------
def eval_case(ctx: Ctx, c: dict):
    k = c["kind"]
    rep = {"kind": k, "case": c}
    if k == "set":
        trace = run_set_script(ctx, c["script"], rep)
        ctx.corr("c07.set " + " ".join(script_tokens(c["script"])), "|".join(trace), c)
        ctx.count("set.script")
        binary = set(ALIAS) | {"uu", "iu", "du", "sdu", "un", "in", "df", "sd", "sub", "sup", "dj", "eq"}
        for st in c["script"]:
            ctx.count("set.op." + st[0] + (".alias" if st[0] in binary and st[-1] == st[-2] else ""))
    elif k == "rds":
        trace = run_rds_script(ctx, c, rep)
        if not any(t.startswith("FOREIGN") for t in trace):
            ctx.corr("c07.rds " + " ".join(rds_tokens(c["script"][: len(trace)])), "|".join(trace), c)
        ctx.count("rds.script." + c["flavor"])
        for t in trace:
            ctx.count("rds.status." + (t.split(":")[0].split(" ")[0] + (" " + t.split(":")[0].split(" ")[1] if t.startswith("err") else "")))
    elif k == "rdpair":
        eval_rdpair(ctx, c["i"], c["j"], rep)
    elif k == "rdtriple":
        R = all_records()
        a, b, d = R[c["i"] % len(R)], R[c["j"] % len(R)], R[c["k"] % len(R)]
        if rd_key(a)[:2] == rd_key(b)[:2] == rd_key(d)[:2]:
            for x, y, z in ((a, b, d), (b, d, a), (d, a, b), (a, d, b), (b, a, d), (d, b, a)):
                if x <= y and y <= z and not x <= z:
                    ctx.fail("C07/Rdata/order/transitivity", f"{x!r} <= {y!r} <= {z!r} but not {x!r} <= {z!r}", rep)
                if x == y and sgn(x._cmp(z)) != sgn(y._cmp(z)):
                    ctx.fail("C07/Rdata/order/eq-congruence", f"{x!r} == {y!r} compare differently with {z!r}", rep)
            srt = sorted([a, b, d])
            ks = [(0 if rd_key(x)[2] else 1, rd_key(x)[3]) for x in srt]
            if ks != sorted(ks):
                ctx.fail("C07/Rdata/order/sorted", f"sorted() is not canonical RDATA order: {srt!r}", rep)
            ctx.count("rdtriple.same")
        for i, j in ((c["i"], c["j"]), (c["j"], c["k"]), (c["i"], c["k"])):
            eval_rdpair(ctx, i, j, rep, corr=False)
    elif k == "immut":
        eval_immut(ctx, rep)
    elif k == "valapi":
        eval_valapi(ctx, c["i"], rep)
    elif k == "setapi":
        eval_setapi(ctx, c["a"], c["b"], rep)
    elif k == "rdsapi":
        eval_rdsapi(ctx, c, rep)
    else:
        raise ValueError(k)


def _mutable(v, deep=2):
    """the same value in mutable containers: tuple -> list, immutable Dict -> dict at every level (deep >= 1) or at
    the top level only (deep = 0), bytes -> bytearray (deep = 2 everywhere, deep = 0 at the top level)"""
    import dns.immutable

    if isinstance(v, tuple):
        return [(_mutable(x, deep) if deep else x) for x in v]
    if isinstance(v, bytes):
        return bytearray(v) if deep != 1 else v
    if isinstance(v, dns.immutable.Dict):
        return {kk: (_mutable(x, deep) if deep else x) for kk, x in v.items()}
    return v


def _scramble(v):
    """mutate, in place, every mutable container reachable from v"""
    if isinstance(v, list):
        for x in v:
            _scramble(x)
        v.append(v[0] if v else 0)
        v.reverse()
    elif isinstance(v, bytearray):
        v += b"\x01"
        for i in range(len(v)):
            v[i] ^= 0x5A
    elif isinstance(v, dict):
        for x in v.values():
            _scramble(x)
        v.clear()


def eval_valapi(ctx, i, rep):
    """records as values through the remaining routes: direct construction from mutable containers, replace(),
    copy / deepcopy / pickle, comparison with a non-record"""
    import copy
    import inspect
    import pickle

    import harness.extract_C07 as ex

    if isinstance(i, list):
        rd = dns.rdata.from_text(i[0], i[1], i[2], origin=dns.name.root, relativize=False)
    else:
        R = all_records()
        rd = R[i % len(R)]
    cls = type(rd)
    name = f"{rd.rdclass.name} {rd.rdtype.name} {rd.to_text()[:60]!r}"
    slots_before = {s2: getattr(rd, s2) for s2 in rd._get_all_slots() if hasattr(rd, s2)}
    key_before, hash_before = rd_key(rd), hash(rd)
    params = [p_ for p_ in inspect.signature(cls.__init__).parameters if p_ != "self"]
    if all(hasattr(rd, p_) for p_ in params):
        nbuilt = 0
        for deep in (2, 1, 0):
            args = [_mutable(getattr(rd, p_), deep) if p_ not in ("rdclass", "rdtype") else getattr(rd, p_) for p_ in params]
            try:
                built = cls(*args)
            except Exception:
                continue
            nbuilt += 1
            ctx.count(f"valapi.ctor.deep{deep}")
            for s2 in built._get_all_slots():
                if hasattr(built, s2) and not ex.carrier_ok(getattr(built, s2)):
                    ctx.fail(f"C07/immutability/ctor-field/{cls.__name__}/{s2}",
                             f"{cls.__name__}(...) built from mutable containers keeps a mutable {type(getattr(built, s2)).__name__} in .{s2}: {name}", rep)
            if not (built == rd) or hash(built) != hash(rd):
                ctx.fail(f"C07/Rdata/ctor/equal/{cls.__name__}", f"record rebuilt from its own fields differs: {name}", rep)
            kb, hb = rd_key(built), hash(built)
            for a_ in args:
                _scramble(a_)
            try:
                changed = rd_key(built) != kb or hash(built) != hb or not (built == rd)
            except Exception:
                changed = True
            if changed:
                ctx.fail(f"C07/immutability/ctor-aliases-argument/{cls.__name__}",
                         f"mutating a container passed to {cls.__name__}(...) changed the record: {name}", rep)
        if nbuilt == 0:
            ctx.count("valapi.ctor-refuses-mutable")
        # replace(): a new equal record for an unchanged field; the original is never touched
        for p_ in params:
            if p_ in ("rdclass", "rdtype"):
                r_, v_ = None, None
                try:
                    rd.replace(**{p_: getattr(rd, p_)})
                    ctx.fail("C07/Rdata/replace/class-or-type", f"replace({p_}=...) accepted: {name}", rep)
                except AttributeError:
                    pass
                continue
            try:
                new = rd.replace(**{p_: getattr(rd, p_)})
            except Exception as e:
                ctx.fail(f"C07/Rdata/replace/raises/{cls.__name__}", f"replace({p_}=same) raised {e!r}: {name}", rep)
                continue
            if new is rd or not (new == rd) or hash(new) != hash(rd) or type(new) is not cls:
                ctx.fail(f"C07/Rdata/replace/equal/{cls.__name__}", f"replace({p_}=same) is not a fresh equal record: {name}", rep)
        try:
            rd.replace(no_such_field_=1)
            ctx.fail("C07/Rdata/replace/unknown-field", f"replace(no_such_field_=1) accepted: {name}", rep)
        except AttributeError:
            pass
        new = rd.replace(rdcomment="x")
        if new is rd or rd.rdcomment == "x" or not (new == rd) or new.rdcomment != "x":
            ctx.fail("C07/Rdata/replace/rdcomment", f"replace(rdcomment=...) : {name}", rep)
        # a changed field: the original keeps its value
        for p_ in params:
            v_ = getattr(rd, p_)
            if isinstance(v_, int) and not isinstance(v_, bool) and p_ not in ("rdclass", "rdtype"):
                for nv in (v_ + 1, v_ - 1 if v_ > 0 else v_ + 2):
                    try:
                        new = rd.replace(**{p_: nv})
                    except Exception:
                        continue
                    if getattr(rd, p_) != v_ or (getattr(new, p_) == nv and new == rd and new.to_digestable(dns.name.root) == key_before[3] and False):
                        ctx.fail("C07/Rdata/replace/mutates-original", f"replace({p_}={nv}) changed the original: {name}", rep)
                    break
                break
    for tw in other_routes(rd):
        rn = f"{cls.__name__} vs {type(tw).__name__}"
        if rd_key(tw) != key_before:
            # e.g. the generic twin of a record whose canonical form lower-cases an embedded name: a different value
            ctx.count("valapi.route.other-value")
            continue
        ok = (rd == tw) and (tw == rd) and not (rd != tw) and not (tw != rd) and hash(rd) == hash(tw) and rd._cmp(tw) == 0 \
            and tw._cmp(rd) == 0 and rd <= tw and rd >= tw and not (rd < tw) and not (rd > tw)
        if not ok:
            ctx.fail(f"C07/Rdata/eq/object-route/{type(tw).__name__ if type(tw).__name__ == 'GenericRdata' else 'typed'}",
                     f"the same record through another object route ({rn}) is not the same value: ==:{rd == tw}/{tw == rd} "
                     f"!=:{rd != tw} hash-equal:{hash(rd) == hash(tw)} cmp:{rd._cmp(tw)} -- {name}", rep)
        A1, B1 = dns.rdataset.Rdataset(rd.rdclass, rd.rdtype, rd.covers()), dns.rdataset.Rdataset(rd.rdclass, rd.rdtype, rd.covers())
        A1.add(rd)
        B1.add(tw)
        both = A1.copy()
        both.add(tw)
        facts = {"add-dedup": len(both) == 1, "eq": A1 == B1 and not (A1 != B1), "subset": A1.issubset(B1) and B1.issuperset(A1),
                 "disjoint": not A1.isdisjoint(B1), "union": len(A1 | B1) == 1, "intersection": len(A1 & B1) == 1,
                 "difference": len(A1 - B1) == 0, "symmetric_difference": len(A1 ^ B1) == 0,
                 "Set": len(dns.set.Set([rd, tw])) == 1 and len({rd, tw}) == 1, "remove": True}
        try:
            both.remove(tw)
            facts["remove"] = len(both) == 0
        except ValueError:
            facts["remove"] = False
        wrong = sorted(k_ for k_, v_ in facts.items() if not v_)
        if wrong:
            ctx.fail("C07/Rdataset/object-route/set-theory", f"record sets holding the same record through two object routes ({rn}): "
                     f"{', '.join(wrong)} wrong -- {name}", rep)
        ctx.count("valapi.route." + ("generic" if type(tw).__name__ == "GenericRdata" else "sub" if type(tw).__name__.endswith("Sub") else "typed"))
    bad = []
    for what, fn in (("copy.copy", copy.copy), ("copy.deepcopy", copy.deepcopy), ("pickle", lambda x: pickle.loads(pickle.dumps(x)))):
        try:
            cp = fn(rd)
            if not (cp == rd) or cp != rd or hash(cp) != hash(rd) or rd_key(cp) != key_before or type(cp) is not cls:
                bad.append(f"{what}: not an equal record")
            elif not ex.carrier_ok(cp):
                bad.append(f"{what}: mutable field")
        except Exception as e:
            bad.append(f"{what}: {type(e).__name__}: {e}")
    if bad:
        # a record is a value: its copies and pickles are equal records
        ctx.fail(f"C07/Rdata/value/copy-protocol/{cls.__name__}", f"{'; '.join(bad)} -- {name}", rep)
    for other in (None, 0, "x", rd.to_text(), key_before[3], (rd,)):
        if rd == other or not (rd != other):
            ctx.fail("C07/Rdata/eq/non-record", f"== {other!r}: {name}", rep)
    if {s2: getattr(rd, s2) for s2 in slots_before} != slots_before or any(getattr(rd, s2) is not slots_before[s2] for s2 in slots_before) \
            or rd_key(rd) != key_before or hash(rd) != hash_before:
        ctx.fail("C07/immutability/record-changed", f"the record changed while being copied / replaced / compared: {name}", rep)
    ctx.count("valapi")


def eval_setapi(ctx, a, b, rep):
    """dns.set.Set: argument types, membership, copy protocol"""
    import copy

    A, B = dns.set.Set(a), dns.set.Set(x for x in b)
    ea = list(dict.fromkeys(a))
    if list(A) != ea or list(B) != list(dict.fromkeys(b)) or len(A) != len(ea):
        ctx.fail("C07/Set/init/iterable", f"Set({a}) = {list(A)}", rep)
    for x in range(9):
        if (x in A) != (x in ea):
            ctx.fail("C07/Set/contains", f"{x} in Set({a}) is {x in A}", rep)
    for meth in ("union_update", "intersection_update", "difference_update", "symmetric_difference_update", "union",
                 "intersection", "difference", "symmetric_difference", "issubset", "issuperset", "isdisjoint"):
        for bad in (list(b), tuple(b), set(b), dict.fromkeys(b), None):
            S = dns.set.Set(a)
            try:
                getattr(S, meth)(bad)
                ctx.fail(f"C07/Set/{meth}/non-set-operand", f"{meth}({type(bad).__name__}) accepted", rep)
            except ValueError:
                pass
            except (TypeError, AttributeError) as e:
                ctx.fail(f"C07/Set/{meth}/non-set-operand", f"{meth}({type(bad).__name__}) raised {type(e).__name__}, documented: ValueError", rep)
            if list(S) != ea:
                ctx.fail(f"C07/Set/{meth}/non-set-operand", f"{meth}({type(bad).__name__}) changed the set to {list(S)}", rep)
    for what, cp in (("copy.copy", copy.copy(A)), ("copy()", A.copy()), ("_clone", A._clone())):
        if cp is A or cp.items is A.items or list(cp) != ea or type(cp) is not dns.set.Set:
            ctx.fail("C07/Set/copy/fresh", f"{what} is not a fresh equal set", rep)
        cp.add(99)
        if 99 in A:
            ctx.fail("C07/Set/copy/fresh", f"{what} shares its dict with the original", rep)
    for src, nm in ((B, "Set"), (iter(list(b)), "iterator"), (tuple(b), "tuple"), (dict.fromkeys(b), "dict")):
        S = dns.set.Set(a)
        S.update(src)
        if list(S) != ref_binop("un", ea, list(dict.fromkeys(b))):
            ctx.fail("C07/Set/update/iterable", f"update({nm}) gave {list(S)}", rep)
    S = dns.set.Set(a)
    S.update(S)
    if list(S) != ea:
        ctx.fail("C07/Set/update/self", f"update(self) gave {list(S)}", rep)
    if (A == B) != (B == A):
        ctx.fail("C07/Set/eq/symmetry", f"{a} == {b}: {A == B} vs reversed {B == A}", rep)
    # indices islice refuses: ValueError and nothing changes
    for bad in (-1, -len(ea) - 1, slice(-1, None), slice(None, -1), slice(0, 2, -1), slice(0, 2, 0)):
        for opn, fn in (("get", lambda: A[bad]), ("del", lambda: A.__delitem__(bad))):
            try:
                fn()
                ctx.fail("C07/Set/index/negative-accepted", f"{opn} [{bad!r}] on {ea} accepted", rep)
            except ValueError:
                pass
            except Exception as e:
                ctx.fail("C07/Set/index/negative-accepted", f"{opn} [{bad!r}] raised {type(e).__name__}", rep)
        if list(A) != ea:
            ctx.fail("C07/Set/index/negative-changes", f"[{bad!r}] changed the set to {list(A)}", rep)
    # an element whose comparison raises in the middle of an operation: afterwards the set is still a set made of
    # its own and the argument's elements, has lost nothing it should keep, and is usable
    class Boom(BaseException):
        pass

    class Hostile:
        def __init__(self, v, fuse):
            self.v, self.fuse = v, fuse

        def __hash__(self):
            return 0  # everything collides: __eq__ decides

        def __eq__(self, other):
            if self.fuse[0] is not None:
                self.fuse[0] -= 1
                if self.fuse[0] < 0:
                    self.fuse[0] = None
                    raise self.fuse[1]("boom")
            return isinstance(other, Hostile) and self.v == other.v

        def __repr__(self):
            return f"H{self.v}"

    for meth in ("union_update", "intersection_update", "difference_update", "symmetric_difference_update", "update", "add",
                 "discard", "remove", "union", "intersection", "difference", "symmetric_difference"):
        for exc in (ValueError, KeyError, Boom):
            for when in (0, 2, 5):
                fuse = [None, exc]
                S = dns.set.Set(Hostile(x, fuse) for x in ea)
                O = dns.set.Set(Hostile(x, fuse) for x in dict.fromkeys(b))
                before = [h.v for h in S]
                ob = [h.v for h in O]
                arg = (Hostile(b[0] if b else 3, fuse) if meth in ("add", "discard", "remove") else O)
                fuse[0] = when
                raised = None
                try:
                    getattr(S, meth)(arg)
                except BaseException as e:  # noqa: the injected one, or ValueError of remove()
                    if isinstance(e, Stalled):
                        raise
                    raised = e
                fuse[0] = None
                now = [h.v for h in S]
                what_ = f"{meth} with {exc.__name__} at comparison {when}: {before} op {ob} -> {now}"
                if raised is not None and type(raised) is not exc and not (meth == "remove" and isinstance(raised, ValueError)):
                    ctx.fail(f"C07/Set/{meth}/exception-replaced", f"{what_}: surfaced as {type(raised).__name__}", rep)
                if len(set(now)) != len(now) or not set(now) <= set(before) | set(ob) | ({arg.v} if not isinstance(arg, dns.set.Set) else set()):
                    ctx.fail(f"C07/Set/{meth}/after-exception/not-a-set", what_, rep)
                keep = {"union_update": set(before), "update": set(before), "add": set(before), "intersection_update": set(before) & set(ob),
                        "difference_update": set(before) - set(ob), "symmetric_difference_update": set(before) - set(ob),
                        "discard": set(before) - {getattr(arg, "v", None)}, "remove": set(before) - {getattr(arg, "v", None)}}.get(meth, set(before))
                if raised is not None and not keep <= set(now):
                    ctx.fail(f"C07/Set/{meth}/after-exception/lost-elements", f"{what_}: {sorted(keep - set(now))} lost", rep)
                if meth in ("union", "intersection", "difference", "symmetric_difference") and now != before:
                    ctx.fail(f"C07/Set/{meth}/after-exception/receiver-changed", what_, rep)
                if [h.v for h in O] != ob:
                    ctx.fail(f"C07/Set/{meth}/after-exception/argument-changed", what_, rep)
                # keep using it
                S.add(Hostile(77, fuse))
                S.discard(Hostile(77, fuse))
                if [h.v for h in S] != now:
                    ctx.fail(f"C07/Set/{meth}/after-exception/unusable", what_, rep)
    if (A == B) != (set(a) == set(b)) or (A != B) == (A == B):
        ctx.fail("C07/Set/eq/set-theory", f"{a} == {b} gave {A == B}", rep)
    ctx.count("setapi")


def eval_rdsapi(ctx, c, rep):
    """Rdataset / RRset construction routes and the RRset-only surface (name, deleting, match, full_match, to_rdataset)"""
    P = pools()
    lab, idxs, ttl = c["label"], c["idx"], c["ttl"]
    rds_ = [P[lab][i] for i in idxs]
    cls_, typ_ = POOL_META[lab]
    singleton = typ_ in SINGLETONS
    same_cov = typ_ not in (24, 46) or len({int(r.covers()) for r in rds_}) <= 1
    exp_keys = []
    for r in rds_:
        if singleton:
            exp_keys = [rd_key(r)]
        elif rd_key(r) not in exp_keys:
            exp_keys.append(rd_key(r))
    nm = dns.name.from_text("Owner.Example.")
    routes = {
        "rdataset.from_rdata": lambda: dns.rdataset.from_rdata(ttl, *rds_),
        "rdataset.from_rdata_list": lambda: dns.rdataset.from_rdata_list(ttl, rds_),
        "rrset.from_rdata": lambda: dns.rrset.from_rdata(nm, ttl, *rds_),
        "rrset.from_rdata_list": lambda: dns.rrset.from_rdata_list(nm, ttl, rds_),
        "rdataset.from_text_list": lambda: dns.rdataset.from_text_list(cls_, typ_, ttl, [r.to_text() for r in rds_],
                                                                        origin=dns.name.root, relativize=False),
        "rdataset.from_text_list(mnemonics)": lambda: dns.rdataset.from_text_list(
            dns.rdataclass.to_text(cls_), dns.rdatatype.to_text(typ_), ttl, [r.to_text() for r in rds_], origin=dns.name.root, relativize=False),
        "rrset.from_text_list(mnemonics)": lambda: dns.rrset.from_text_list(
            "owner.example.", ttl, dns.rdataclass.to_text(cls_), dns.rdatatype.to_text(typ_), [r.to_text() for r in rds_],
            origin=dns.name.root, relativize=False),
        "rrset.from_text": lambda: dns.rrset.from_text("owner.example.", ttl, cls_, typ_, *[r.to_text() for r in rds_]),
        "add-with-ttl": lambda: _add_all(dns.rdataset.Rdataset(cls_, typ_), rds_, ttl),
        "add-with-str-ttl": lambda: _add_all(dns.rdataset.Rdataset(cls_, typ_), rds_, str(ttl)),
        "update_ttl-str": lambda: _add_all(_ttl(dns.rdataset.Rdataset(cls_, typ_), str(ttl)), rds_, None),
    }
    for rn, fn in routes.items():
        if "from_text" in rn and any(rd_rel(r) or type(r).__name__ == "GenericRdata" for r in rds_):
            continue
        try:
            got = fn()
        except dns.rdataset.DifferingCovers:
            if same_cov:
                ctx.fail(f"C07/Rdataset/{rn}/raises", "DifferingCovers for signatures covering one type", rep)
            continue
        except Exception as e:
            ctx.fail(f"C07/Rdataset/{rn}/raises", f"{e!r}", rep)
            continue
        if not same_cov:
            ctx.fail(f"C07/Rdataset/{rn}/refuses-other-covers", f"signatures covering different types accepted: {rds_state(got)}", rep)
            continue
        if [rd_key(x) for x in got] != exp_keys or got.ttl != ttl or not isinstance(got.ttl, int) \
                or (int(got.rdclass), int(got.rdtype)) != (cls_, typ_) \
                or (typ_ in (24, 46) and int(got.covers) != int(rds_[0].covers())) or (typ_ not in (24, 46) and int(got.covers) != 0):
            ctx.fail(f"C07/Rdataset/{rn}/spec", f"{rn}(ttl={ttl!r}, {len(rds_)} records) gave {rds_state(got)}", rep)
    d0 = dns.rdataset.Rdataset(cls_, typ_)
    if int(d0.covers) != 0 or d0.ttl != 0 or len(d0) != 0:
        ctx.fail("C07/Rdataset/init/defaults", f"Rdataset(class, type) = {rds_state(d0)}", rep)
    if not same_cov:
        ctx.count("rdsapi.mixed-covers")
        return
    # RRset-only surface
    deleting = c["deleting"]
    cov = int(rds_[0].covers()) if typ_ in (24, 46) else 0
    rr = dns.rrset.RRset(nm, cls_, typ_, cov, deleting)
    for r in rds_:
        rr.add(r, ttl)
    other_name = dns.name.from_text("other.example.")
    twin = dns.rrset.RRset(dns.name.from_text("OWNER.example."), cls_, typ_, cov, deleting)
    far = dns.rrset.RRset(other_name, cls_, typ_, cov, deleting)
    for r in rds_:
        twin.add(r, ttl)
        far.add(r, ttl)
    if not (rr == twin) or rr != twin or rr == far or not (rr != far):
        ctx.fail("C07/RRset/eq/owner-name", "RRset equality must compare the owner name (case-insensitively) and the records", rep)
    plain = rr.to_rdataset()
    if type(plain) is not dns.rdataset.Rdataset or [rd_key(x) for x in plain] != exp_keys or plain.ttl != rr.ttl \
            or int(plain.covers) != cov or not (plain == rr) or not (rr == plain):
        ctx.fail("C07/RRset/to_rdataset/spec", f"to_rdataset() gave {rds_state(plain)}", rep)
    for dl in (None, 254, 255, 0):
        for n2 in (nm, twin.name, other_name):
            for c2, t2, v2 in ((cls_, typ_, cov), (cls_, typ_, cov + 1), (cls_ + 1, typ_, cov), (cls_, typ_ + 1, cov)):
                exp = (n2 != other_name) and (c2, t2, v2) == (cls_, typ_, cov) and dl == deleting
                g1 = rr.full_match(n2, c2, t2, v2, dl)
                g2 = rr.match(n2, c2, t2, v2, dl)
                if bool(g1) != exp or bool(g2) != exp:
                    ctx.fail("C07/RRset/full_match/spec", f"full_match(name, {c2}, {t2}, {v2}, deleting={dl}) on an RRset with deleting={deleting}: {g1}/{g2}", rep)
    if bool(rr.match(cls_, typ_, cov)) is not True or bool(rr.match(cls_, typ_, cov + 1)) or bool(rr.full_match(nm, cls_, typ_, cov)) != (deleting is None):
        ctx.fail("C07/RRset/match/spec", "match(class, type, covers) / full_match default deleting", rep)
    import copy
    other = dns.rrset.RRset(other_name, cls_, typ_, cov)
    for what, cp in (("copy()", rr.copy()), ("copy.copy", copy.copy(rr)), ("union", rr.union(other)), ("intersection", rr.intersection(rr)),
                     ("difference", rr.difference(other)), ("symmetric_difference", rr.symmetric_difference(other)), ("|", rr | other)):
        if type(cp) is not dns.rrset.RRset or cp.name != nm or cp.deleting != deleting or cp is rr or cp.items is rr.items \
                or [rd_key(x) for x in cp] != exp_keys or int(cp.covers) != cov:
            ctx.fail("C07/RRset/clone/keeps-name-and-deleting", f"{what}: {type(cp).__name__} name={getattr(cp, 'name', None)} deleting={getattr(cp, 'deleting', None)} {rds_state(cp)}", rep)
    ctx.count("rdsapi")


def _add_all(r, rds_, ttl):
    for x in rds_:
        r.add(x, ttl)
    return r


def _ttl(r, t):
    r.update_ttl(t)
    return r


def generate(ctx: Ctx, scale, rng):
    n = lambda q: max(1, int(q * scale))
    c = {"kind": "immut"}
    ctx.case(("immut",), sample=c)
    eval_case(ctx, c)
    for _ in range(n(2500)):
        s = gen_set_script(rng)
        c = {"kind": "set", "script": s}
        ctx.case(("set", json.dumps(s)), sample=c)
        eval_case(ctx, c)
    for _ in range(n(3)):
        big = [["new", 0, rng.shuffle(list(range(0, 260)))[: rng.range(200, 260)]],
               ["new", 1, rng.shuffle(list(range(120, 400)))[: rng.range(150, 270)]]]
        for op_ in rng.shuffle(["un", "in", "df", "sd", "or", "and", "minus", "xor"]):
            big.append([op_, 2, rng.below(2), rng.below(2)])
            big.append([rng.choice(["sub", "sup", "dj", "eq"]), 2, rng.below(2)])
            big.append([rng.choice(["gets", "dels"]), 2, rng.below(50), rng.choice([None, 100, 255, 256, 300]), rng.choice([1, 2, 7])])
        for op_ in rng.shuffle(["uu", "iu", "du", "sdu", "ior", "iand", "isub", "ixor"]):
            big.append(["cp", 3, 0])
            big.append([op_, 3, rng.choice([1, 1, 3])])
            big.append(["del", 3, rng.choice([0, 199, 253, 254, 255, 256])])
            big.append(["pop", 3])
        c = {"kind": "set", "script": big}
        ctx.case(("set-big", json.dumps(big[:2])), sample=None)
        eval_case(ctx, c)
    for _ in range(n(2500)):
        c = dict(gen_rds_script(rng), kind="rds")
        ctx.case(("rds", json.dumps(c["script"]), c["flavor"]), sample=c)
        eval_case(ctx, c)
    R = all_records()
    for i in range(len(R)) if scale >= 2 else rng.shuffle(list(range(len(R))))[: len(R) // 2]:
        c = {"kind": "valapi", "i": i}
        ctx.case(("valapi", i), sample=c)
        eval_case(ctx, c)
    for _ in range(n(60)):
        c = {"kind": "setapi", "a": [rng.below(8) for _ in range(rng.below(7))], "b": [rng.below(8) for _ in range(rng.below(6))]}
        ctx.case(("setapi", str(c)), sample=c)
        eval_case(ctx, c)
    P = pools()
    for _ in range(n(300)):
        lab = rng.choice(["A", "MX", "TXT", "CNAME", "SOA", "RRSIG", "RRSIG", "SIG", "CHTXT", "DNAME", "NSEC", "NXT"])
        c = {"kind": "rdsapi", "label": lab, "idx": [rng.below(len(P[lab])) for _ in range(rng.range(1, 5))],
             "ttl": rng.choice(TTLS), "deleting": rng.choice([None, None, 254, 255, 0])}
        ctx.case(("rdsapi", str(c)), sample=c)
        eval_case(ctx, c)
    for _ in range(n(6000)):
        i = rng.below(len(R))
        m = rng.choice([0, 1, 1, 2, 3])
        # members of one group are routes / spellings of one record; same-type neighbours are close
        if m == 1 and _GROUPS:
            st_, ln_ = rng.choice(_GROUPS)
            i, j = st_ + rng.below(ln_), st_ + rng.below(ln_)
        else:
            j = i if m == 0 else (i + rng.range(-6, 6)) % len(R) if m == 2 else rng.below(len(R))
        c = {"kind": "rdpair", "i": i, "j": j}
        ctx.case(("rdpair", i, j), nontrivial=(i != j), sample=c)
        eval_case(ctx, c)
    for _ in range(n(1500)):
        i = rng.below(len(R))
        c = {"kind": "rdtriple", "i": i, "j": (i + rng.range(-4, 4)) % len(R), "k": (i + rng.range(-4, 4)) % len(R)}
        ctx.case(("rdtriple", c["i"], c["j"], c["k"]), sample=c)
        eval_case(ctx, c)


def run(ctx: Ctx):
    for p in sorted(glob.glob(os.path.join(VERIF, "corpus", "C07", "*.json"))):
        c = json.load(open(p))
        ctx.case(("corpus", p), sample=None)
        eval_case(ctx, c)
        ctx.count("corpus")
    generate(ctx, 2 if ctx.tier == "quick" else 40, ctx.rng)


def search(ctx: Ctx):
    for m in ctx.mismatches[:50]:
        if m.case is not None:
            eval_case(ctx, m.case)
    generate(ctx, 3 if ctx.tier == "quick" else 40, ctx.rng.fork(7))


def replay(ctx: Ctx, obj: dict):
    eval_case(ctx, obj["case"])
    return [f.what for f in ctx.failures]


LEVEL = {
    "text": "Lean 4 theorems over an executable model of dns/set.py (insertion-ordered duplicate-free lists with exactly the "
            "dict behaviours used) and dns/rdataset.py: every loop of the code equals its closed set-theoretic form on "
            "duplicate-free lists (membership laws of union, intersection, difference, symmetric difference, the three "
            "predicates, equality ignoring order), first-insertion order, Nodup preserved by every operation, in-place = "
            "copying, the `self is other` branches equal the general definition at other = self; Rdataset.add refuses another "
            "class/type/covers, singleton types keep only the newest record, and over every operation history the TTL is the "
            "minimum of the TTLs merged since a merge last found the set empty; record equality is equality of (class, type, "
            "relativity, canonical encoding), equal records hash equally, record order is a strict total order (octet order of "
            "the canonical encoding).  Tied to the code by a differential check on whole operation histories over Set, "
            "Rdataset, RRset and ImmutableRdataset with aliasing, and a direct oracle against Python's builtin set.",
    "note": "Partial: immutability (no attribute rebinding, no mutable container field, ImmutableRdataset mutator surface) is "
            "a finite table enumerated from the code on every run and closed by decide, not a proof about Python objects. "
            "Which embedded names the canonical encoding lower-cases is C15's subject.",
    "technique": "Lean 4 proof (refinement of fold loops to filter/append forms, invariants over operation histories) + "
                 "model-vs-implementation correspondence on operation histories + regenerated finite table",
    "design_ref": "DESIGN.md §7 C07",
}

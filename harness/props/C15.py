"""C15 — key-free DNSSEC computations equal an independent RFC 4034/5155/6840/8976 reference.

Correspondence: dns.dnssec / dns.rdata / dns.zone (working tree) vs lean/Model/Dnssec.lean through the driver.
Oracle: an independent RFC reference written below (`r_*` functions, no dnspython code involved) evaluated
against the implementation on every case; the same reference also cross-checks the model, because the
implementation line compared with the model is first compared with the reference.

`cryptography` is absent: `sign_zone` is driven with a recording `rrset_signer`; hashes come from hashlib.
"""
from harness.core import Stalled as _Stalled
import glob
import hashlib
import io
import json
import os

import dns.dnssec
import dns.dnssectypes
import dns.exception
import dns.name
import dns.rdata
import dns.rdataclass
import dns.rdataset
import dns.rdatatype
import dns.rrset
import dns.zone
from dns.rdtypes.util import Bitmap

from harness.core import VERIF, Ctx, enc_labels, hx
from harness import extract_C15 as X

RULE = (
    "cases come from one SplitMix64 state: rdata of every implemented (class,type) built from text specimens with "
    "mixed-case names over letters and the octets adjacent to the letter ranges (@ [ ` { 0xC1 0xE1), absolute and "
    "relative with/without origin; unimplemented types of the RFC 4034 §6.2 list from wire; DNSKEY RDATA of all lengths "
    "0..40 and long, all algorithms incl. RSAMD5; RRSIG inputs with labels from 0 to len+1, wildcard owners, relative "
    "owner/signer; DS for every digest type and both policies; NSEC3 with salts 0..8 octets and 0..12 iterations; type "
    "sets over window/octet/bit boundaries; zones with delegations, glue (below and at the cut), empty non-terminals, "
    "wildcards, nested cuts, relativized or not, apex-only; ZONEMD zones with apex/non-apex ZONEMD and RRSIGs covering "
    "them; a case is non-trivial if its key (kind + inputs) is new"
)
TRUSTED_BASE = [
    "hashlib SHA-1/256/384/512 (opaque parameter `H` in the model; real digests only in the oracle)",
    "base64.b32encode = RFC 4648 §6 (modelled directly and proved equal to base32hex after the translation table)",
    "Python `sorted` is a stable sort by `<` (modelled as insertion sort; permutation and sortedness proved)",
    "struct.pack big-endian as radix-256 (modelled directly)",
    "decomposition of an rdata into opaque octets and embedded names is taken from the implementation's own "
    "uncompressed `to_wire` (spy on Name.to_wire); the oracle does not use it (it parses RFC layouts)",
]
ASSUMPTIONS = [
    "the canonical-order facts the NSEC chain needs (sorted output strictly increasing, no name before a name it is "
    "beneath, is_subdomain transitive, subtrees contiguous) are discharged from C06 (Props/C06, Proofs/NameOrder*); "
    "C15.nsec_chain only assumes that node names are pairwise distinct (dictionary keys) and nodes are non-empty",
    "anything needing a private key (dns.dnssecalgs, sign, validate) is outside the model",
    "NSEC3 chains (and therefore opt-out handling) are not implemented by dnspython: sign_zone raises "
    "NotImplementedError; covered: nsec3_hash with every argument spelling, the owner name built from it, and the "
    "agreement of the NSEC3 RDATA text with the hash",
    "textual arguments of nsec3_hash are ASCII in the model (str.upper of non-ASCII letters, IDNA are outside it)",
    "recorded findings still in the tree: Chaosnet A lower-cased; unimplemented RFC 4034 §6.2 types opaque; "
    "dnskey_rdataset_to_cdnskey_rdataset yields DNSKEY-typed records (not repaired: an upstream test pins the wrong type); "
    "make_ds_rdataset typing DNSKEY input as CDS was repaired in ff90ef6 and DS is the reference",
    "argument spellings of make_ds and the DS/CDS/CDNSKEY rdataset helpers, verify_digest() from the zone's own ZONEMD "
    "RRset, sign_zone's txn= / add_dnskey / nsec3= routes, NSEC TTL and class are checked by the reference oracle only "
    "(no model)",
]

NS, DS, RRSIG, NSEC, SOA, ZONEMD, DNSKEY = 2, 43, 46, 47, 6, 63, 48

# ================================================================================================
# independent RFC reference (no dnspython code below this line until the next banner)
# ================================================================================================
_LOW = bytes(c + 32 if 65 <= c <= 90 else c for c in range(256))


def r_lower(b: bytes) -> bytes:
    return b.translate(_LOW)


def r_wire(labels, lower: bool) -> bytes:
    """RFC 1035 §3.1 uncompressed name; RFC 4034 §6.2 item 2 lower-cases US-ASCII letters"""
    return b"".join(bytes([len(l)]) + (r_lower(l) if lower else bytes(l)) for l in labels)


def r_fqdn(labels, origin):
    labels = [bytes(l) for l in labels]
    if labels and labels[-1] == b"":
        return labels
    if origin is None:
        return None
    return labels + [bytes(l) for l in origin]


def r_name_end(w: bytes, off: int) -> int:
    """end offset of the uncompressed name starting at off"""
    while True:
        n = w[off]
        assert n < 64, "compression pointer or bad label type in a canonical form"
        off += 1 + n
        if n == 0:
            return off


# RFC 4034 §6.2 item 3: NS, MD, MF, CNAME, SOA, MB, MG, MR, PTR, HINFO, MINFO, MX, HINFO, RP, AFSDB, RT, SIG, PX,
# NXT, NAPTR, KX, SRV, DNAME, A6, RRSIG, NSEC — NSEC removed by RFC 6840 §5.1.  Layouts from the defining RFCs:
# digits = fixed octets, N = domain name, S = character-string, * = rest, 6 = the A6 form.
R_LOWER_LAYOUT = {
    2: "N", 3: "N", 4: "N", 5: "N", 6: "NN*", 7: "N", 8: "N", 9: "N", 12: "N", 13: "*", 14: "NN", 15: "2N", 17: "NN",
    18: "2N", 21: "2N", 24: "18N*", 26: "2NN", 30: "N*", 33: "6N", 35: "4SSSN", 36: "2N", 38: "6", 39: "N", 46: "18N*",
}


def r_canon_rdata(rdtype: int, w: bytes) -> bytes:
    """canonical RDATA from the uncompressed wire RDATA (RFC 4034 §6.2 items 1, 3)"""
    lay = R_LOWER_LAYOUT.get(rdtype)
    if lay is None:
        return w
    out, off, i = b"", 0, 0
    while i < len(lay):
        c = lay[i]
        if c.isdigit():
            j = i
            while j < len(lay) and lay[j].isdigit():
                j += 1
            k = int(lay[i:j]) if lay != "6" else None
            if k is None:  # A6 (RFC 2874 §3.1): prefix length, address suffix, prefix name unless prefix length is 0
                plen = w[0]
                alen = (128 - plen + 7) // 8
                out += w[: 1 + alen]
                off = 1 + alen
                if plen != 0:
                    e = r_name_end(w, off)
                    out += r_lower(w[off:e])
                    off = e
                return out + w[off:]
            out += w[off:off + k]
            off += k
            i = j
            continue
        if c == "N":
            e = r_name_end(w, off)
            out += r_lower(w[off:e])  # length octets are < 64 and unaffected
            off = e
        elif c == "S":
            e = off + 1 + w[off]
            out += w[off:e]
            off = e
        elif c == "*":
            out += w[off:]
            off = len(w)
        i += 1
    assert off == len(w)
    return out


def r_key_tag(rdata: bytes) -> int:
    """RFC 4034 Appendix B (and B.1 for algorithm 1)"""
    if rdata[3] == 1:
        return (rdata[-3] << 8) | rdata[-2]
    ac = 0
    for i, b in enumerate(rdata):
        ac += b if (i & 1) else (b << 8)
    ac += (ac >> 16) & 0xFFFF
    return ac & 0xFFFF


def r_u16(x):
    return x.to_bytes(2, "big")


def r_u32(x):
    return x.to_bytes(4, "big")


def r_rrsig_data(sig, signer_fqdn, owner_fqdn, rdtype, rdclass, canon_rdatas):
    """RFC 4034 §3.1.8.1 + RFC 4035 §5.3.2.  Returns bytes, "invalid" (Labels exceeds the owner's label count,
    RFC 4035 §5.3.1) or None (wildcard owner whose Labels field differs from its label count: the RFCs leave the
    reconstruction open; not judged)."""
    tc, alg, labels, ottl, exp, inc, tag = sig
    body = [l for l in owner_fqdn if l != b""]
    wild = bool(body) and body[0] == b"*"
    count = len(body) - (1 if wild else 0)
    if labels > count:
        return "invalid"
    if wild and labels != count:
        return None
    if labels == count:
        owner = owner_fqdn
    else:
        owner = [b"*"] + body[len(body) - labels:] + [b""]
    head = r_u16(tc) + bytes([alg, labels]) + r_u32(ottl) + r_u32(exp) + r_u32(inc) + r_u16(tag)
    out = head + r_wire(signer_fqdn, True)
    o = r_wire(owner, True)
    for rd in sorted(set(canon_rdatas)):  # RFC 4034 §6.3: left-justified unsigned octet sequences
        out += o + r_u16(rdtype) + r_u16(rdclass) + r_u32(ottl) + r_u16(len(rd)) + rd
    return out


R_DS_HASH = {1: "sha1", 2: "sha256", 4: "sha384"}


def r_ds(owner_fqdn, dnskey_rdata: bytes, digest_type: int) -> bytes:
    """RFC 4034 §5.1.4: digest = H(owner name | DNSKEY RDATA), owner in canonical form"""
    d = hashlib.new(R_DS_HASH[digest_type], r_wire(owner_fqdn, True) + dnskey_rdata).digest()
    return r_u16(r_key_tag(dnskey_rdata)) + bytes([dnskey_rdata[3], digest_type]) + d


def r_b32hex(b: bytes) -> str:
    """RFC 4648 §7"""
    bits = "".join(f"{x:08b}" for x in b)
    bits += "0" * (-len(bits) % 5)
    s = "".join("0123456789ABCDEFGHIJKLMNOPQRSTUV"[int(bits[i:i + 5], 2)] for i in range(0, len(bits), 5))
    return s + "=" * (-len(s) % 8)


def r_nsec3(fqdn, salt: bytes, iterations: int, H=None) -> str:
    """RFC 5155 §5: IH(salt, x, 0) = H(x || salt); IH(salt, x, k) = H(IH(salt, x, k-1) || salt)"""
    H = H or (lambda x: hashlib.sha1(x).digest())

    def ih(k):
        return H(r_wire(fqdn, True) + salt) if k == 0 else H(ih(k - 1) + salt)

    d = H(r_wire(fqdn, True) + salt)
    for _ in range(iterations):  # iterative form of the same recurrence (avoid deep recursion)
        d = H(d + salt)
    return r_b32hex(d)


def r_bitmap(types) -> bytes:
    """RFC 4034 §4.1.2: windows ascending, only those with a bit set, bitmap length minimal"""
    win = {}
    for t in set(types):
        win.setdefault(t >> 8, bytearray(32))[(t & 0xFF) >> 3] |= 0x80 >> (t & 7)
    out = b""
    for w in sorted(win):
        bm = bytes(win[w]).rstrip(b"\0")
        out += bytes([w, len(bm)]) + bm
    return out


def r_bitmap_decode(w: bytes):
    types, off, last = set(), 0, -1
    while off < len(w):
        win, n = w[off], w[off + 1]
        assert win > last and 1 <= n <= 32 and w[off + 1 + n] != 0, "window order / length / trailing zero octet"
        last = win
        for i in range(n):
            for j in range(8):
                if w[off + 2 + i] & (0x80 >> j):
                    types.add(win * 256 + i * 8 + j)
        off += 2 + n
    return types


def r_key(fqdn):
    """RFC 4034 §6.1 sort key: labels right to left, each as lower-cased octet string"""
    return [r_lower(l) for l in reversed(fqdn[:-1])]


def r_below(n, c):
    return len(n) > len(c) and [r_lower(l) for l in n[len(n) - len(c):]] == [r_lower(l) for l in c]


def r_nsec_chain(origin, nodes):
    """nodes: {fqdn(tuple of labels): set(types)}.  RFC 4035 §2.2/§2.3: returns
    ({owner: (next, types)}, set of (owner, type) that must be signed)."""
    apexk = r_key(list(origin))
    cuts = [n for n in nodes if r_key(list(n)) != apexk and NS in nodes[n]]
    auth = [n for n in nodes if not any(r_below(list(n), list(c)) for c in cuts)]
    order = sorted(auth, key=lambda n: r_key(list(n)))
    chain, signed = {}, set()
    for i, n in enumerate(order):
        nxt = order[(i + 1) % len(order)]
        present = set(nodes[n])
        if n in cuts:
            present &= {NS, DS}  # parent is authoritative only for NS (unsigned) and DS
            tosign = present & {DS}
        else:
            tosign = present - {RRSIG}
        chain[n] = (nxt, present | {NSEC, RRSIG})
        signed |= {(n, t) for t in tosign} | {(n, NSEC)}
    return chain, signed


def r_zonemd_input(origin, rrs):
    """RFC 8976 §3.3.1/§3.4.1 (SIMPLE).  rrs: (owner fqdn, type, covers, class, ttl, canonical rdata)"""
    apexk = r_key(list(origin))
    keep = {}
    for o, t, cov, cls, ttl, rd in rrs:
        if r_key(list(o)) == apexk and (t == ZONEMD or (t == RRSIG and cov == ZONEMD)):
            continue
        keep[(tuple(r_key(list(o))), t, rd)] = r_wire(o, True) + r_u16(t) + r_u16(cls) + r_u32(ttl) + r_u16(len(rd)) + rd
    return b"".join(keep[k] for k in sorted(keep))


# ================================================================================================
# adapters to the implementation
# ================================================================================================
VARIANTS = {"signer": "shipped", "last": "shipped", "cut": "shipped"}


def lab(hexes):
    return [bytes.fromhex(x) for x in hexes]


def hexl(labels):
    return [bytes(l).hex() for l in labels]


def mkname(hexes):
    return dns.name.Name(lab(hexes))


def optname(hexes):
    return None if hexes is None else mkname(hexes)


def enc_opt(hexes):
    return "none" if hexes is None else enc_labels(lab(hexes))


def build_rd(cls: int, spec: dict):
    """rdata from a self-contained spec {"ty", "text" (template with {n}), "names"} or {"ty", "wire"}"""
    if "wire" in spec:
        w = bytes.fromhex(spec["wire"])
        return dns.rdata.from_wire(cls, spec["ty"], w, 0, len(w))
    names = [mkname(n).to_text() for n in spec["names"]]
    return X.build(cls, spec["ty"], "text", spec["text"], names)


def fields_of(rd):
    """split an rdata into opaque octets and embedded names as its own `_to_wire` emits them"""
    calls = []
    orig = dns.name.Name.to_wire

    def spy(self, file=None, compress=None, origin=None, canonicalize=False):
        if file is None:
            return orig(self, file, compress, origin, canonicalize)
        a = file.tell()
        r = orig(self, file, compress, origin, canonicalize)
        calls.append((a, file.tell(), self))
        return r

    dns.name.Name.to_wire = spy
    try:
        f = io.BytesIO()
        rd._to_wire(f, None, dns.name.root, False)
    finally:
        dns.name.Name.to_wire = orig
    w = f.getvalue()
    out, pos = [], 0
    for a, b, n in calls:
        if a > pos:
            out.append("r" + w[pos:a].hex())
        out.append("n" + enc_labels(n.labels))
        pos = b
    if pos < len(w):
        out.append("r" + w[pos:].hex())
    return "/".join(out) if out else "_"


class Hang(BaseException):
    pass


def _on_alarm(signum, frame):
    raise Hang()


def outcome(fn, fmt):
    import signal
    signal.signal(signal.SIGALRM, _on_alarm)
    signal.alarm(6)
    try:
        return _outcome(fn, fmt)
    except Hang:
        return "FOREIGN Hang(did-not-return-in-6s)", None
    finally:
        signal.alarm(0)


def _outcome(fn, fmt):
    try:
        v = fn()
    except dns.name.NeedAbsoluteNameOrOrigin:
        return "err NeedAbsoluteNameOrOrigin", None
    except dns.exception.ValidationFailure:
        return "err ValidationFailure", None
    except dns.exception.UnsupportedAlgorithm:
        return "err UnsupportedAlgorithm", None
    except dns.exception.DeniedByPolicy:
        return "err DeniedByPolicy", None
    except dns.exception.DNSException as e:
        return "err " + type(e).__name__, None
    except ValueError:
        return "err ValueError", None
    except Hang:
        raise
    except BaseException as e:  # foreign
        if isinstance(e, _Stalled):
            raise
        return "FOREIGN " + type(e).__name__, None
    return "ok " + fmt(v), v


class _RecHash:
    """hashlib stand-in that records what is fed to it (and optionally replaces the digest by a toy hash)"""

    def __init__(self, real, log, toy=None):
        self.real, self.log, self.toy, self.buf = real, log, toy, b""

    def __call__(self, data=b""):
        h = _RecHash(self.real, self.log, self.toy)
        h.buf = bytes(data)
        return h

    def update(self, b):
        self.buf += bytes(b)

    def digest(self):
        self.log.append(self.buf)
        if self.toy is not None:
            return self.toy(self.buf)
        return self.real(self.buf).digest()


def toy_hash(n):
    def h(data):
        s = 19088743 + n
        for b in data:
            s = (s * 31 + b + 1) % 4294967296
        out = bytearray()
        for _ in range(n):
            s = (s * 1103515245 + 12345) % 2147483648
            out.append((s >> 16) & 0xFF)
        return bytes(out)
    return h


class _FakeHashlib:
    def __init__(self, log, toy=False):
        self.sha1 = _RecHash(hashlib.sha1, log, toy_hash(20) if toy else None)
        self.sha256 = _RecHash(hashlib.sha256, log, toy_hash(32) if toy else None)
        self.sha384 = _RecHash(hashlib.sha384, log, toy_hash(48) if toy else None)
        self.sha512 = _RecHash(hashlib.sha512, log, toy_hash(64) if toy else None)


def with_dnssec_hashlib(fake, fn):
    old = dns.dnssec.hashlib
    dns.dnssec.hashlib = fake
    try:
        return fn()
    finally:
        dns.dnssec.hashlib = old


def sig_family(sig):
    return sig.split(" ")[1] if sig.startswith("err") else sig.split(" ")[0]


# ================================================================================================
# case evaluation
# ================================================================================================
def eval_digest(ctx, c, rep):
    cls, spec, origin = c["cls"], c["rd"], c["origin"]
    rd = build_rd(cls, spec)
    ty = int(rd.rdtype)
    o = optname(origin)
    fields = fields_of(rd)
    canon, cv = outcome(lambda: rd.to_digestable(o), hx)
    plain, pv = outcome(lambda: rd.to_wire(origin=o), hx)
    ctx.corr(f"c15.digest {cls} {ty} {enc_opt(origin)} {fields} 1", canon, c)
    ctx.corr(f"c15.digest {cls} {ty} {enc_opt(origin)} {fields} 0", plain, c)
    tname = dns.rdatatype.to_text(ty)
    ctx.count("digest." + ("generic" if isinstance(rd, dns.rdata.GenericRdata) else "typed") + "." + sig_family(canon))
    if canon.startswith("FOREIGN") or plain.startswith("FOREIGN"):
        ctx.fail(f"C15/to_digestable/foreign-exception/{tname}", f"{tname} {spec} origin={origin}: {canon} / {plain}", rep)
        return
    if (cv is None) != (pv is None):
        ctx.fail(f"C15/to_digestable/outcome-differs-from-to_wire/{tname}", f"{tname}: digestable {canon}, wire {plain}", rep)
        return
    if cv is None:
        return
    pw = rd.to_wire(origin=o)
    dg = rd.to_digestable(o)
    try:
        want = r_canon_rdata(ty, pw)
    except (AssertionError, IndexError) as e:
        ctx.fail(f"C15/to_wire/not-rfc-layout/{tname}", f"uncompressed wire form of {tname} does not parse by its RFC layout: {e!r}", rep)
        return
    if not isinstance(rd, dns.rdata.GenericRdata) and o is None and len(pw) < 4000:
        gt = f"\\# {len(pw)} {pw.hex()}" if pw else "\\# 0"
        r2, v2 = outcome(lambda: dns.rdata.from_text(cls, ty, gt), lambda x: type(x).__name__)
        if v2 is None or type(v2) is not type(rd) or v2.to_digestable() != dg or not (v2 == rd) or (v2 != rd) or hash(v2) != hash(rd):
            ctx.fail(f"C15/to_digestable/generic-text-route-differs/{tname}", f"{tname} given as `{gt[:60]}`: {r2}; canonical form {v2.to_digestable().hex() if v2 is not None else None} vs {dg.hex()}", rep)
            return
    if dg != want:
        generic = isinstance(rd, dns.rdata.GenericRdata)
        if len(dg) != len(want):
            what = "length-differs(compressed-or-truncated)"
        elif r_lower(dg) != r_lower(want):
            what = "octets-differ"
        elif ty in R_LOWER_LAYOUT:
            what = "not-lowered" + ("/unimplemented-rfc4034-type" if generic else "")
        else:
            what = "lowered-not-in-rfc4034-6.2"
        clsname = dns.rdataclass.to_text(cls)
        specific = ".CH." in type(rd).__module__ + "."  # the only class-specific implementation outside IN
        sig = f"C15/to_digestable/{what}" + ("" if generic else f"/{clsname}-{tname}" if specific else f"/{tname}")
        ctx.fail(sig, f"to_digestable of {clsname} {tname} = {dg.hex()}, RFC 4034 §6.2 canonical form = {want.hex()}", rep)


def eval_keyid(ctx, c, rep):
    w = bytes.fromhex(c["rdata"])
    ty = c.get("ty", DNSKEY)
    key = dns.rdata.from_wire(1, ty, w, 0, len(w))
    r, v = outcome(lambda: dns.dnssec.key_id(key), str)
    ctx.corr(f"c15.keyid {hx(w)}", r, c)
    ctx.count("keyid." + ("rsamd5" if w[3] == 1 else "even" if len(w) % 2 == 0 else "odd"))
    if v != r_key_tag(w):
        ctx.fail("C15/key_id/value-differs" + ("/rsamd5" if w[3] == 1 else ""), f"key_id({w.hex()}) = {r}, RFC 4034 App. B = {r_key_tag(w)}", rep)


def eval_rrsigdata(ctx, c, rep):
    cls, ty = c["cls"], c["ty"]
    s = c["sig"]  # [tc, alg, labels, ottl, exp, inc, tag]
    origin = c["origin"]
    o = optname(origin)
    signer = mkname(c["signer"])
    rrname = mkname(c["rrname"])
    rds = [build_rd(cls, sp) for sp in c["rds"]]
    from dns.rdtypes.ANY.RRSIG import RRSIG as RRSIGc
    rrsig = RRSIGc(1, RRSIG, s[0], s[1], s[2], s[3], s[4], s[5], s[6], signer, b"\x01\x02")
    rdataset = dns.rdataset.Rdataset(cls, ty, ttl=c["ttl"])
    for rd in rds:
        rdataset.add(rd)
    members = list(rdataset)
    # argument forms: (name, rdataset) tuple or RRset object; origin as Name or as text
    rr_arg = (rrname, rdataset)
    if c.get("rrform") == "rrset":
        rr_arg = dns.rrset.RRset(rrname, cls, ty)
        rr_arg.update_ttl(c["ttl"])
        for rd in members:
            rr_arg.add(rd)
    o_arg = o
    if c.get("oform") == "text" and o is not None:
        # a textual origin is read relative to the root: `example` means `example.`
        o_arg = o.to_text()
        if not o.is_absolute():
            origin = origin + [""]
            o = optname(origin)
    ctx.count(f"rrsigdata.form.{'rrset' if c.get('rrform') == 'rrset' else 'tuple'}.{'otext' if isinstance(o_arg, str) else 'oname'}")
    r, v = outcome(lambda: dns.dnssec._make_rrsig_signature_data(rr_arg, rrsig, o_arg), hx)
    line = (f"c15.rrsigdata {s[0]} {s[1]} {s[2]} {s[3]} {s[4]} {s[5]} {s[6]} {enc_labels(signer.labels)} "
            f"{enc_opt(origin)} {enc_labels(rrname.labels)} {ty} {cls} " + " ".join(fields_of(rd) for rd in members))
    ctx.corr(line.rstrip(), r, c)
    ctx.count("rrsigdata." + sig_family(r))
    if r.startswith("FOREIGN"):
        ctx.fail("C15/rrsig-data/foreign-exception:" + r.split(" ")[1], f"_make_rrsig_signature_data -> {r}", rep)
        return
    sf = r_fqdn(signer.labels, None if origin is None else lab(origin))
    of = r_fqdn(rrname.labels, None if origin is None else lab(origin))
    if sf is None or of is None or sf[-1:] != [b""] or of[-1:] != [b""]:
        if v is not None:
            ctx.fail("C15/rrsig-data/relative-name-without-origin-accepted", f"{r}", rep)
        return
    if sum(len(l) + 1 for l in sf) > 255 or sum(len(l) + 1 for l in of) > 255:
        if v is not None:
            ctx.fail("C15/rrsig-data/overlong-name-accepted", f"{r}", rep)
        return
    try:
        canon = [r_canon_rdata(ty, rd.to_wire(origin=o)) for rd in members]
    except dns.exception.DNSException:
        return  # an embedded relative name that does not fit: the rdata itself has no wire form
    if len(set(canon)) != len(canon):
        ctx.count("rrsigdata.duplicate-rrs-after-derelativisation(not judged)")
        return  # not an RRset in the sense of RFC 2181 §5 (relative and absolute spelling of one name)
    try:
        # only records whose names are all absolute: Rdata comparison has its own rule for relative names
        rootc = [(rd, r_canon_rdata(ty, rd.to_wire())) for rd in members]
    except dns.exception.DNSException:
        rootc = []
    for i, (a, ca) in enumerate(rootc):
        for b, cb in rootc[i:]:
            bad = ((a == b) != (ca == cb) or (a != b) != (ca != cb) or (a < b) != (ca < cb) or (a <= b) != (ca <= cb)
                   or (a > b) != (ca > cb) or (a >= b) != (ca >= cb) or (b == a) != (a == b) or (ca == cb and hash(a) != hash(b)))
            if bad:
                ctx.fail("C15/rdata-order/differs-from-canonical-octet-order", f"type {ty}: {a} vs {b}: ==:{a == b} <:{a < b}; canonical octets {ca.hex()} vs {cb.hex()}", rep)
                return
    want = r_rrsig_data(tuple(s), sf, of, ty, cls, canon)
    if want is None:
        ctx.count("rrsigdata.wild-labels-mismatch(not judged)")
        return
    if want == "invalid":
        if v is not None:
            ctx.fail("C15/rrsig-data/labels-exceed-owner-accepted", f"labels={s[2]} owner={of}: {r}", rep)
        return
    if v is None:
        ctx.fail("C15/rrsig-data/valid-input-rejected", f"labels={s[2]} owner={of}: {r}", rep)
        return
    got = bytes.fromhex(r[3:]) if r[3:] != "-" else b""
    if got != want:
        rel_signer = not signer.is_absolute() and len(signer.labels) > 0
        head = 18 + len(r_wire(sf, True))
        if rel_signer and got[:18] == want[:18] and got[18:18 + len(r_wire(list(signer.labels) + sf, True))] == r_wire(list(signer.labels) + sf, True) \
                and got[18 + len(r_wire(list(signer.labels) + sf, True)):] == want[head:]:
            sig = "C15/rrsig-data/signer-name/relative-signer-prefix-doubled"
        elif got[:18] != want[:18]:
            sig = "C15/rrsig-data/rrsig-rdata-prefix"
        elif got[:head] != want[:head]:
            sig = "C15/rrsig-data/signer-name"
        elif len(got) == len(want) and sorted(got) == sorted(want) and r_lower(got) == r_lower(want):
            sig = "C15/rrsig-data/case"
        else:
            sig = "C15/rrsig-data/rr-section"
        ctx.fail(sig, f"signature data {got.hex()} != RFC 4034 §3.1.8.1 {want.hex()}", rep)


def eval_ds(ctx, c, rep):
    w = bytes.fromhex(c["key"])
    key = dns.rdata.from_wire(1, c.get("kty", DNSKEY), w, 0, len(w))
    name = mkname(c["name"])
    dt = c["dt"]
    policy = dns.dnssec.allow_all_policy if c["policy"] == "all" else None
    deny = "-" if c["policy"] == "all" else "0,1,3"
    log = []
    r, v = outcome(lambda: with_dnssec_hashlib(_FakeHashlib(log), lambda: dns.dnssec.make_ds(name, key, dt, policy=policy)),
                   lambda ds: hx(ds.to_wire()))
    if v is not None:
        impl = f"ok {hx(v.to_wire()[:4])} {hx(log[-1]) if log else '?'}"
    else:
        impl = r
    ctx.corr(f"c15.ds {enc_labels(name.labels)} {hx(w)} {dt} {deny}", impl, c)
    ctx.count("ds." + sig_family(r))
    if r.startswith("FOREIGN"):
        ctx.fail("C15/make_ds/foreign-exception:" + r.split(" ")[1], f"make_ds -> {r}", rep)
        return
    fq = r_fqdn(name.labels, None)
    supported = dt in R_DS_HASH and not (c["policy"] != "all" and dt in (0, 1, 3))
    if not supported or fq is None:
        if v is not None:
            ctx.fail("C15/make_ds/unsupported-accepted", f"make_ds(dt={dt}, policy={c['policy']}) -> {r}", rep)
        return
    want = r_ds(fq, w, dt)
    if v is None or v.to_wire() != want:
        ctx.fail("C15/make_ds/value-differs", f"make_ds({name}, {w.hex()}, {dt}) -> {r}; RFC 4034 §5.1.4: {want.hex()}", rep)
        return
    # CDS and the rdataset helpers are the same computation
    if c["policy"] == "all" or dt not in (0, 1, 3):
        try:
            cds = dns.dnssec.make_cds(name, key, dt)
            if cds.to_wire() != want or int(cds.rdtype) != 59:
                ctx.fail("C15/make_cds/value-differs", f"make_cds -> {cds.to_wire().hex()}", rep)
            rds = dns.rdataset.Rdataset(1, key.rdtype, ttl=300)
            rds.add(key)
            dsr = dns.dnssec.make_ds_rdataset((name, rds), {dt})
            if [x.to_wire() for x in dsr] != [want]:
                ctx.fail("C15/make_ds_rdataset/value-differs", f"{[x.to_wire().hex() for x in dsr]}", rep)
        except dns.exception.DeniedByPolicy:
            pass
        except (dns.exception.DNSException, ValueError, TypeError, AttributeError, KeyError) as e:
            ctx.fail("C15/ds-helpers/raises:" + type(e).__name__, f"make_cds / make_ds_rdataset raised on valid input: {e!r}", rep)


def _txt(s: str) -> str:
    return hx(s.encode("ascii"))


def eval_nsec3(ctx, c, rep):
    name = mkname(c["name"])
    salt = bytes.fromhex(c["salt"])
    it = c["iter"]
    alg = c["alg"]
    log = []
    r, v = outcome(lambda: with_dnssec_hashlib(_FakeHashlib(log, toy=True), lambda: dns.dnssec.nsec3_hash(name, salt, it, alg)), str)
    ctx.corr(f"c15.nsec3 {enc_labels(name.labels)} {hx(salt)} {it} {alg}", r, c)
    ctx.count("nsec3." + sig_family(r))
    # every accepted (and some refused) spelling of the arguments: domain as Name/str, salt as None/str/bytes,
    # algorithm as int/str; then the owner name callers build from the hash
    dform, sform, aform = c.get("dform", "name"), c.get("sform", "bytes"), c.get("aform")
    d_arg = name if dform == "name" else name.to_text()
    d_tok = "n:" + enc_labels(name.labels) if dform == "name" else "t:" + _txt(name.to_text())
    if sform == "bytes":
        s_arg, s_tok = salt, "b:" + hx(salt)
    elif sform == "none":
        s_arg, s_tok = None, "none"
    elif sform in ("hex", "HEX"):
        s_arg = salt.hex() if sform == "hex" else salt.hex().upper()
        s_tok = "t:" + _txt(s_arg)
    else:  # raw text, possibly malformed
        s_arg, s_tok = c["stext"], "t:" + _txt(c["stext"])
    a_arg = alg if aform is None else aform
    a_tok = f"i:{alg}" if aform is None else "t:" + _txt(aform)
    if c.get("enum") and aform is None and alg == 1:
        a_arg = dns.dnssectypes.NSEC3Hash.SHA1  # enum member instead of the plain integer
    if c.get("bytearray") and sform == "bytes":
        s_arg = bytearray(salt)
    r2, v2 = outcome(lambda: with_dnssec_hashlib(_FakeHashlib([], toy=True), lambda: dns.dnssec.nsec3_hash(d_arg, s_arg, it, a_arg)), str)
    ctx.corr(f"c15.nsec3args {d_tok} {s_tok} {it} {a_tok}", r2, c)
    ctx.count(f"nsec3args.{dform}.{sform}.{'int' if aform is None else 'text'}." + sig_family(r2))
    zone = mkname(c.get("zone", [""]))
    if v2 is not None:
        r3, v3 = outcome(lambda: dns.name.from_text(v2, zone), lambda n: enc_labels(n.labels))
        ctx.corr(f"c15.nsec3owner {d_tok} {s_tok} {it} {a_tok} {enc_labels(zone.labels)}", r3, c)
        if r3.startswith("FOREIGN"):
            ctx.fail("C15/nsec3-owner/foreign-exception", f"from_text({v2!r}, {zone}) -> {r3}", rep)
        elif v3 is not None and (v3.labels[0] != v2.encode() or v3.labels[1:] != zone.labels):
            ctx.fail("C15/nsec3-owner/not-hash-label-plus-zone", f"from_text({v2!r}, {zone}) = {v3.labels}", rep)
    if r2.startswith("FOREIGN"):
        ctx.fail("C15/nsec3_hash/foreign-exception:" + r2.split(" ")[1], f"nsec3_hash({d_arg!r}, {s_arg!r}, {it}, {a_arg!r}) -> {r2}", rep)
        return
    # reference for the spelled arguments (real SHA-1)
    fq = r_fqdn(name.labels, [b""] if dform == "text" else None)
    if sform == "raw":
        st = c["stext"]
        ok_salt = len(st) % 2 == 0
        ref_salt = None
        if ok_salt:
            pairs = "".join(ch for ch in st if ch not in " \t\n\r\x0b\x0c")
            hexd = "0123456789abcdefABCDEF"
            # whitespace may only separate whole octets
            toks = st.replace("\t", " ").replace("\n", " ").replace("\r", " ").replace("\x0b", " ").replace("\x0c", " ").split(" ")
            ok_salt = all(len(t) % 2 == 0 and all(ch in hexd for ch in t) for t in toks)
            if ok_salt:
                ref_salt = bytes(int(pairs[i:i + 2], 16) for i in range(0, len(pairs), 2))
    else:
        ok_salt, ref_salt = True, (b"" if sform == "none" else salt)
    ok_alg = (alg == 1) if aform is None else (aform.upper() == "SHA1")
    rr, vv = outcome(lambda: dns.dnssec.nsec3_hash(d_arg, s_arg, it, a_arg), str)
    if not (ok_alg and ok_salt and fq is not None):
        if vv is not None or rr.startswith("FOREIGN") or ((not ok_alg or not ok_salt) and rr != "err ValueError"):
            ctx.fail("C15/nsec3_hash/bad-input-outcome", f"nsec3_hash({d_arg!r}, {s_arg!r}, {it}, {a_arg!r}) -> {rr}", rep)
        return
    if sum(len(l) + 1 for l in fq) > 255:
        return  # the textual domain does not fit once the root is appended
    if v2 != r_nsec3(fq, ref_salt, it, toy_hash(20)):
        ctx.fail("C15/nsec3_hash/structure", f"nsec3_hash under a substituted hash: {r2} != {r_nsec3(fq, ref_salt, it, toy_hash(20))}", rep)
        return
    want = r_nsec3(fq, ref_salt, it)
    if vv != want:
        ctx.fail("C15/nsec3_hash/value-differs", f"nsec3_hash({d_arg!r}, {s_arg!r}, {it}, {a_arg!r}) -> {rr}; RFC 5155 §5: {want}", rep)
        return
    # the NSEC3 RDATA spells the same hash (next hashed owner) and salt: RFC 5155 §3.3
    from dns.rdtypes.ANY.NSEC3 import NSEC3 as NSEC3c
    digest = hashlib.sha1(r_wire(fq, True) + ref_salt).digest()
    for _ in range(it):
        digest = hashlib.sha1(digest + ref_salt).digest()
    if len(ref_salt) <= 255 and it <= 65535:
        f = NSEC3c(1, 50, 1, 0, it, ref_salt, digest, ()).to_text().split(" ")
        if f[3] != ("-" if not ref_salt else ref_salt.hex()) or f[4].upper() != want:
            ctx.fail("C15/nsec3-rdata/text-differs-from-hash", f"NSEC3 text {f} vs hash {want}", rep)


def eval_bitmap(ctx, c, rep):
    types = c["types"]
    r, v = outcome(lambda: Bitmap.from_rdtypes([dns.rdatatype.RdataType.make(t) for t in types]),
                   lambda b: (";".join(f"{w}:{hx(bm)}" for w, bm in b.windows) or "-"))
    wire = b""
    if v is not None:
        f = io.BytesIO()
        v.to_wire(f)
        wire = f.getvalue()
        r += " " + hx(wire)
    ctx.corr("c15.bitmap " + (",".join(str(t) for t in types) or "-"), r, c)
    ctx.count("bitmap.windows=" + str(min(len(v.windows), 4)) if v is not None else "bitmap.err")
    if v is None:
        ctx.fail("C15/bitmap/raises", f"Bitmap.from_rdtypes({types}) -> {r}", rep)
        return
    if 0 in types:
        return  # type 0 has no bit (NSEC text rejects it); only the correspondence is checked
    try:
        dec = r_bitmap_decode(wire)
    except (AssertionError, IndexError) as e:
        ctx.fail("C15/bitmap/malformed-windows", f"Bitmap.from_rdtypes({types}) -> {wire.hex()}: {e}", rep)
        return
    if dec != set(types) or wire != r_bitmap(types):
        ctx.fail("C15/bitmap/type-set-differs", f"from_rdtypes({types}) decodes to {sorted(dec)}; wire {wire.hex()} vs RFC 4034 §4.1.2 {r_bitmap(types).hex()}", rep)


def build_zone(c):
    import dns.versioned
    origin = mkname(c["origin"])
    cls = c.get("cls", 1)
    zclass = c.get("zclass", "plain")
    Z = dns.versioned.Zone if zclass == "versioned" else dns.zone.Zone
    z = Z(origin, cls, relativize=c["rel"])
    items = []
    for nd in c["nodes"]:
        name = mkname(nd["name"])
        for rs in nd["rds"]:
            rds = dns.rdataset.Rdataset(cls, rs["ty"], rs.get("covers", 0), rs["ttl"])
            for sp in rs["rd"]:
                rds.add(build_rd(cls, sp), rs["ttl"])
            items.append((name, rds))
    if zclass == "versioned":
        with z.writer() as txn:
            for name, rds in items:
                txn.replace(name, rds)
    else:
        for name, rds in items:
            z.replace_rdataset(name, rds)
    return z


def zone_fqdn(z, name):
    return tuple(name.labels) if name.is_absolute() else tuple(name.labels) + tuple(z.origin.labels)


def dummy_rrsig(rrset, origin):
    from dns.rdtypes.ANY.RRSIG import RRSIG as RRSIGc
    return RRSIGc(rrset.rdclass, RRSIG, rrset.rdtype, 8, 1, rrset.ttl, 2000000000, 1000000000, 1, origin, b"\x00")


def eval_signzone(ctx, c, rep):
    z = build_zone(c)
    origin = z.origin
    before = {}
    order = []
    for name, node in z.nodes.items():
        before[zone_fqdn(z, name)] = set(int(r.rdtype) for r in node.rdatasets)
        order.append(f"{enc_labels(name.labels)}|" + ",".join(str(int(r.rdtype)) for r in node.rdatasets))
    events = []

    def signer(txn, rrset):
        if rrset.rdtype == NSEC:
            rd = rrset[0]
            events.append(f"N:{enc_labels(rrset.name.labels)}:{enc_labels(rd.next.labels)}:" + (";".join(f"{w}:{hx(bm)}" for w, bm in rd.windows) or "-"))
        events.append(f"S:{enc_labels(rrset.name.labels)}:{int(rrset.rdtype)}")
        txn.add(rrset.name, rrset.ttl, dummy_rrsig(rrset, origin))

    route = c.get("route", "plain")
    handed = []

    def signer2(txn, rrset):
        handed.append((rrset.name, int(rrset.rdtype), int(rrset.rdclass), rrset.ttl, sorted(rd.to_wire(origin=origin) for rd in rrset)))
        signer(txn, rrset)

    pre = {(zone_fqdn(z, n), int(r.rdtype), int(r.covers)): (r.ttl, sorted(rd.to_wire(origin=origin) for rd in r), int(r.rdclass))
           for n, node in z.nodes.items() for r in node.rdatasets}
    soa0 = z.get_soa()
    keyspecs = c.get("keys", [])
    keys = [(None, dns.rdata.from_wire(z.rdclass, DNSKEY, bytes.fromhex(k), 0, len(bytes.fromhex(k)))) for k in keyspecs]
    if route == "txn":
        def run():
            with z.writer() as txn:
                dns.dnssec.sign_zone(z, txn=txn, add_dnskey=False, rrset_signer=signer2)
        r, v = outcome(run, lambda _: "")
    elif route == "defaults":
        # every optional argument omitted: add_dnskey defaults to True but there are no keys to add
        r, v = outcome(lambda: dns.dnssec.sign_zone(z, rrset_signer=signer2), lambda _: "")
    elif route == "adddnskey":
        r, v = outcome(lambda: dns.dnssec.sign_zone(z, keys=keys, add_dnskey=True, dnskey_ttl=c.get("dnskey_ttl"), rrset_signer=signer2), lambda _: "")
    else:
        r, v = outcome(lambda: dns.dnssec.sign_zone(z, add_dnskey=False, rrset_signer=signer2), lambda _: "")
    impl = ("ok " + (" ".join(events) or "-")) if v is not None or r.startswith("ok") else r
    if route != "adddnskey":
        ctx.corr(f"c15.signzone {enc_labels(origin.labels)} 1 " + " ".join(order), impl, c)
    ctx.count("signzone." + sig_family(r) + (".rel" if c["rel"] else ".abs") + "." + route + "." + c.get("zclass", "plain"))
    if not r.startswith("ok"):
        ctx.fail("C15/sign_zone/raises:" + r.split(" ")[1], f"sign_zone -> {r}", rep)
        return
    apexfq = tuple(origin.labels)
    if route == "adddnskey":
        # the DNSKEY RRset at the apex: given keys added to what was there, TTL = explicit, else that of the
        # existing DNSKEY RRset, else the SOA RRset's
        old = pre.get((apexfq, DNSKEY, 0))
        soa_ttl = pre[(apexfq, SOA, 0)][0]
        want_ttl = c["dnskey_ttl"] if c.get("dnskey_ttl") is not None else (old[0] if old else soa_ttl)
        if old:
            want_ttl = min(want_ttl, old[0])  # adding to an existing RRset keeps the lower TTL (Rdataset.add, C07)
        want_keys = sorted(set((old[1] if old else []) + [k.to_wire() for _, k in keys]))
        got_rds = z.get_rdataset(origin, DNSKEY)
        got_keys = sorted(rd.to_wire() for rd in got_rds) if got_rds is not None else []
        if got_keys != want_keys or (keys and got_rds.ttl != want_ttl):
            ctx.fail("C15/sign_zone/add_dnskey/dnskey-rrset-differs", f"apex DNSKEY ttl={got_rds.ttl if got_rds else None} (want {want_ttl}), {len(got_keys)} keys (want {len(want_keys)})", rep)
            return
        if keys:
            pre[(apexfq, DNSKEY, 0)] = (want_ttl, want_keys, int(z.rdclass))
            before[apexfq] = before[apexfq] | {DNSKEY}
    # every RRset handed to the signer is the zone's RRset as it is (owner, class, TTL, records); the NSEC RRsets
    # carry the SOA MINIMUM as TTL (RFC 4035 §2.3) and the zone's class
    for name, ty, cls_, ttl, wires in handed:
        if ty == NSEC:
            if ttl != soa0.minimum or cls_ != int(z.rdclass):
                ctx.fail("C15/sign_zone/nsec-ttl-or-class", f"NSEC at {name}: ttl {ttl} (SOA minimum {soa0.minimum}), class {cls_} (zone {int(z.rdclass)})", rep)
                return
            continue
        cands = [v_ for k_, v_ in pre.items() if k_[0] == zone_fqdn(z, name) and k_[1] == ty]
        if not any(v_ == (ttl, wires, cls_) for v_ in cands):
            ctx.fail("C15/sign_zone/rrset-handed-to-signer-differs-from-zone", f"{name} type {ty}: ttl {ttl}, {len(wires)} records; zone has {[(x[0], len(x[1])) for x in cands]}", rep)
            return
    for name, node in z.nodes.items():
        rds = node.get_rdataset(z.rdclass, NSEC)
        if rds is not None and (rds.ttl != soa0.minimum):
            ctx.fail("C15/sign_zone/nsec-ttl-or-class", f"NSEC rdataset at {name}: ttl {rds.ttl}, SOA minimum {soa0.minimum}", rep)
            return
    if route == "txn":
        # a transaction that is rolled back leaves the zone alone (sign_zone must work in the caller's transaction)
        z3 = build_zone(c)
        snap = z3.to_text()
        def run3():
            with z3.writer() as txn:
                dns.dnssec.sign_zone(z3, txn=txn, add_dnskey=False, rrset_signer=lambda t, rr: None)
                txn.rollback()
        r3, _ = outcome(run3, lambda _: "")
        if not r3.startswith("ok"):
            ctx.fail("C15/sign_zone/txn-route-raises", f"sign_zone(txn=...) then rollback -> {r3}", rep)
            return
        if z3.to_text() != snap:
            ctx.fail("C15/sign_zone/txn-ignored", "sign_zone(txn=...) changed the zone although the caller rolled the transaction back", rep)
            return
    if c.get("probe_nsec3"):
        from dns.rdtypes.ANY.NSEC3PARAM import NSEC3PARAM
        z4 = build_zone(c)
        snap = z4.to_text()
        r4, _ = outcome(lambda: dns.dnssec.sign_zone(z4, add_dnskey=False, nsec3=NSEC3PARAM(1, 51, 1, 0, 0, b""), rrset_signer=lambda t, rr: None), lambda _: "")
        if r4 != "FOREIGN NotImplementedError" or z4.to_text() != snap:
            ctx.fail("C15/sign_zone/nsec3-not-refused", f"sign_zone(nsec3=...) -> {r4}; zone changed: {z4.to_text() != snap}", rep)
            return
    # second run without a signer function (default signer, no keys): the chain must be the same
    z2 = build_zone(c)
    if route == "adddnskey":
        r2, _ = outcome(lambda: dns.dnssec.sign_zone(z2, keys=keys, add_dnskey=True, dnskey_ttl=c.get("dnskey_ttl"), rrset_signer=lambda t, rr: None), lambda _: "")
    else:
        r2, _ = outcome(lambda: dns.dnssec.sign_zone(z2, add_dnskey=False), lambda _: "")
    got = {}
    wires_ok = True
    for zz, tag in ((z, "recorder"), (z2, "nokeys")):
        g = {}
        for name, node in zz.nodes.items():
            rds = node.get_rdataset(zz.rdclass, NSEC)
            if rds is None:
                continue
            if len(rds) != 1:
                ctx.fail("C15/sign_zone/nsec-chain/not-exactly-one-nsec", f"{len(rds)} NSEC records at {name}", rep)
                return
            rd = rds[0]
            w = rd.to_wire(origin=origin)
            nx = zone_fqdn(zz, rd.next)
            nw = r_wire(nx, False)
            try:
                types = r_bitmap_decode(w[len(nw):])
            except (AssertionError, IndexError) as e:
                ctx.fail("C15/sign_zone/nsec-bitmap/malformed", f"NSEC at {name}: {w.hex()}: {e}", rep)
                return
            if w[:len(nw)] != nw or w[len(nw):] != r_bitmap(types):
                wires_ok = False
            g[zone_fqdn(zz, name)] = (nx, types)
        got[tag] = g
    if not r2.startswith("ok") or got["recorder"] != got["nokeys"]:
        ctx.fail("C15/sign_zone/nsec-chain/depends-on-signer", f"chain with a recording signer differs from the chain without keys ({r2})", rep)
        return
    if not wires_ok:
        ctx.fail("C15/sign_zone/nsec-rdata/not-canonical-encoding", "NSEC RDATA is not next-name + minimal ascending windows", rep)
        return
    chain, must_sign = r_nsec_chain(tuple(origin.labels), before)
    # the Lean-side specification (`secure`) and the hypotheses of C15.nsec_chain_partial on this zone, against the
    # Python reference: the expected line is built from the reference only
    stored = {zone_fqdn(z, n): n for n in z.nodes}
    ref_order = sorted(chain, key=lambda n: r_key(list(n)))
    if len(order) <= 40:
        ctx.corr(f"c15.chainspec {enc_labels(origin.labels)} " + " ".join(order),
                 "ok true true true true " + (";".join(enc_labels(stored[n].labels) for n in ref_order) or "-"), c)
    g = got["recorder"]
    low = lambda n: tuple(r_lower(l) for l in n)
    gk = {low(k): (low(v_[0]), v_[1]) for k, v_ in g.items()}
    wk = {low(k): (low(v_[0]), v_[1]) for k, v_ in chain.items()}
    if gk != wk:
        # classify narrowly
        apex_only = c["rel"] and len(before) == 1 and not gk
        cutk = {low(n) for n in before if r_key(list(n)) != r_key(list(origin.labels)) and NS in before[n]}
        extra_at_cut = (set(gk) == set(wk) and all(gk[k][0] == wk[k][0] for k in gk) and
                        all(gk[k][1] == wk[k][1] or (k in cutk and gk[k][1] > wk[k][1]) for k in gk))
        if apex_only:
            sig = "C15/sign_zone/nsec-chain/apex-only-relativized-zone-gets-no-nsec"
        elif extra_at_cut:
            sig = "C15/sign_zone/nsec-bitmap/non-authoritative-type-at-delegation-point"
        elif set(gk) != set(wk):
            sig = "C15/sign_zone/nsec-chain/owner-set-differs"
        elif any(gk[k][0] != wk[k][0] for k in gk):
            sig = "C15/sign_zone/nsec-chain/next-differs"
        else:
            sig = "C15/sign_zone/nsec-bitmap/type-set-differs"
        diff = {".".join(l.decode("latin1") for l in k): (sorted(gk.get(k, ((), set()))[1]), sorted(wk.get(k, ((), set()))[1])) for k in set(gk) | set(wk) if gk.get(k) != wk.get(k)}
        ctx.fail(sig, f"NSEC chain differs from RFC 4035 §2.3 reference at {diff}", rep)
    def nsec_map(zz):
        m = {}
        for name, node in zz.nodes.items():
            rds = node.get_rdataset(zz.rdclass, NSEC)
            if rds is not None:
                m[low(zone_fqdn(zz, name))] = sorted((low(zone_fqdn(zz, rd.next)), tuple(rd.windows)) for rd in rds)
        return m

    if gk == wk and route != "adddnskey":
        first = nsec_map(z2)
        # (a) signing an already signed zone again changes nothing in the chain: still one NSEC per secure name
        r8, _ = outcome(lambda: dns.dnssec.sign_zone(z2, add_dnskey=False, rrset_signer=lambda t, rr: None), lambda _: "")
        if not r8.startswith("ok") or nsec_map(z2) != first:
            ctx.fail("C15/sign_zone/re-sign-not-idempotent", f"second sign_zone on the signed zone: {r8}; chain changed: {nsec_map(z2) != first}", rep)
            return
        # (b) a signer that raises (library or foreign exception, even a BaseException) aborts the whole operation:
        #     the exception reaches the caller, the zone is untouched, and signing afterwards works as on a fresh zone
        k = c.get("raise_at")
        if k is not None:
            class Boom(BaseException):
                pass
            exc = {"value": ValueError, "dns": dns.exception.FormError, "base": Boom}[c.get("raise_kind", "value")]
            z6 = build_zone(c)
            snap = z6.to_text()
            calls = [0]

            def bad(txn, rrset):
                calls[0] += 1
                if calls[0] == k + 1:
                    raise exc("signer failed")  # exactly once: a swallowed exception must not go unnoticed
                txn.add(rrset.name, rrset.ttl, dummy_rrsig(rrset, origin))
            reached = True
            try:
                dns.dnssec.sign_zone(z6, add_dnskey=False, rrset_signer=bad)
                escaped = False
                reached = calls[0] > k  # fewer signer calls than k: nothing was raised, nothing to check
            except exc:
                escaped = True
            except BaseException as e:  # noqa
                if isinstance(e, _Stalled):
                    raise
                ctx.fail("C15/sign_zone/signer-exception-replaced", f"signer raised {exc.__name__}, caller saw {type(e).__name__}", rep)
                return
            ctx.count("signzone.signer-raises." + (c.get("raise_kind", "value") if reached else "not-reached"))
            if not reached:
                pass
            elif not escaped or z6.to_text() != snap:
                ctx.fail("C15/sign_zone/state-after-signer-exception", f"signer raised {exc.__name__} at call {k + 1}: propagated={escaped}, zone unchanged={z6.to_text() == snap}", rep)
                return
            r9, _ = ("ok", None) if not reached else outcome(lambda: dns.dnssec.sign_zone(z6, add_dnskey=False, rrset_signer=lambda t, rr: None), lambda _: "")
            if reached and (not r9.startswith("ok") or nsec_map(z6) != first):
                ctx.fail("C15/sign_zone/state-after-signer-exception", f"signing after the aborted attempt: {r9}; chain equals a fresh signing: {nsec_map(z6) == first}", rep)
                return
    # what was handed to the signer (RFC 4035 §2.2)
    signed = set()
    for e in events:
        if e.startswith("S:"):
            _, n, t = e.split(":")
            nm = dns.name.Name([bytes.fromhex(x) if x != "-" else b"" for x in n.split(",")] if n != "@" else [])
            signed.add((low(zone_fqdn(z, nm)), int(t)))
    want_signed = {(low(n), t) for n, t in must_sign}
    if gk == wk and signed != want_signed:
        ctx.fail("C15/sign_zone/signed-rrsets-differ", f"signed - expected = {sorted(signed - want_signed)}; expected - signed = {sorted(want_signed - signed)}", rep)


def eval_zonemd(ctx, c, rep):
    z = build_zone(c)
    origin = z.origin
    alg = c["alg"]
    scheme = c.get("scheme", 1)
    log = []
    old = dict(dns.zone._digest_hashers)
    try:
        for k in list(dns.zone._digest_hashers):
            dns.zone._digest_hashers[k] = _RecHash(old[k], log)
        alg_arg, scheme_arg = alg, scheme
        if c.get("enum") and alg in (1, 2) and scheme == 1:
            alg_arg, scheme_arg = dns.zone.DigestHashAlgorithm(alg), dns.zone.DigestScheme.SIMPLE
        if c.get("enum") and scheme == 1 and alg in (1, 2):
            r, v = outcome(lambda: z._compute_digest(alg_arg), hx)  # scheme defaulted
        else:
            r, v = outcome(lambda: z._compute_digest(alg_arg, scheme_arg), hx)
    finally:
        dns.zone._digest_hashers.clear()
        dns.zone._digest_hashers.update(old)
    impl = ("ok " + hx(log[-1] if log else b"")) if v is not None else r
    toks = []
    rrs = []
    rrs_ok = True
    for name, node in z.nodes.items():
        parts = [enc_labels(name.labels)]
        for rds in node.rdatasets:
            parts.append(f"{int(rds.rdtype)}:{int(rds.covers)}:{int(rds.rdclass)}:{rds.ttl}:" + "~".join(fields_of(rd) for rd in rds))
            for rd in rds:
                try:
                    rrs.append((zone_fqdn(z, name), int(rds.rdtype), int(rds.covers), int(rds.rdclass), rds.ttl,
                                r_canon_rdata(int(rds.rdtype), rd.to_wire(origin=origin))))
                except dns.exception.DNSException:
                    rrs_ok = False
        toks.append("|".join(parts))
    ctx.corr(f"c15.zonemd {enc_labels(origin.labels)} {1 if c['rel'] else 0} {alg} {scheme} " + " ".join(toks), impl, c)
    ctx.count("zonemd." + sig_family(r))
    if r.startswith("FOREIGN"):
        ctx.fail("C15/zonemd/foreign-exception:" + r.split(" ")[1], f"_compute_digest -> {r}", rep)
        return
    if alg not in (1, 2) or scheme != 1:
        if v is not None:
            ctx.fail("C15/zonemd/unsupported-accepted", f"hash algorithm {alg} scheme {scheme} -> {r}", rep)
        return
    if not rrs_ok:
        return
    want_in = r_zonemd_input(tuple(origin.labels), rrs)
    want = hashlib.new("sha384" if alg == 1 else "sha512", want_in).digest()
    if v is None or v != want:
        got_in = log[-1] if log else b""
        if got_in == want_in:
            sig = "C15/zonemd/digest-of-correct-input-differs"
        elif r_lower(got_in) == r_lower(want_in):
            sig = "C15/zonemd/case"
        elif sorted(got_in) == sorted(want_in):
            sig = "C15/zonemd/order"
        elif len(got_in) != len(want_in):
            sig = "C15/zonemd/included-rr-set"
        else:
            sig = "C15/zonemd/value-differs"
        ctx.fail(sig, f"ZONEMD digest input {got_in.hex()} != RFC 8976 §3.3.1 {want_in.hex()}", rep)
        return
    # compute_digest / verify_digest agree with the reference digest
    try:
        soa = z.get_soa()
    except dns.zone.NoSOA:
        return
    from dns.rdtypes.ANY.ZONEMD import ZONEMD as ZMD
    zm = z.compute_digest(alg)
    if zm.digest != want or zm.serial != soa.serial or zm.scheme != 1:
        ctx.fail("C15/zonemd/compute_digest", f"{zm}", rep)
    good = ZMD(z.rdclass, ZONEMD, soa.serial, 1, alg, want)
    bad = ZMD(z.rdclass, ZONEMD, soa.serial, 1, alg, bytes([want[0] ^ 1]) + want[1:])
    try:
        z.verify_digest(good)
    except dns.zone.DigestVerificationFailure:
        ctx.fail("C15/zonemd/verify-rejects-correct-digest", "verify_digest rejected the RFC 8976 digest", rep)
    try:
        z.verify_digest(bad)
        ctx.fail("C15/zonemd/verify-accepts-wrong-digest", "verify_digest accepted a digest with one bit flipped", rep)
    except dns.zone.DigestVerificationFailure:
        pass
    # verify_digest() without argument reads the apex ZONEMD RRset: any one matching record suffices, records with an
    # unsupported scheme / hash algorithm are skipped, no ZONEMD RRset at all is NoDigest (RFC 8976 §4)
    wrong = ZMD(z.rdclass, ZONEMD, soa.serial, 1, alg, bytes([want[0] ^ 0x80]) + want[1:])
    unsup = [ZMD(z.rdclass, ZONEMD, soa.serial, 1, 7, b"\x01" * 12), ZMD(z.rdclass, ZONEMD, soa.serial, 9, alg, want)]
    plans = {"good": ([good], "ok"), "unsup+good": (unsup + [good], "ok"), "wrong+good": ([wrong, good], "ok"),
             "wrong": ([wrong], "DigestVerificationFailure"), "unsup": (unsup, "DigestVerificationFailure"),
             "none": ([], "NoDigest")}
    vr = c.get("vroute", "good")
    rdatas, expect = plans[vr]
    z5 = build_zone(c)
    zrds = dns.rdataset.Rdataset(z.rdclass, ZONEMD, 0, 300)
    for rd in rdatas:
        zrds.add(rd, 300)
    if c.get("zclass") == "versioned":
        with z5.writer() as txn:
            txn.delete(origin, ZONEMD)
            if rdatas:
                txn.add(origin, zrds)
    else:
        z5.delete_rdataset(origin, ZONEMD)
        if rdatas:
            z5.replace_rdataset(origin, zrds)
    try:
        z5.verify_digest()
        got = "ok"
    except dns.zone.DigestVerificationFailure:
        got = "DigestVerificationFailure"
    except dns.zone.NoDigest:
        got = "NoDigest"
    except BaseException as e:
        if isinstance(e, _Stalled):
            raise
        got = "FOREIGN " + type(e).__name__
    ctx.count("zonemd.verify." + vr)
    if got != expect:
        ctx.fail(f"C15/zonemd/verify_digest-from-zone/{vr}", f"verify_digest() with apex ZONEMD records [{vr}] -> {got}, expected {expect}", rep)



DS_NAMES = {"NULL": 0, "SHA1": 1, "SHA256": 2, "GOST": 3, "SHA384": 4}


def eval_dsargs(ctx, c, rep):
    """make_ds / make_cds and the rdataset helpers with every argument spelling"""
    w = bytes.fromhex(c["key"])
    kty = c["kty"]
    key = dns.rdata.from_wire(1, kty, w, 0, len(w))
    nlab = lab(c["name"])
    origin = optname(c["origin"])
    n_arg = dns.name.Name(nlab).to_text() if c["nform"] == "text" else dns.name.Name(nlab)
    alg = c["alg"]
    pol = {"default": None, "all": dns.dnssec.allow_all_policy}[c["policy"]]
    val = c["validating"]
    alg_arg = alg
    if c.get("enum") and isinstance(alg, int) and alg in (0, 1, 2, 3, 4):
        alg_arg = dns.dnssectypes.DSDigest(alg)  # enum member instead of the plain integer
    if pol is None and not val and c.get("enum"):
        # defaults omitted altogether
        r, v = outcome(lambda: dns.dnssec.make_ds(n_arg, key, alg_arg, origin), lambda ds: hx(ds.to_wire()))
    else:
        r, v = outcome(lambda: dns.dnssec.make_ds(n_arg, key, alg_arg, origin=origin, policy=pol, validating=val), lambda ds: hx(ds.to_wire()))
    ctx.count(f"dsargs.{c['nform']}.{'str' if isinstance(alg, str) else 'int'}.{'val' if val else 'create'}.{c['policy']}." + sig_family(r))
    if r.startswith("FOREIGN"):
        ctx.fail("C15/make_ds/foreign-exception:" + r.split(" ")[1], f"make_ds({n_arg!r}, kty={kty}, {alg!r}, origin={origin}, validating={val}) -> {r}", rep)
        return
    # reference outcome, in the documented order: algorithm name, policy, key type, digest support, owner name
    if isinstance(alg, str):
        dt = DS_NAMES.get("".join(chr(ord(ch) - 32) if "a" <= ch <= "z" else ch for ch in alg))
    else:
        dt = alg
    denied = set() if c["policy"] == "all" else ({0} if val else {0, 1, 3})
    if c["nform"] == "text":
        fq = r_fqdn(nlab, None if origin is None else list(origin.labels))
    else:
        fq = r_fqdn(nlab, None)
    if dt is None:
        exp = "err UnsupportedAlgorithm"
    elif dt in denied:
        exp = "err DeniedByPolicy"
    elif kty not in (DNSKEY, 60):
        exp = "err ValueError"
    elif dt not in R_DS_HASH:
        exp = "err UnsupportedAlgorithm"
    elif fq is None or (origin is not None and c["nform"] == "text" and not origin.is_absolute() and nlab[-1:] != [b""]):
        exp = "err NeedAbsoluteNameOrOrigin"
    elif sum(len(l) + 1 for l in fq) > 255:
        exp = "err NameTooLong"
    else:
        exp = "ok " + hx(r_ds(fq, w, dt))
    if r != exp:
        ctx.fail("C15/make_ds/arguments" + ("/validating" if val else "") + ("/text-name" if c["nform"] == "text" else "") + ("/text-algorithm" if isinstance(alg, str) else ""),
                 f"make_ds({n_arg!r}, kty={kty}, {alg!r}, origin={origin}, policy={c['policy']}, validating={val}) -> {r}; expected {exp}", rep)
        return
    if not exp.startswith("ok") or val:
        return
    want = r_ds(fq, w, dt)
    if c["policy"] != "default" and dt in (0, 1, 3):
        return  # the helpers below always use the default policy
    # CDS and the rdataset helpers: same octets, right types, TTL of the input rdataset
    cds = dns.dnssec.make_cds(n_arg, key, alg, origin)
    if cds.to_wire() != want or int(cds.rdtype) != 59:
        ctx.fail("C15/make_cds/value-differs", f"make_cds -> type {int(cds.rdtype)} {cds.to_wire().hex()}", rep)
        return
    w2 = w[:4] + bytes([(w[4] if len(w) > 4 else 0) ^ 0x55]) + w[5:]
    key2 = dns.rdata.from_wire(1, kty, w2, 0, len(w2))
    krds = dns.rdataset.Rdataset(1, kty, ttl=c["ttl"])
    krds.add(key)
    krds.add(key2)
    cdsr = dns.dnssec.dnskey_rdataset_to_cds_rdataset(n_arg, krds, alg, origin)
    wants = sorted([want, r_ds(fq, w2, dt)])
    if sorted(x.to_wire() for x in cdsr) != wants or int(cdsr.rdtype) != 59 or cdsr.ttl != c["ttl"]:
        ctx.fail("C15/dnskey_rdataset_to_cds_rdataset/differs", f"type {int(cdsr.rdtype)} ttl {cdsr.ttl} {[x.to_wire().hex() for x in cdsr]}", rep)
        return
    dsr = dns.dnssec.cds_rdataset_to_ds_rdataset(cdsr)
    if sorted(x.to_wire() for x in dsr) != wants or int(dsr.rdtype) != DS or dsr.ttl != c["ttl"] or any(int(x.rdtype) != DS for x in dsr):
        ctx.fail("C15/cds_rdataset_to_ds_rdataset/differs", f"type {int(dsr.rdtype)} ttl {dsr.ttl}", rep)
        return
    # make_ds_rdataset from CDS: only the requested digest types, DS typed; nothing acceptable is a ValueError
    other = 4 if dt != 4 else 2
    both = dns.rdataset.Rdataset(1, 59, ttl=c["ttl"])
    for x in list(cdsr) + list(dns.dnssec.dnskey_rdataset_to_cds_rdataset(n_arg, krds, other, origin)):
        both.add(x)
    name_obj = dns.name.Name(fq)
    rr_in = (name_obj, both)
    if c.get("rrform") == "rrset":
        rr_in = dns.rrset.RRset(name_obj, 1, 59)
        rr_in.update_ttl(c["ttl"])
        for x in both:
            rr_in.add(x)
    def container(xs):
        return {"set": set, "list": list, "tuple": tuple, "gen": (lambda v_: (x for x in v_))}[c.get("algs_as", "set")](xs)
    algset = container([alg_arg])
    r3, v3 = outcome(lambda: dns.dnssec.make_ds_rdataset(rr_in, algset), lambda d: " ".join(sorted(hx(x.to_wire()) for x in d)))
    if v3 is None or sorted(x.to_wire() for x in v3) != wants or int(v3.rdtype) != DS or v3.ttl != c["ttl"]:
        ctx.fail("C15/make_ds_rdataset/from-cds/filter-or-type", f"asked {alg!r} of CDS digests {{{dt},{other}}}: {r3[:200]} type {int(v3.rdtype) if v3 is not None else None}", rep)
        return
    algset = container([alg_arg])
    r4, v4 = outcome(lambda: dns.dnssec.make_ds_rdataset(rr_in, container(["SHA1" if isinstance(alg, str) else 1])), lambda d: str(len(d)))
    if r4 != "err ValueError":
        ctx.fail("C15/make_ds_rdataset/from-cds/no-acceptable-digest-accepted", f"asked SHA1 of CDS digests {{{dt},{other}}} -> {r4}", rep)
        return
    r5, _ = outcome(lambda: dns.dnssec.make_ds_rdataset((name_obj, dsr), container([alg_arg])), lambda d: str(len(d)))
    r6, _ = outcome(lambda: dns.dnssec.dnskey_rdataset_to_cds_rdataset(n_arg, dsr, alg, origin), lambda d: str(len(d)))
    r7, _ = outcome(lambda: dns.dnssec.cds_rdataset_to_ds_rdataset(krds), lambda d: str(len(d)))
    if (r5, r6, r7) != ("err ValueError",) * 3:
        ctx.fail("C15/ds-helpers/wrong-input-type-accepted", f"make_ds_rdataset(DS) {r5}; dnskey_rdataset_to_cds_rdataset(DS) {r6}; cds_rdataset_to_ds_rdataset(DNSKEY) {r7}", rep)
        return
    # make_ds_rdataset from DNSKEY/CDNSKEY: one record per key and digest type, the right octets ...
    algs2 = container([alg_arg, other])
    kin = (n_arg if c["nform"] == "name" else name_obj, krds)
    v8 = dns.dnssec.make_ds_rdataset(kin, algs2)
    wants8 = sorted(wants + [r_ds(fq, w, other), r_ds(fq, w2, other)])
    if sorted(x.to_wire() for x in v8) != wants8 or v8.ttl != c["ttl"]:
        ctx.fail("C15/make_ds_rdataset/from-dnskey/value-differs", f"{[x.to_wire().hex() for x in v8]}", rep)
        return
    # ... and the DS type, records included (repaired in dnspython commit ff90ef6; regression witness in corpus/C15/N5-…)
    if int(v8.rdtype) != DS or any(int(x.rdtype) != DS for x in v8):
        ctx.fail("C15/make_ds_rdataset/from-dnskey/result-typed-cds", f"make_ds_rdataset(DNSKEY rdataset) returns an rdataset of type {int(v8.rdtype)} (CDS), not DS (43)", rep)
    if kty == DNSKEY:
        ck = dns.dnssec.dnskey_rdataset_to_cdnskey_rdataset(krds)
        if sorted(x.to_wire() for x in ck) != sorted([w, w2]) or ck.ttl != c["ttl"]:
            ctx.fail("C15/dnskey_rdataset_to_cdnskey_rdataset/value-differs", f"{[x.to_wire().hex() for x in ck]}", rep)
        elif int(ck.rdtype) != 60 or any(int(x.rdtype) != 60 for x in ck):
            ctx.fail("C15/dnskey_rdataset_to_cdnskey_rdataset/result-typed-dnskey", f"dnskey_rdataset_to_cdnskey_rdataset returns an rdataset of type {int(ck.rdtype)} (DNSKEY), not CDNSKEY (60)", rep)
        r9, _ = outcome(lambda: dns.dnssec.dnskey_rdataset_to_cdnskey_rdataset(dsr), lambda d: str(len(d)))
        if r9 != "err ValueError":
            ctx.fail("C15/ds-helpers/wrong-input-type-accepted", f"dnskey_rdataset_to_cdnskey_rdataset(DS) {r9}", rep)


def eval_namedigest(ctx, c, rep):
    """Name.to_digestable / canonicalize / to_wire(origin=…) — the path without a file"""
    n = mkname(c["name"])
    o = optname(c["origin"])
    r, v = outcome(lambda: n.to_digestable(o), hx)
    ctx.corr(f"c15.namedigest {enc_labels(n.labels)} {enc_opt(c['origin'])}", r, c)
    ctx.count("namedigest." + sig_family(r))
    fq = r_fqdn(n.labels, None if (o is None or not o.is_absolute()) else list(o.labels))
    exp = "err NeedAbsoluteNameOrOrigin" if fq is None else "ok " + hx(r_wire(fq, True))
    if r != exp:
        ctx.fail("C15/name-to_digestable/value-differs", f"{n!r}.to_digestable({o!r}) -> {r}; RFC 4034 §6.2: {exp}", rep)
        return
    r2, _ = outcome(lambda: n.to_wire(origin=o), hx)
    exp2 = "err NeedAbsoluteNameOrOrigin" if fq is None else "ok " + hx(r_wire(fq, False))
    cl = list(n.canonicalize().labels)
    if r2 != exp2 or cl != [r_lower(l) for l in n.labels]:
        ctx.fail("C15/name-to_wire-or-canonicalize/value-differs", f"{n!r}: to_wire(origin) {r2} (expected {exp2}); canonicalize {cl}", rep)



def eval_timestamp(ctx, c, rep):
    """dns.dnssec.to_timestamp: datetime / YYYYMMDDHHMMSS / decimal seconds / float / int all name the same instant"""
    import calendar
    import datetime
    t = c["t"]
    tm = __import__("time").gmtime(t)
    forms = {"int": t, "float": t + c.get("frac", 0.0), "epoch-text": str(t),
             "sigtime": "%04d%02d%02d%02d%02d%02d" % tm[:6],
             "datetime": datetime.datetime.fromtimestamp(t, datetime.timezone.utc)}
    for k, v in forms.items():
        if k == "sigtime" and not (0 <= tm[0] <= 9999):
            continue
        if k == "epoch-text" and len(str(t)) > 10:
            continue  # the presentation format admits at most 10 decimal digits (RFC 4034 §3.2)
        r, got = outcome(lambda: dns.dnssec.to_timestamp(v), str)
        ctx.count("timestamp." + k)
        if got != t:
            ctx.fail("C15/to_timestamp/" + k, f"to_timestamp({v!r}) -> {r}, expected {t} (calendar.timegm check {calendar.timegm(tm)})", rep)
            return
    for bad in c.get("bad", []):
        r, got = outcome(lambda: dns.dnssec.to_timestamp(bad), str)
        if got is not None or r.startswith("FOREIGN"):
            ctx.fail("C15/to_timestamp/malformed-accepted-or-foreign", f"to_timestamp({bad!r}) -> {r}", rep)
            return


def eval_dsargs_guarded(ctx, c, rep):
    try:
        eval_dsargs(ctx, c, rep)
    except (dns.exception.DNSException, ValueError, TypeError, AttributeError, KeyError) as e:
        ctx.fail("C15/ds-helpers/raises:" + type(e).__name__, f"a DS/CDS/CDNSKEY helper raised on valid input: {e!r}", rep)


EVAL = {"timestamp": eval_timestamp, "digest": eval_digest, "dsargs": eval_dsargs_guarded, "namedigest": eval_namedigest, "keyid": eval_keyid, "rrsigdata": eval_rrsigdata, "ds": eval_ds, "nsec3": eval_nsec3,
        "bitmap": eval_bitmap, "signzone": eval_signzone, "zonemd": eval_zonemd}


def eval_case(ctx: Ctx, c: dict):
    EVAL[c["kind"]](ctx, c, {"kind": c["kind"], "case": c})


# ================================================================================================
# generators
# ================================================================================================
LETTERS = b"aAbBmMzZ"
EDGE = bytes([0x40, 0x5B, 0x60, 0x7B, 0xC1, 0xE1, 0x41, 0x5A, 0x61, 0x7A])
PLAIN = b"019-_xY"


def gen_label(rng, maxlen=63):
    n = min(rng.choice([1, 1, 2, 2, 3, 3, 5, 8, 20, 63]), maxlen)
    m = rng.below(4)
    pool = LETTERS if m == 0 else EDGE if m == 1 else LETTERS + EDGE + PLAIN
    return rng.bytes(n, list(pool))


def gen_name(rng, absolute=True, maxlabels=4, budget=120):
    labels = []
    for _ in range(rng.range(0 if not absolute else 0, maxlabels)):
        l = gen_label(rng, min(63, budget - 2))
        if budget - len(l) - 1 < 2:
            break
        labels.append(l)
        budget -= len(l) + 1
    if absolute:
        labels.append(b"")
    return labels


def all_specs():
    """[(cls, ty, template)] for every implemented pair"""
    out = []
    for cls, ty in X.implemented_pairs():
        inst = 1 if cls == 255 else cls
        for kind, payload in X.specimen_texts(inst, ty):
            out.append((cls, ty, payload))  # text template, or bytes for a wire specimen
    return out


def gen_rd_spec(rng, ty, template, relative_ok=False):
    if isinstance(template, bytes):
        return {"ty": ty, "wire": template.hex()}
    k = template.count("{n}")
    names = []
    for _ in range(k):
        absolute = not (relative_ok and rng.chance(1, 3))
        n = gen_name(rng, absolute=absolute, maxlabels=3, budget=60)
        names.append(hexl(n))
    return {"ty": ty, "text": template, "names": names}


# uncompressed wire of the RFC 4034 §6.2 types dnspython has no class for
def gen_generic_rfc(rng):
    ty = rng.choice([3, 4, 7, 8, 9, 14, 30, 38])
    n1 = r_wire(gen_name(rng, True, 3, 60), False)
    n2 = r_wire(gen_name(rng, True, 3, 60), False)
    if ty == 14:
        w = n1 + n2
    elif ty == 30:
        w = n1 + rng.bytes(rng.range(1, 4))
    elif ty == 38:
        plen = rng.choice([0, 1, 64, 127, 128])
        w = bytes([plen]) + rng.bytes((128 - plen + 7) // 8) + (n1 if plen else b"")
    else:
        w = n1
    return {"ty": ty, "wire": w.hex()}


ORIGINS = [[b"Ex", b"TeSt", b""], [b"example", b""], [b""], [b"A@Z", b"[b`", b"{C}", b""]]


def gen_digest(rng, specs):
    m = rng.below(10)
    if m == 0:
        cls = rng.choice([1, 1, 3, 4])
        spec = gen_generic_rfc(rng)
        origin = None
    elif m == 1:
        # unknown / private types are opaque
        cls = 1
        spec = {"ty": rng.choice([65280, 1234, 65534, 10]), "wire": (r_wire(gen_name(rng), False) + rng.bytes(rng.below(4))).hex()}
        origin = None
    else:
        cls, ty, tpl = rng.choice(specs)
        if cls == 255:
            cls = rng.choice([1, 1, 3, 4, 254])
        rel = rng.chance(1, 3)
        spec = gen_rd_spec(rng, ty, tpl, relative_ok=rel)
        origin = hexl(rng.choice(ORIGINS)) if (rng.chance(5, 6) if rel else rng.chance(1, 4)) else None
        if origin is not None and rng.chance(1, 20):
            origin = hexl([b"rel", b"origin"])  # not absolute
        if rel and "names" in spec and rng.chance(1, 25):
            spec["names"] = [hexl([rng.bytes(63, list(LETTERS))] * 3 + [rng.bytes(50, list(LETTERS))]) for _ in spec["names"]]  # overflows with the origin
    return {"kind": "digest", "cls": cls, "rd": spec, "origin": origin}


def gen_keyid(rng):
    n = rng.choice([0, 1, 2, 3, 4, 5, 31, 32, 33, 64, 65, 128, 129, 256, 257, 260, 1024, 4096]) if rng.chance(1, 2) else rng.below(41)
    alg = rng.choice([1, 1, 3, 5, 8, 13, 15, 253, 0, 255, rng.below(256)])
    key = rng.bytes(n) if rng.chance(3, 4) else bytes([rng.choice([0, 255])]) * n
    if rng.chance(1, 30):
        # the carry fold `(total >> 16) & 0xFFFF` only sees high bits for very long, heavy keys
        n = rng.choice([8190, 8192, 8194, 16385, 40000, 65531])
        key = bytes([rng.choice([255, 255, 254, 0x80])]) * n
    flags = rng.choice([0, 256, 257, 0xFFFF, rng.below(65536)])
    return {"kind": "keyid", "rdata": (flags.to_bytes(2, "big") + bytes([rng.choice([3, 0, 255]), alg]) + key).hex(),
            "ty": rng.choice([DNSKEY, DNSKEY, 60])}


SIGNABLE = [("A", 1), ("MX", 15), ("NS", 2), ("TXT", 16), ("SRV", 33), ("SOA", 6), ("NSEC", 47), ("RP", 17), ("AAAA", 28),
            ("DNAME", 39), ("NAPTR", 35), ("SVCB", 64), ("PX", 26), ("CNAME", 5), ("PTR", 12), ("KX", 36), ("HIP", 55),
            ("DS", 43), ("RRSIG", 46), ("NSAP-PTR", 23), ("AFSDB", 18), ("RT", 21)]
A_POOL = ["192.0.2.1", "192.0.2.2", "10.0.0.1", "1.2.3.4", "1.2.3.5", "255.255.255.255", "0.0.0.0"]


def gen_rdataset_specs(rng, relative_ok=False, tname=None):
    tname, ty = rng.choice(SIGNABLE) if tname is None else (tname, dns.rdatatype.from_text(tname))
    tpls = X.SPECIMENS[tname] if tname != "RRSIG" else X.SPECIMENS[tname][:1]
    k = rng.choice([1, 1, 2, 3, 5])
    out = []
    for i in range(k):
        if tname == "A":
            out.append({"ty": 1, "text": A_POOL[(rng.below(7) + i) % 7], "names": []})
        elif tname == "TXT":
            out.append({"ty": 16, "text": '"' + "".join(rng.choice("aAbB") for _ in range(rng.below(4))) + '"', "names": []})
        else:
            out.append(gen_rd_spec(rng, ty, rng.choice(tpls), relative_ok))
    return ty, out


def gen_rrsigdata(rng):
    relative = rng.chance(1, 3)
    ty, rds = gen_rdataset_specs(rng, relative_ok=relative)
    origin = rng.choice(ORIGINS + [[b"rel", b"Origin"], []])
    rr = gen_name(rng, absolute=not (relative and rng.chance(1, 2)), maxlabels=4, budget=80)
    if rng.chance(1, 4):
        rr = [b"*"] + rr[1:] if len(rr) > 1 else [b"*"] + rr
    if rng.chance(1, 2) and rr and rr[-1] == b"":
        rr = rr[:-1] + origin  # below the origin
    full = rr if (rr and rr[-1] == b"") else rr + origin
    nl = len(full) - 1
    labels = rng.choice([nl, nl, nl, nl - 1, nl - 1, nl - 2, 0, 1, nl + 1, nl + 2, rng.below(6)])
    labels = max(0, min(255, labels))
    m = rng.below(12)
    if m < 8:
        signer = origin
    elif m < 10:
        signer = []  # "@"
    elif m == 10:
        signer = gen_name(rng, absolute=True, maxlabels=2)
    else:
        signer = gen_name(rng, absolute=False, maxlabels=2) or [b"Sub"]
    use_origin = True if (relative or (signer and signer[-1] != b"") or not signer) and rng.chance(9, 10) else rng.chance(1, 3)
    return {"kind": "rrsigdata", "cls": rng.choice([1, 1, 1, 3]), "ty": ty, "ttl": rng.choice([0, 300, 86400]),
            "sig": [ty, rng.choice([5, 8, 13, 15]), labels, rng.choice([0, 1, 300, 3600, 2**31 - 1, 2**32 - 1]),
                    rng.choice([0, 1893456000, 2**32 - 1]), rng.choice([0, 1577836800, 2**32 - 1]), rng.choice([0, 1, 255, 256, 32767, 32768, 65535, rng.below(65536)])],
            "signer": hexl(signer), "origin": hexl(origin) if use_origin else None, "rrname": hexl(rr), "rds": rds,
            "rrform": rng.choice(["tuple", "rrset"]), "oform": rng.choice(["name", "name", "text"])}


def gen_ds(rng):
    k = gen_keyid(rng)
    name = gen_name(rng, absolute=rng.chance(9, 10), maxlabels=4, budget=rng.choice([60, 250]))
    return {"kind": "ds", "name": hexl(name), "key": k["rdata"], "kty": k["ty"],
            "dt": rng.choice([1, 2, 2, 2, 4, 4, 0, 3, 5, 6, 255]), "policy": rng.choice(["all", "all", "default"])}


RAW_SALTS = ["-", "a", "abc", "ab ", " ab", "ab cd", "ab  cd", "a bcd", "ab\tcd\n", "zz", "0x", "AbCd", "", "  ", "ab\x0bcd ", "a-"]


def gen_maxname(rng):
    """an absolute name of exactly 255 octets (63+63+63+61 plus the root), mixed case"""
    return [rng.bytes(63, list(LETTERS)), rng.bytes(63, list(LETTERS)), rng.bytes(63, list(LETTERS)), rng.bytes(61, list(LETTERS)), b""]


def gen_nsec3(rng):
    name = gen_name(rng, absolute=rng.chance(9, 10), maxlabels=4, budget=rng.choice([60, 250]))
    if rng.chance(1, 25):
        name = gen_maxname(rng)
    sform = rng.choice(["bytes", "bytes", "hex", "HEX", "none", "raw"])
    salt = rng.bytes(rng.choice([0, 0, 1, 2, 4, 8, 8, 255, 256]))
    if sform == "none":
        salt = b""
    c = {"kind": "nsec3", "name": hexl(name), "salt": salt.hex(),
         "iter": rng.choice([0, 0, 1, 1, 2, 3, 5, 10, 12, 50, 255, 256, 257] + ([65535, 65536] if rng.chance(1, 20) else [1])),
         "alg": rng.choice([1] * 9 + [0, 2]),
         "dform": rng.choice(["name", "name", "text"]), "sform": sform,
         "aform": rng.choice([None, None, None, None, "SHA1", "sha1", "Sha1", "SHA256", "", "1", "SHA1\n", "SHA1 ", " SHA1", "SHA1\x00"]),
         "enum": rng.chance(1, 3), "bytearray": rng.chance(1, 3),
         "zone": hexl(rng.choice(ORIGINS + [[b"x" * 63, b"y" * 63, b"z" * 63, b"w" * 30, b""]]))}
    if sform == "raw":
        c["stext"] = rng.choice(RAW_SALTS)
    if c["iter"] > 1000:
        c["salt"] = c["salt"][:4]  # keep the 16-bit boundary cases cheap
    elif c["iter"] > 100:
        c["salt"] = c["salt"][:16]
    return c


TYPE_POOL = [1, 2, 5, 6, 7, 8, 15, 16, 28, 43, 46, 47, 48, 50, 255, 256, 257, 263, 264, 511, 512, 1234, 32767, 32768,
             65279, 65280, 65528, 65535, 248, 247, 249]


def gen_bitmap(rng):
    k = rng.choice([0, 1, 1, 2, 3, 5, 8, 20])
    ts = [rng.choice(TYPE_POOL) if rng.chance(2, 3) else rng.below(65536) for _ in range(k)]
    if rng.chance(1, 4) and ts:
        ts += [rng.choice(ts)]  # duplicates
    if rng.chance(1, 15):
        ts += [0]
    return {"kind": "bitmap", "types": rng.shuffle(ts)}


ZLABELS = [b"a", b"B", b"c", b"ns", b"Sub", b"sub", b"zz", b"_x", b"*", b"A", b"b", b"www", b"Z", b"0", b"a-b", b"\xe1"]
ZTYPES = {1: ("A", None), 28: ("AAAA", None), 15: ("MX", None), 16: ("TXT", None), 33: ("SRV", None), 2: ("NS", None),
          43: ("DS", None), 65280: (None, "abcd"), 1234: (None, "00"), 99: ("SPF", None), 48: ("DNSKEY", None),
          257: ("CAA", None), 12: ("PTR", None), 39: ("DNAME", None), 17: ("RP", None)}


def z_rds(rng, ty, ttl, rel_ok=False):
    tname, wire = ZTYPES[ty]
    if tname is None:
        return {"ty": ty, "ttl": ttl, "rd": [{"ty": ty, "wire": wire}]}
    tpl = X.SPECIMENS[tname][0]
    names = []
    for _ in range(tpl.count("{n}")):
        n = gen_name(rng, absolute=not (rel_ok and rng.chance(1, 2)), maxlabels=2, budget=40)
        names.append(hexl(n))
    return {"ty": ty, "ttl": ttl, "rd": [{"ty": ty, "text": tpl, "names": names}]}


SOA_TPL = "{n} {n} 1 7200 900 1209600 %d"
SOA_TPL_SERIAL = "{n} {n} %d 7200 900 1209600 %d"


def gen_zone(rng, for_zonemd=False):
    origin = rng.choice([[b"Ex", b"TeSt", b""], [b"example", b""], [b"z", b""], [b"A", b"b", b"C", b""]])
    rel = rng.chance(1, 2)
    nodes = {}
    apex = () if rel else tuple(origin)

    def stored(path):  # path: labels below the origin, leftmost first
        return tuple(path) if rel else tuple(path) + tuple(origin)

    ttl = rng.choice([0, 5, 300])
    minimum = rng.choice([0, 5, 3600])
    cls = rng.choice([1, 1, 1, 4])
    in_only = {1: 16, 28: 15, 33: 17}  # types implemented for class IN only: replaced in a zone of another class
    fix = (lambda t: in_only.get(t, t)) if cls != 1 else (lambda t: t)
    soa_names = [hexl([b"ns"] if rel and rng.chance(1, 2) else [b"ns", b""]), hexl([b"Host", b""])]
    soa = {"ty": 6, "ttl": ttl, "rd": [{"ty": 6, "text": SOA_TPL % minimum, "names": soa_names}]}
    nodes[apex] = [soa, z_rds(rng, 2, ttl, rel)]
    if rng.chance(1, 3):
        nodes[apex].append(z_rds(rng, fix(rng.choice([48, 15, 16, 1])), rng.choice([ttl, 77]), rel))
    m = rng.below(12)
    nn = 0 if m == 0 else rng.choice([1, 2, 3, 4, 6, 9, 12])
    paths = []
    for _ in range(nn):
        if paths and rng.chance(1, 2):
            base = list(rng.choice(paths))
            p = [rng.choice(ZLABELS)] + (base if rng.chance(2, 3) else base[1:])
            if rng.chance(1, 4):
                p = [rng.choice(ZLABELS)] + p  # leaves an empty non-terminal
        else:
            p = [rng.choice(ZLABELS) for _ in range(rng.choice([1, 1, 1, 2, 3]))]
        if rng.chance(1, 8):
            p = [bytes(l).swapcase() for l in p]
        p = p[:4]
        key = tuple(bytes(l).lower() for l in p)
        if not p or any(tuple(bytes(l).lower() for l in q) == key for q in paths):
            continue
        paths.append(p)
    for p in paths:
        k = rng.below(10)
        if k < 3:  # delegation
            tys = [2] + ([43] if rng.chance(1, 2) else []) + ([fix(rng.choice([1, 28, 16]))] if rng.chance(1, 3) else [])
        elif k < 4:
            tys = [rng.choice([65280, 1234])]
        else:
            tys = rng.shuffle(sorted(set(fix(t) for t in [1, 28, 15, 16, 33, 99, 257, 12, 17])))[: rng.choice([1, 1, 2, 3])]
        tys = rng.shuffle(tys)
        nodes[stored(p)] = [z_rds(rng, t, rng.choice([ttl, 60]), rel) for t in tys]
    if rng.chance(1, 6) and not for_zonemd:
        # rdatasets that are already signatures
        k = rng.choice(list(nodes))
        t0 = nodes[k][0]["ty"]
        nodes[k].append({"ty": 46, "covers": t0, "ttl": ttl, "rd": [{"ty": 46, "text": f"TYPE{t0} 8 2 300 20300101000000 20200101000000 1 {{n}} AAAA", "names": [hexl(origin)]}]})
    out = [{"name": hexl(k), "rds": v} for k, v in nodes.items()]
    out = [out[0]] + rng.shuffle(out[1:]) if rng.chance(1, 2) else rng.shuffle(out)
    return {"origin": hexl(origin), "rel": rel, "nodes": out, "cls": cls,
            "zclass": rng.choice(["plain", "plain", "versioned"])}


def gen_bigzone(rng):
    """≥ 254 names (B-tree leaf / fan-out sizes of a versioned zone's storage), a few delegations with glue"""
    origin = [b"Big", b"example", b""]
    rel = rng.chance(1, 2)
    a = lambda: {"ty": 1, "ttl": 60, "rd": [{"ty": 1, "text": "192.0.2.1", "names": []}]}
    ns = lambda: {"ty": 2, "ttl": 60, "rd": [{"ty": 2, "text": "{n}", "names": [hexl([b"ns", b""])]}]}
    soa = {"ty": 6, "ttl": 60, "rd": [{"ty": 6, "text": SOA_TPL % 5, "names": [hexl([b"ns", b""]), hexl([b"h", b""])]}]}
    st = lambda p: hexl(p if rel else p + origin)
    nodes = [{"name": st([]), "rds": [soa, ns()]}]
    n = rng.choice([253, 254, 255, 260, 300])
    for i in range(n):
        lab_ = (b"N%03d" % i) if i % 2 else (b"n%03d" % i)
        if i % 37 == 5:
            nodes.append({"name": st([lab_]), "rds": [ns(), a()]})
            nodes.append({"name": st([b"glue", lab_]), "rds": [a()]})
        else:
            nodes.append({"name": st([lab_]), "rds": [a()]})
    return {"origin": hexl(origin), "rel": rel, "nodes": [nodes[0]] + rng.shuffle(nodes[1:]), "cls": 1,
            "zclass": rng.choice(["plain", "versioned"])}


def gen_signzone(rng):
    z = gen_bigzone(rng) if rng.chance(1, 170) else gen_zone(rng)
    z["kind"] = "signzone"
    z["route"] = rng.choice(["plain", "defaults", "txn", "adddnskey"])
    if rng.chance(1, 3):
        z["raise_at"] = rng.choice([0, 0, 1, 2, 5, 9])
        z["raise_kind"] = rng.choice(["value", "dns", "base"])
    if z["route"] == "adddnskey":
        z["keys"] = [gen_keyid(rng)["rdata"] for _ in range(rng.choice([0, 1, 1, 2]))]
        z["keys"] = [k for k in z["keys"] if len(k) <= 600]
        z["dnskey_ttl"] = rng.choice([None, None, 0, 4242])
    z["probe_nsec3"] = rng.chance(1, 10)
    return z


def gen_zonemd(rng):
    z = gen_zone(rng, for_zonemd=True)
    z["kind"] = "zonemd"
    z["alg"] = rng.choice([1, 1, 1, 2, 2, 2, 3, 0])
    z["scheme"] = rng.choice([1] * 9 + [0, 2])
    z["vroute"] = rng.choice(["good", "unsup+good", "wrong+good", "wrong", "unsup", "none"])
    z["enum"] = rng.chance(1, 3)
    for nd in z["nodes"]:
        for rs in nd["rds"]:
            if rs["ty"] == 6 and rng.chance(1, 2):
                # serial 0, 2^31, 2^32-1; the SOA is hashed and its serial copied into the ZONEMD record
                rs["rd"][0]["text"] = SOA_TPL_SERIAL % (rng.choice([0, 2**31 - 1, 2**31, 2**32 - 1]), rng.choice([0, 2**32 - 1]))
            if rng.chance(1, 10):
                rs["ttl"] = rng.choice([0, 2**31 - 1, 2**31, 2**32 - 1])
    if rng.chance(1, 25):
        # RDATA of the largest possible size: RDLENGTH 65535 in the hashed RR
        z["nodes"][-1]["rds"].append({"ty": 65281, "ttl": 300, "rd": [{"ty": 65281, "wire": (bytes([rng.below(256)]) * 65535).hex()}]})
    origin = lab(z["origin"])
    apexname = hexl([] if z["rel"] else origin)
    zm = lambda ttl, serial: {"ty": 63, "ttl": ttl, "rd": [{"ty": 63, "text": f"{serial} 1 1 " + X.H48, "names": []}]}
    sg = lambda cov, ttl: {"ty": 46, "covers": cov, "ttl": ttl, "rd": [{"ty": 46, "text": f"TYPE{cov} 8 2 300 20300101000000 20200101000000 1 {{n}} AAAA", "names": [hexl(origin)]}]}
    for nd in z["nodes"]:
        at_apex = nd["name"] == apexname
        if rng.chance(1, 2) if at_apex else rng.chance(1, 8):
            nd["rds"].append(zm(rng.choice([0, 300]), 1))
        if rng.chance(1, 2) if at_apex else rng.chance(1, 8):
            nd["rds"].append(sg(63, 300))
        if rng.chance(1, 3):
            nd["rds"].append(sg(nd["rds"][0]["ty"], rng.choice([60, 300])))
        if rng.chance(1, 4):
            # mixed-case names inside RDATA of lower-cased and not lower-cased types
            t = rng.choice([15, 47, 33, 64, 35])
            tn = dns.rdatatype.to_text(t)
            if not any(r["ty"] == t for r in nd["rds"]):
                nd["rds"].append({"ty": t, "ttl": 300, "rd": [gen_rd_spec(rng, t, X.SPECIMENS[tn][0]) for _ in range(rng.choice([1, 2, 3]))]})
        nd["rds"] = rng.shuffle(nd["rds"])
    return z


def gen_dsargs(rng):
    k = gen_keyid(rng)
    while len(k["rdata"]) > 1200:
        k = gen_keyid(rng)
    kty = rng.choice([DNSKEY, DNSKEY, 60, 43])
    key = k["rdata"] if kty != 43 else (b"\x30\x39\x08\x02" + bytes(32)).hex()
    rel = rng.chance(1, 3)
    name = gen_name(rng, absolute=not rel, maxlabels=3, budget=rng.choice([40, 200]))
    if rng.chance(1, 25):
        name = gen_maxname(rng)
    origin = rng.choice(ORIGINS + [[b"rel", b"o"]]) if rng.chance(2, 3) else None
    alg = rng.choice([1, 2, 2, 4, 4, 0, 3, 5, 255, 256, "SHA1", "sha1", "SHA256", "sha256", "Sha384", "SHA384", "GOST", "null", "SHA512", "", "2",
                      "SHA256\n", "SHA256 ", " sha256", "SHA384\x00"])
    return {"kind": "dsargs", "name": hexl(name), "nform": rng.choice(["name", "text", "text"]),
            "origin": None if origin is None else hexl(origin), "key": key, "kty": kty, "alg": alg,
            "validating": rng.chance(1, 3), "policy": rng.choice(["default", "default", "all"]),
            "ttl": rng.choice([0, 300, 86400, 2**31 - 1]), "rrform": rng.choice(["tuple", "rrset"]),
            "enum": rng.chance(1, 3), "algs_as": rng.choice(["set", "list", "tuple", "gen"])}


def gen_timestamp(rng):
    t = rng.choice([0, 1, 59, 60, 86399, 86400, 951782400, 951868800, 2**31 - 1, 2**31, 2**32 - 1, 2**32, 4102444800, 253402300799, rng.below(2**32)])
    return {"kind": "timestamp", "t": t, "frac": rng.choice([0.0, 0.25, 0.5, 0.75]),
            "bad": rng.shuffle(["", " ", "2030010100000", "203001010000000", "20300101000000\n", "1893456000\n", "-1", "1e9", "20301301000000", "abc"])[:3]}

def gen_namedigest(rng):
    name = gen_name(rng, absolute=rng.chance(1, 2), maxlabels=4, budget=100)
    origin = rng.choice(ORIGINS + [[b"Rel", b"O"], []]) if rng.chance(3, 4) else None
    return {"kind": "namedigest", "name": hexl(name), "origin": None if origin is None else hexl(origin)}


def case_key(c):
    return json.dumps(c, sort_keys=True)


def generate(ctx: Ctx, scale: float, rng):
    specs = all_specs()
    plan = [("digest", 2600, lambda: gen_digest(rng, specs)), ("keyid", 1200, lambda: gen_keyid(rng)),
            ("rrsigdata", 1200, lambda: gen_rrsigdata(rng)), ("ds", 500, lambda: gen_ds(rng)), ("dsargs", 500, lambda: gen_dsargs(rng)), ("namedigest", 400, lambda: gen_namedigest(rng)), ("timestamp", 120, lambda: gen_timestamp(rng)),
            ("nsec3", 700, lambda: gen_nsec3(rng)), ("bitmap", 900, lambda: gen_bitmap(rng)),
            ("signzone", 500, lambda: gen_signzone(rng)), ("zonemd", 300, lambda: gen_zonemd(rng))]
    # every implemented pair at least twice with mixed-case absolute names (exhaustive over the table)
    for cls, ty, tpl in specs:
        for rel in (False, True):
            c = {"kind": "digest", "cls": 1 if cls == 255 else cls, "rd": gen_rd_spec(rng, ty, tpl, relative_ok=rel),
                 "origin": hexl(ORIGINS[0]) if rel else None}
            ctx.case(case_key(c), sample=c)
            eval_case(ctx, c)
    for kind, n, g in plan:
        for _ in range(max(1, int(n * scale))):
            c = g()
            ctx.case(case_key(c), sample=c if kind not in ("signzone", "zonemd") or rng.chance(1, 10) else None)
            try:
                eval_case(ctx, c)
            except dns.exception.SyntaxError:
                ctx.count("gen.rejected-by-from_text")


def detect_variants():
    """which variant of the two recorded decision points does the working tree implement? (DESIGN §6)"""
    from dns.rdtypes.ANY.RRSIG import RRSIG as RRSIGc
    o = dns.name.from_text("example.")
    rrsig = RRSIGc(1, RRSIG, 1, 8, 2, 300, 2, 1, 1, dns.name.from_text("sub", None), b"")
    rds = dns.rdataset.from_text("IN", "A", 300, "192.0.2.1")
    try:
        d = dns.dnssec._make_rrsig_signature_data((dns.name.from_text("www", None), rds), rrsig, o)
        VARIANTS["signer"] = "shipped" if d[18:].startswith(b"\x03sub\x03sub") else "intended"
    except Exception:
        pass
    try:
        z = dns.zone.from_text("@ 300 SOA ns hostmaster 1 2 3 4 5\n@ 300 NS ns\n", origin="example.", relativize=True, check_origin=False)
        dns.dnssec.sign_zone(z, add_dnskey=False, rrset_signer=lambda txn, rrset: None)
        VARIANTS["last"] = "intended" if z.get_rdataset("@", "NSEC") is not None else "shipped"
    except Exception:
        pass
    try:
        z = dns.zone.from_text("@ 300 SOA ns hostmaster 1 2 3 4 5\n@ 300 NS ns\nsub NS sub\nsub A 192.0.2.1\n", origin="example.", relativize=True, check_origin=False)
        dns.dnssec.sign_zone(z, add_dnskey=False, rrset_signer=lambda txn, rrset: None)
        f = io.BytesIO()
        Bitmap(z.get_rdataset("sub", "NSEC")[0].windows).to_wire(f)
        VARIANTS["cut"] = "shipped" if 1 in r_bitmap_decode(f.getvalue()) else "intended"
    except Exception:
        pass


def run(ctx: Ctx):
    detect_variants()
    ctx.extra["variants_detected"] = dict(VARIANTS)
    for p in sorted(glob.glob(os.path.join(VERIF, "corpus", "C15", "*.json"))):
        c = json.load(open(p))
        ctx.case(("corpus", p), sample=None)
        eval_case(ctx, c)
        ctx.count("corpus")
    generate(ctx, 1 if ctx.tier == "quick" else 20, ctx.rng)


def search(ctx: Ctx):
    detect_variants()
    for m in ctx.mismatches[:50]:
        if m.case is not None:
            eval_case(ctx, m.case)
    generate(ctx, 3 if ctx.tier == "quick" else 30, ctx.rng.fork(7))


def replay(ctx: Ctx, obj: dict):
    detect_variants()
    eval_case(ctx, obj["case"])
    return [f.what for f in ctx.failures]


LEVEL = {
    "text": "Lean 4 theorems over an executable model of the key-free DNSSEC code paths (lean/Model/Dnssec.lean): the behavioural canonicalisation table regenerated from every implemented (class,type) equals the RFC 4034 §6.2 list minus NSEC (decide over the whole table), canonical forms decode with a pointer-free decoder, key tag = RFC 4034 App. B for all byte strings, RRSIG signing input = RFC 4034 §3.1.8.1 incl. wildcard reduction and error cases, DS input composition, NSEC3 iteration = RFC 5155 §5 recurrence and base32hex translation, type bitmaps exact/ascending/minimal, NSEC chain over the secure names, ZONEMD exclusions. The model is tied to the code by a differential correspondence check over every modelled function and an independent Python RFC reference evaluated on the implementation.",
    "note": "Trusted: Lean kernel + propext/Classical.choice/Quot.sound; statements in lean/Props/C15.lean; correspondence harness and generators; harness/extract_C15.py; hashlib. The order facts of the NSEC chain are discharged from C06; partial only where the recorded findings force it (Chaosnet A; unimplemented §6.2 types have no table rows).",
    "technique": "Lean 4 proof (induction, invariants over the loops, decide over a complete finite table) + model-vs-implementation correspondence + independent RFC reference oracle",
    "design_ref": "DESIGN.md §7 C15",
}

"""C06 — name comparison is the DNSSEC canonical order, coherent with equality and hash.

Correspondence: dns.name.Name.{fullcompare,is_subdomain,is_superdomain,__hash__,relativize,derelativize,parent,
split,successor,predecessor} (working tree) vs lean/Model/Name.lean through the driver ops n.cmp, n.hash, ...
Oracle: an independent RFC 4034 section 6.1 reference (reversed lists of ASCII-lower-cased labels compared as Python
lists of bytes; relative before absolute) against every comparison entry point, the order laws on pairs and
triples, hash coherence, relation / nlabels against a reference, parent / split / relativize / derelativize
coherence, successor / predecessor monotonicity, sorted(), NameDict.get_deepest_match.
"""
import glob
import json
import os

import dns.exception
import dns.name
import dns.namedict

from harness.core import Ctx, VERIF, enc_labels

try:
    from harness.core import Stalled
except ImportError:  # older core
    class Stalled(BaseException):
        pass

RULE = (
    "cases come from one SplitMix64 state: clusters of related names (a base name and variants: ASCII case swapped "
    "on the whole name / one label / one octet, one octet moved to a neighbour in the pool "
    "{00,01,09,0a,0d,20,2d,2e,30,39,40,41,5a,5b,5c,5d,5e,5f,60,61,7a,7b,7f,80,fe,ff}, a label truncated or extended by 00, a label "
    "prepended or dropped, relativity flipped, a label boundary moved across / removed at / inserted at an inner 2e, 00 "
    "or nothing so that the labels joined by that separator coincide), label lengths from {1,2,3,5,31,62,63}, names pushed to 253..255 wire "
    "octets; pairs and triples are drawn mostly from one cluster; successor/predecessor cases add labels ending in "
    "@ Z [ { 00 ff, all-ff labels, maximal labels and names, name == origin, both prefix_ok values, relative names; "
    "a case is non-trivial if its key (kind + inputs) is new"
)
TRUSTED_BASE = [
    "Python int/bytes/tuple semantics; the reference order uses Python list-of-bytes comparison after an explicit "
    "65..90 -> +32 translation (independent of bytes.lower())",
]
ASSUMPTIONS = [
    "relativize-then-derelativize is proved for absolute names and for relative names below a non-empty origin; at the "
    "empty origin the code drops the name (recorded known finding, counterexample proved in Props/C06.lean)",
    "sorted()/min()/max() and set()/dict collapse are checked by the direct oracle only (Python's sort and hashing are external); "
    "dns.namedict.NameDict is modelled (Model/NameDict.lean) and tied on whole histories",
    "IDNA/unicode paths are outside the model",
]

OCTETS = [0x00, 0x01, 0x09, 0x0A, 0x0D, 0x20, 0x2D, 0x2E, 0x30, 0x39, 0x40, 0x41, 0x5A, 0x5B, 0x5C, 0x5D, 0x5E, 0x5F, 0x60, 0x61, 0x7A, 0x7B, 0x7F,
          0x80, 0xFE, 0xFF]
LETTERS = [0x61, 0x62, 0x41, 0x42, 0x7A, 0x5A]
LEN_POOL = [1, 1, 1, 2, 2, 3, 5, 31, 62, 63]
TRANS = bytes((c + 32) if 65 <= c <= 90 else c for c in range(256))


# ------------------------------------------------------------------------------------------------
# reference (RFC 4034 section 6.1), independent of dns.name
# ------------------------------------------------------------------------------------------------
def low(l: bytes) -> bytes:
    return l.translate(TRANS)


def is_abs(labels) -> bool:
    return len(labels) > 0 and labels[-1] == b""


def key(labels):
    return (1 if is_abs(labels) else 0, [low(l) for l in reversed(labels)])


def sgn(x) -> int:
    return (x > 0) - (x < 0)


def ref_cmp(a, b) -> int:
    ka, kb = key(a), key(b)
    return (ka > kb) - (ka < kb)


def ref_common(a, b) -> int:
    if is_abs(a) != is_abs(b):
        return 0
    n = 0
    for x, y in zip(reversed(a), reversed(b)):
        if low(x) != low(y):
            break
        n += 1
    return n


def ref_rel(a, b) -> int:
    if is_abs(a) != is_abs(b):
        return 0
    c = ref_common(a, b)
    if c == len(a) and c == len(b):
        return 3
    if c == len(a):
        return 1
    if c == len(b):
        return 2
    return 4 if c > 0 else 0


def ref_sub(a, b) -> bool:
    return is_abs(a) == is_abs(b) and len(b) <= len(a) and [low(x) for x in a[len(a) - len(b):]] == [low(x) for x in b]


def wf(labels):
    return all(len(l) <= 63 for l in labels) and sum(len(l) + 1 for l in labels) <= 255 and all(
        len(l) > 0 for l in labels[:-1])


# ------------------------------------------------------------------------------------------------
# generators
# ------------------------------------------------------------------------------------------------
def gen_label(rng, maxlen=63):
    n = max(1, min(rng.choice(LEN_POOL), maxlen))
    m = rng.below(4)
    if m == 0:
        return rng.bytes(n, LETTERS)
    if m == 1:
        return rng.bytes(n)
    return rng.bytes(n, OCTETS)


def gen_labels(rng, absolute=None, budget=255):
    if absolute is None:
        absolute = rng.chance(3, 4)
    if absolute:
        budget -= 1
    labels = []
    k = rng.choice([0, 1, 1, 2, 2, 3, 3, 4, 5])
    push = rng.chance(1, 10)
    if push:
        k = 12
    if rng.chance(1, 40):
        # the maximum number of labels: up to 127 one- or two-octet labels
        n_ = min(rng.choice([100, 126, 127, 127]), (budget - 0) // 2)
        labels = [rng.bytes(1 if (budget - 2 * n_) <= i else rng.choice([1, 1, 2]), LETTERS + [0x5B, 0x40]) for i in range(n_)]
        while sum(len(x) + 1 for x in labels) > budget:
            labels.pop()
        return labels + ([b""] if absolute else [])
    for _ in range(k):
        if budget < 2:
            break
        l = gen_label(rng, min(63, budget - 1))
        if push and budget - 1 <= 63 and rng.chance(1, 2):
            l = rng.bytes(max(1, budget - 1 - rng.below(2)), OCTETS)
        labels.append(l)
        budget -= len(l) + 1
    if absolute:
        labels.append(b"")
    return labels


def swap_octet(c: int) -> int:
    if 65 <= c <= 90:
        return c + 32
    if 97 <= c <= 122:
        return c - 32
    return c


def variant(rng, base):
    """a name related to `base` (list of bytes labels); always well formed"""
    for _ in range(8):
        ls = list(base)
        absolute = is_abs(ls)
        body = ls[:-1] if absolute else ls
        m = rng.below(14)
        if m >= 12:
            bm = boundary_move(rng, ls)
            if bm is not None:
                return bm[1] if rng.chance(1, 2) else [bytes(swap_octet(c) for c in l) for l in bm[1]]
            continue
        if m == 0:
            body = [bytes(swap_octet(c) for c in l) for l in body]
        elif m == 1 and body:
            i = rng.below(len(body))
            body[i] = bytes(swap_octet(c) for c in body[i])
        elif m == 2 and body:
            i = rng.below(len(body))
            l = bytearray(body[i])
            j = rng.below(len(l))
            l[j] = swap_octet(l[j])
            body[i] = bytes(l)
        elif m == 3 and body:
            i = rng.below(len(body))
            l = bytearray(body[i])
            j = rng.below(len(l))
            if l[j] in OCTETS and rng.chance(2, 3):
                p = OCTETS.index(l[j])
                l[j] = OCTETS[(p + rng.choice([-1, 1])) % len(OCTETS)]
            else:
                l[j] = rng.choice(OCTETS)
            body[i] = bytes(l)
        elif m == 4 and body:
            i = rng.below(len(body))
            if len(body[i]) > 1:
                body[i] = body[i][:-1]
        elif m == 5 and body:
            i = rng.below(len(body))
            body[i] = body[i] + bytes([rng.choice([0, 0, 0x61, 0xFF])])
        elif m == 6:
            body = [gen_label(rng, 5)] + body
        elif m == 7 and body:
            body = body[1:]
        elif m == 8 and body:
            body = body[rng.below(len(body)):]
        elif m == 9:
            absolute = not absolute
        elif m == 10 and body:
            i = rng.below(len(body))
            body[i] = gen_label(rng, len(body[i]))
        ls = body + ([b""] if absolute else [])
        if wf(ls):
            return ls
    return list(base)


SEPS = [b".", b".", b"\x00", b""]


def boundary_move(rng, base, want=None):
    """a name whose labels, joined by some separator (2e, 00 or nothing), give the same octet string as `base`'s, but
    with a label boundary somewhere else: same label count (boundary shifted between two adjacent labels), one label
    fewer (two labels merged around the separator) or one more (a label split at the separator).  None if impossible."""
    absolute = is_abs(base)
    body = list(base[:-1] if absolute else base)
    sep = rng.choice(SEPS)
    mode = want if want is not None else rng.choice(["shift", "shift", "shift", "merge", "split"])
    for _ in range(6):
        if mode in ("shift", "merge") and len(body) >= 2:
            i = rng.below(len(body) - 1)
            l1, l2 = body[i], body[i + 1]
            if mode == "merge":
                m = l1 + sep + l2
                cand = body[:i] + [m] + body[i + 2:]
            else:
                joined = l1 + sep + l2
                if sep:
                    cuts = [k for k in range(1, len(joined) - 1) if joined[k:k + 1] == sep and k != len(l1)]
                    if not cuts:
                        # plant a separator inside one of the two labels, then move the boundary onto it
                        if rng.chance(1, 2) and len(l1) >= 2:
                            k = rng.range(1, len(l1) - 1)
                            l1 = l1[:k] + sep + l1[k + 1:]
                        elif len(l2) >= 2:
                            k = rng.range(1, len(l2) - 1)
                            l2 = l2[:k] + sep + l2[k + 1:]
                        else:
                            l1 = l1 + sep + bytes([rng.choice(LETTERS)])
                        body[i], body[i + 1] = l1, l2
                        joined = l1 + sep + l2
                        cuts = [k for k in range(1, len(joined) - 1) if joined[k:k + 1] == sep and k != len(l1)]
                    if not cuts:
                        continue
                    k = rng.choice(cuts)
                    n1, n2 = joined[:k], joined[k + 1:]
                else:
                    cuts = [k for k in range(1, len(joined)) if k != len(l1)]
                    if not cuts:
                        body[i] = l1 + bytes([rng.choice(LETTERS)])
                        continue
                    k = rng.choice(cuts)
                    n1, n2 = joined[:k], joined[k:]
                cand = body[:i] + [n1, n2] + body[i + 2:]
        elif mode in ("shift", "merge"):
            body = [gen_label(rng, 8)] + body
            continue
        elif body:
            i = rng.below(len(body))
            l = body[i]
            if sep:
                cuts = [k for k in range(1, len(l) - 1) if l[k:k + 1] == sep]
                if not cuts and len(l) >= 3:
                    k = rng.range(1, len(l) - 2)
                    l = l[:k] + sep + l[k + 1:]
                    body[i] = l
                    cuts = [k]
                if not cuts:
                    body[i] = l + bytes([rng.choice(LETTERS)])
                    continue
                k = rng.choice(cuts)
                cand = body[:i] + [l[:k], l[k + 1:]] + body[i + 1:]
            else:
                if len(l) < 2:
                    body[i] = l + bytes([rng.choice(LETTERS)])
                    continue
                k = rng.range(1, len(l) - 1)
                cand = body[:i] + [l[:k], l[k:]] + body[i + 1:]
        else:
            body = [gen_label(rng, 5), gen_label(rng, 5)]
            continue
        a = body + ([b""] if absolute else [])
        b = cand + ([b""] if absolute else [])
        if wf(a) and wf(b) and a != b:
            return a, b
        body = [x[:20] for x in body][:4] or [b"a.b", b"c"]
    return None


def cluster(rng, k):
    base = gen_labels(rng)
    out = [base]
    for _ in range(k - 1):
        out.append(variant(rng, rng.choice(out)))
    return out


def hexl(labels):
    return [l.hex() for l in labels]


def unhexl(xs):
    return [bytes.fromhex(x) for x in xs]


SUCC_TAILS = [0x00, 0x3F, 0x40, 0x41, 0x59, 0x5A, 0x5B, 0x5C, 0x60, 0x61, 0x7A, 0x7B, 0xFE, 0xFF]


def gen_succ_case(rng):
    """(name labels, origin labels, prefix_ok)"""
    origin = gen_labels(rng, absolute=True, budget=rng.choice([1, 9, 9, 40, 120, 200]))
    room = 255 - sum(len(x) + 1 for x in origin)
    m = rng.below(12)
    body = []
    if m == 0:
        body = []  # name == origin
    elif m == 1 and room >= 2:
        body = [b"\x00"]
    elif m <= 5 and room >= 2:
        # one label with a chosen tail, possibly maximal
        n = min(rng.choice([1, 2, 3, 62, 63, 63]), room - 1)
        stem = rng.bytes(n - 1, rng.choice([OCTETS, LETTERS, [0xFF], [0x5A], [0x40]]))
        body = [stem + bytes([rng.choice(SUCC_TAILS)])]
        if rng.chance(1, 3):
            k = rng.below(len(body[0]) + 1)
            body = [body[0][: len(body[0]) - k] + b"\xff" * k]
    elif m <= 8:
        # fill the name to (almost) the maximum
        left = room - rng.choice([0, 0, 1, 2, 3])
        while left >= 2:
            n = min(63, left - 1)
            if rng.chance(1, 3):
                n = max(1, n - rng.below(3))
            pool = rng.choice([[0xFF], [0xFF], OCTETS, [0x5A], LETTERS])
            l = rng.bytes(n, pool)
            if rng.chance(1, 2):
                l = l[:-1] + bytes([rng.choice(SUCC_TAILS)])
            body.insert(0, l)
            left -= n + 1
    else:
        b = gen_labels(rng, absolute=False, budget=room)
        body = b
        if body and rng.chance(1, 2):
            l = body[0]
            body[0] = l[:-1] + bytes([rng.choice(SUCC_TAILS)])
    name = body + origin
    if rng.chance(1, 6):
        # case-variant origin inside the name
        name = body + [bytes(swap_octet(c) for c in l) for l in origin]
    mode = rng.below(10)
    if mode == 0:
        name = body  # relative name
    elif mode == 1:
        name = body  # relative name
    elif mode == 2 and rng.chance(1, 3):
        origin = origin[:-1]  # relative origin -> NeedAbsoluteNameOrOrigin
    elif mode == 3 and rng.chance(1, 3):
        name = gen_labels(rng, absolute=True, budget=60)  # probably not below the origin
    if not wf(name) or not wf(origin):
        return gen_succ_case(rng)
    return name, origin, rng.below(2)


# ------------------------------------------------------------------------------------------------
# evaluation
# ------------------------------------------------------------------------------------------------
def outcome(fn, fmt):
    try:
        v = fn()
    except dns.exception.DNSException as e:
        return "err " + type(e).__name__, None
    except ValueError:
        return "err ValueError", None
    except BaseException as e:  # foreign
        if isinstance(e, Stalled):
            raise
        return "FOREIGN " + type(e).__name__, None
    return "ok " + fmt(v), v


def fmt_name(x):
    return enc_labels(x.labels)


def b2s(b) -> str:
    return "true" if b else "false"


def check_pair(ctx, a, b, rep):
    """all comparison entry points of the implementation against the reference, for the ordered pair (a, b)"""
    A, B = dns.name.Name(a), dns.name.Name(b)
    rel, order, nl = A.fullcompare(B)
    sub, sup = A.is_subdomain(B), A.is_superdomain(B)
    ctx.corr(f"n.cmp {enc_labels(a)} {enc_labels(b)}", f"ok {int(rel)} {sgn(order)} {nl} sub={b2s(sub)} sup={b2s(sup)}",
             rep["case"])
    r = ref_cmp(a, b)
    what = f"{a!r} vs {b!r}"
    if sgn(order) != r:
        ctx.fail("C06/fullcompare/order", f"fullcompare order {order} but RFC 4034 6.1 says {r}: {what}", rep)
    if int(rel) != ref_rel(a, b):
        ctx.fail("C06/fullcompare/relation", f"relation {int(rel)} expected {ref_rel(a, b)}: {what}", rep)
    if nl != ref_common(a, b):
        ctx.fail("C06/fullcompare/nlabels", f"nlabels {nl} expected {ref_common(a, b)}: {what}", rep)
    ops = {"eq": (A == B, r == 0), "ne": (A != B, r != 0), "lt": (A < B, r < 0), "le": (A <= B, r <= 0),
           "gt": (A > B, r > 0), "ge": (A >= B, r >= 0)}
    for k, (got, exp) in ops.items():
        if bool(got) != exp:
            ctx.fail(f"C06/richcmp/{k}", f"{k} gives {got}, reference {exp}: {what}", rep)
    if (A == B) != ([low(x) for x in a] == [low(x) for x in b]):
        ctx.fail("C06/eq/case-fold", f"== is not 'equal up to ASCII case': {what}", rep)
    eqv, nev, ltv, gtv = bool(A == B), bool(A != B), bool(A < B), bool(A > B)
    if eqv != (order == 0) or bool(B == A) != eqv:
        ctx.fail("C06/eq/order-zero", f"== is {eqv} (reversed {bool(B == A)}) but fullcompare order is {order}: {what}", rep)
    if nev == eqv:
        ctx.fail("C06/ne/negation", f"== and != are both {eqv}: {what}", rep)
    if [ltv, eqv, gtv].count(True) != 1:
        ctx.fail("C06/order/trichotomy", f"(<, ==, >) = {(ltv, eqv, gtv)}: {what}", rep)
    if bool(A <= B) != (ltv or eqv) or bool(A >= B) != (gtv or eqv):
        ctx.fail("C06/order/le-ge", f"<= / >= disagree with < / == / >: {what}", rep)
    d = {A: 1}
    if (B in d) != (r == 0) or len({A, B}) != (1 if r == 0 else 2) or (B in (A,)) != (r == 0):
        ctx.fail("C06/hash/container-membership", f"dict/set/tuple membership disagrees with canonical equality ({r == 0}): {what}", rep)
    if A == B and hash(A) != hash(B):
        ctx.fail("C06/hash/equal-names-differ", f"equal names hash differently: {what}", rep)
    rel2, order2, nl2 = B.fullcompare(A)
    if sgn(order2) != -sgn(order) or nl2 != nl or int(rel2) != {0: 0, 1: 2, 2: 1, 3: 3, 4: 4}[int(rel)]:
        ctx.fail("C06/order/antisymmetry", f"fullcompare(a,b)={int(rel), order, nl} but fullcompare(b,a)={int(rel2), order2, nl2}: {what}", rep)
    if sub != ref_sub(a, b):
        ctx.fail("C06/is_subdomain/spec", f"is_subdomain {sub}, reference {ref_sub(a, b)}: {what}", rep)
    if sup != ref_sub(b, a):
        ctx.fail("C06/is_superdomain/spec", f"is_superdomain {sup}, reference {ref_sub(b, a)}: {what}", rep)
    if sub != (int(rel) in (2, 3)) or sup != (int(rel) in (1, 3)):
        ctx.fail("C06/relation/predicates", f"relation {int(rel)} disagrees with sub={sub} sup={sup}: {what}", rep)
    ctx.count(f"pair.rel{int(rel)}.order{sgn(order)}")
    if r == 0 and a != b:
        ctx.count("pair.equal-up-to-case")


class SubName(dns.name.Name):
    """a user subclass of Name (must be a Name for every comparison entry point)"""
    __slots__ = ()


def name_routes(labels, rng_pick):
    """the same name through another object route"""
    import copy
    import pickle
    N = dns.name.Name(labels)
    makers = [lambda: SubName(labels), lambda: dns.name.Name(tuple(labels)), lambda: dns.name.Name(x for x in labels),
              lambda: pickle.loads(pickle.dumps(N)), lambda: copy.deepcopy(N), lambda: pickle.loads(pickle.dumps(SubName(labels))),
              lambda: dns.name.from_text(N.to_text(), None),
              lambda: (dns.name.from_wire(N.to_wire(), 0)[0] if is_abs(labels) else dns.name.Name(N[:])),
              lambda: dns.name.Name([l.decode("latin-1").encode("latin-1") for l in labels])]
    return makers[rng_pick % len(makers)]()


def check_routes(ctx, a, b, pick, rep):
    """every comparison entry point gives the same answers whatever object route produced the operands"""
    A, B = dns.name.Name(a), dns.name.Name(b)
    try:
        A2, B2 = name_routes(a, pick), name_routes(b, pick // 9)
    except Exception as e:
        ctx.fail("C06/route/construction", f"{type(e).__name__} for {a!r} / {b!r} (route {pick})", rep)
        return
    if list(A2.labels) != a or list(B2.labels) != b:
        ctx.fail("C06/route/labels", f"route {pick}: {list(A2.labels)!r} / {list(B2.labels)!r} for {a!r} / {b!r}", rep)
        return
    def view(X, Y):
        f = X.fullcompare(Y)
        return (int(f[0]), sgn(f[1]), f[2], bool(X == Y), bool(X != Y), bool(X < Y), bool(X <= Y), bool(X > Y), bool(X >= Y),
                X.is_subdomain(Y), X.is_superdomain(Y), hash(X) == hash(A), Y in {X: 1}, Y in [X], len({X, Y}))
    base = view(A, B)
    for X, Y, nm in ((A2, B, "left"), (A, B2, "right"), (A2, B2, "both")):
        got = view(X, Y)
        if got != base:
            ctx.fail("C06/route/coherence", f"{type(X).__name__}/{type(Y).__name__} (route {pick}, {nm}): "
                     f"(relation, order, nlabels, ==, !=, <, <=, >, >=, sub, sup, hash, in dict, in list, |set|) = {got}, "
                     f"plain Name objects give {base}: {a!r} vs {b!r}", rep)
            break
    # the same object on both sides, and repeated hashing
    for X in (A, A2):
        f = X.fullcompare(X)
        h1, h2 = hash(X), hash(X)
        if (int(f[0]), f[1], f[2]) != (3, 0, len(a)) or not (X == X) or X != X or X < X or X > X or not (X <= X) or not (X >= X) \
                or h1 != h2 or h1 != hash(A) or not X.is_subdomain(X) or not X.is_superdomain(X):
            ctx.fail("C06/order/reflexive", f"{type(X).__name__} compared with itself: fullcompare {tuple(f)}: {a!r}", rep)
    ctx.count("pair.routes")


def check_name(ctx, a, rep):
    A = dns.name.Name(a)
    ctx.corr(f"n.hash {enc_labels(a)}", f"ok {A.__hash__()}", rep["case"])
    C = A.canonicalize()
    if list(C.labels) != [low(x) for x in a] or not (C == A) or hash(C) != hash(A):
        ctx.fail("C06/canonicalize/spec", f"canonicalize({a!r}) = {C.labels!r}", rep)


def eval_case(ctx: Ctx, c: dict):
    k = c["kind"]
    rep = {"kind": k, "case": c}
    if k == "pair":
        a, b = unhexl(c["a"]), unhexl(c["b"])
        check_pair(ctx, a, b, rep)
        check_name(ctx, a, rep)
        check_routes(ctx, a, b, c.get("route", (len(a) * 7 + len(b) * 3 + sum(a[0][:1]) if a else len(b))), rep)
    elif k == "triple":
        a, b, cc = unhexl(c["a"]), unhexl(c["b"]), unhexl(c["c"])
        A, B, C = dns.name.Name(a), dns.name.Name(b), dns.name.Name(cc)
        for (x, X), (y, Y), (z, Z) in [((a, A), (b, B), (cc, C)), ((b, B), (cc, C), (a, A)), ((cc, C), (a, A), (b, B)),
                                        ((a, A), (cc, C), (b, B)), ((b, B), (a, A), (cc, C)), ((cc, C), (b, B), (a, A))]:
            if X <= Y and Y <= Z and not X <= Z:
                ctx.fail("C06/order/transitivity", f"{x!r} <= {y!r} <= {z!r} but not {x!r} <= {z!r}", rep)
            if X < Y and Y < Z and not X < Z:
                ctx.fail("C06/order/transitivity", f"{x!r} < {y!r} < {z!r} but not {x!r} < {z!r}", rep)
            if X == Y and sgn(X.fullcompare(Z)[1]) != sgn(Y.fullcompare(Z)[1]):
                ctx.fail("C06/order/eq-congruence", f"{x!r} == {y!r} but they compare differently with {z!r}", rep)
            if X == Y and Y == Z and not X == Z:
                ctx.fail("C06/order/transitivity", f"== not transitive on {x!r} {y!r} {z!r}", rep)
        for x, y in ((a, b), (b, cc), (a, cc)):
            check_pair(ctx, x, y, rep)
        ctx.count("triple")
    elif k == "sort":
        names = [unhexl(x) for x in c["names"]]
        objs = [dns.name.Name(x) for x in names]
        got = [key(list(x.labels)) for x in sorted(objs)]
        exp = sorted(key(x) for x in names)
        if got != exp:
            ctx.fail("C06/sorted/order", f"sorted() of {len(names)} names is not the canonical order", rep)
        # max/min coherent
        if names:
            if key(list(max(objs).labels)) != exp[-1] or key(list(min(objs).labels)) != exp[0]:
                ctx.fail("C06/sorted/order", "max()/min() disagree with the canonical order", rep)
        # equal names collapse in sets and dicts (eq/hash coherence in use)
        if len(set(objs)) != len({(kk[0], tuple(kk[1])) for kk in exp}):
            ctx.fail("C06/hash/set-collapse", "set(names) does not collapse exactly the names equal up to case", rep)
        ctx.count("sort")
    elif k in ("succ", "pred"):
        a, o, p = unhexl(c["a"]), unhexl(c["o"]), c["p"]
        A, O = dns.name.Name(a), dns.name.Name(o)
        fn = A.successor if k == "succ" else A.predecessor
        r, v = outcome(lambda: fn(O, bool(p)), fmt_name)
        ctx.corr(f"n.{k} {enc_labels(a)} {enc_labels(o)} {p}", r, c)
        ctx.count(f"{k}." + (("ok.abs" if is_abs(a) else "ok.rel") if v is not None else r.split(" ")[1]))
        if r.startswith("FOREIGN"):
            ctx.fail(f"C06/{k}/foreign-exception:" + r.split(" ")[1], f"{k}({a!r},{o!r},{p}) -> {r}", rep)
        if not is_abs(o):
            exp_err = "err NeedAbsoluteNameOrOrigin"
        elif is_abs(a) and not ref_sub(a, o):
            exp_err = "err NeedSubdomainOfOrigin"
        else:
            exp_err = None
        if exp_err is not None and r != exp_err:
            ctx.fail(f"C06/{k}/error-class", f"{k}({a!r}, origin={o!r}) -> {r}, expected {exp_err}", rep)
        if v is None and is_abs(o) and ((is_abs(a) and ref_sub(a, o)) or (not is_abs(a) and wf(a + o))):
            # total on its documented domain: a legal name at or below an absolute origin
            ctx.fail(f"C06/{k}/raises-on-valid-input", f"{k}({a!r}, origin={o!r}, prefix_ok={bool(p)}) -> {r}", rep)
        if v is not None:
            res = list(v.labels)
            wrap = o if is_abs(a) else []
            what = f"{k}({a!r}, origin={o!r}, prefix_ok={bool(p)}) = {res!r}"
            if not wf(res):
                ctx.fail(f"C06/{k}/closure", f"illegal name: {what}", rep)
            if is_abs(res) != is_abs(a):
                ctx.fail(f"C06/{k}/relativity", f"relativity not preserved: {what}", rep)
            if k == "succ":
                wrapped = ref_cmp(res, wrap) == 0
                if wrapped:
                    ctx.count("succ.wrapped")
                if not wrapped and not (ref_cmp(a, res) < 0 and A < v):
                    ctx.fail("C06/successor/not-after", f"successor does not sort after the name: {what}", rep)
                if not wrapped and not ref_sub(res if is_abs(a) else res + o, o):
                    ctx.fail("C06/successor/outside-zone", f"successor is not below the origin: {what}", rep)
            else:
                at_origin = ref_cmp(a, wrap) == 0
                if at_origin:
                    ctx.count("pred.at-origin")
                if not at_origin and not (ref_cmp(res, a) < 0 and v < A):
                    ctx.fail("C06/predecessor/not-before", f"predecessor does not sort before the name: {what}", rep)
                if not ref_sub(res if is_abs(a) else res + o, o):
                    ctx.fail("C06/predecessor/outside-zone", f"predecessor is not below the origin: {what}", rep)
                # RFC 4471: the successor of the predecessor does not overshoot the name
                if not at_origin:
                    r2, v2 = outcome(lambda: v.successor(O, bool(p)), fmt_name)
                    if v2 is not None and ref_cmp(list(v2.labels), wrap) != 0 and ref_cmp(list(v2.labels), a) > 0 and p:
                        ctx.count("pred.succ-overshoot")  # informational only (not part of the property text)
    elif k == "relder":
        a, o = unhexl(c["a"]), unhexl(c["o"])
        A, O = dns.name.Name(a), dns.name.Name(o)
        r1, v1 = outcome(lambda: A.relativize(O), fmt_name)
        ctx.corr(f"n.relativize {enc_labels(a)} {enc_labels(o)}", r1, c)
        r2, v2 = outcome(lambda: A.derelativize(O), fmt_name)
        ctx.corr(f"n.derelativize {enc_labels(a)} {enc_labels(o)}", r2, c)
        for r in (r1, r2):
            if r.startswith("FOREIGN"):
                ctx.fail("C06/relativize/foreign-exception:" + r.split(" ")[1], f"{a!r} / {o!r} -> {r}", rep)
        if is_abs(a) or ref_sub(a, o):
            # relativize then derelativize restores the name (absolute names; relative names below the origin)
            sig = "C06/relativize-derelativize/restores" + ("/empty-origin" if len(o) == 0 else "")
            if v1 is None:
                ctx.fail("C06/relativize-derelativize/raises", f"relativize({a!r},{o!r}) -> {r1}", rep)
            else:
                r3, v3 = outcome(lambda: v1.derelativize(O), fmt_name)
                ctx.corr(f"n.derelativize {enc_labels(v1.labels)} {enc_labels(o)}", r3, c)
                if v3 is None or not (v3 == A) or ref_cmp(list(v3.labels), a) != 0:
                    ctx.fail(sig, f"{a!r} relativized to {o!r} gives {list(v1.labels)!r}, then derelativized -> {r3}", rep)
                elif ref_sub(a, o) and a[len(a) - len(o):] == o and list(v3.labels) != a:
                    ctx.fail(sig, f"byte-identical origin but labels changed: {r3}", rep)
                ctx.count("relder." + ("abs." if is_abs(a) else "rel.") + ("sub" if ref_sub(a, o) else "nosub"))
        elif is_abs(o) and v2 is not None:
            r3, v3 = outcome(lambda: v2.relativize(O), fmt_name)
            ctx.corr(f"n.relativize {enc_labels(v2.labels)} {enc_labels(o)}", r3, c)
            if v3 is None or list(v3.labels) != a:
                ctx.fail("C06/derelativize-relativize/restores", f"{a!r} derelativized to {o!r} then relativized -> {r3}", rep)
            ctx.count("relder.rel")
        else:
            ctx.count("relder.other")
    elif k == "parent":
        a = unhexl(c["a"])
        A = dns.name.Name(a)
        r, v = outcome(lambda: A.parent(), fmt_name)
        ctx.corr(f"n.parent {enc_labels(a)}", r, c)
        ctx.count("parent." + ("ok" if v is not None else r.split(" ")[1]))
        if r.startswith("FOREIGN"):
            ctx.fail("C06/parent/foreign-exception:" + r.split(" ")[1], f"parent({a!r}) -> {r}", rep)
        if v is not None:
            rel, order, nl = A.fullcompare(v)
            if list(v.labels) != a[1:] or int(rel) != 2 or order <= 0 or nl != len(a) - 1 or not A.is_subdomain(v) \
                    or not v.is_superdomain(A) or not v < A:
                ctx.fail("C06/parent/relation", f"parent({a!r}) = {v.labels!r}: fullcompare = {int(rel), order, nl}", rep)
            check_pair(ctx, a, list(v.labels), rep)
        elif ref_cmp(a, [b""]) != 0 and ref_cmp(a, []) != 0:
            ctx.fail("C06/parent/raises", f"parent({a!r}) -> {r}", rep)
    elif k == "split":
        a, d = unhexl(c["a"]), c["d"]
        A = dns.name.Name(a)
        r, v = outcome(lambda: A.split(d), lambda x: f"{enc_labels(x[0].labels)} {enc_labels(x[1].labels)}")
        ctx.corr(f"n.split {enc_labels(a)} {d}", r, c)
        ctx.count("split." + ("ok" if v is not None else r.split(" ")[1]))
        if r.startswith("FOREIGN"):
            ctx.fail("C06/split/foreign-exception:" + r.split(" ")[1], f"split({a!r},{d}) -> {r}", rep)
        if v is not None:
            pre, suf = v
            if list(pre.labels) + list(suf.labels) != a or len(suf) != d:
                ctx.fail("C06/split/parts", f"split({a!r},{d}) -> {r}", rep)
            if d > 0:
                rel, order, nl = A.fullcompare(suf)
                if nl != d or int(rel) != (3 if d == len(a) else 2) or not A.is_subdomain(suf) or sgn(order) != sgn(len(a) - d):
                    ctx.fail("C06/split/relation", f"split({a!r},{d}): fullcompare(name, suffix) = {int(rel), order, nl}", rep)
        elif 0 <= d <= len(a):
            ctx.fail("C06/split/raises", f"split({a!r},{d}) -> {r}", rep)
    elif k == "namedict":
        names = [unhexl(x) for x in c["names"]]
        q = unhexl(c["q"])
        nd = dns.namedict.NameDict()
        for i, n in enumerate(names):
            nd[dns.name.Name(n)] = i
        for n in c.get("delete", []):
            try:
                del nd[dns.name.Name(unhexl(n))]
            except KeyError:
                pass
        live = {}
        for i, n in enumerate(names):
            live[(is_abs(n), tuple(low(x) for x in n))] = n
        for n in c.get("delete", []):
            n = unhexl(n)
            live.pop((is_abs(n), tuple(low(x) for x in n)), None)
        best = None
        for kk, n in live.items():
            if n and ref_sub(q, n) and (best is None or len(n) > len(best)):
                best = n
        r, v = outcome(lambda: nd.get_deepest_match(dns.name.Name(q)), lambda x: enc_labels(x[0].labels))
        if best is None:
            has_empty = (False, ()) in live
            if (v is not None) != has_empty or (v is not None and len(v[0]) != 0):
                ctx.fail("C06/namedict/deepest-match", f"query {q!r}: got {r}, expected the empty-name entry or KeyError", rep)
        elif r.startswith("err") and not r.startswith("err KeyError"):
            ctx.fail("C06/namedict/deepest-match", f"query {q!r}: {r}", rep)
        elif v is None:
            # KeyError is not a DNSException: outcome() reports FOREIGN
            ctx.fail("C06/namedict/deepest-match", f"query {q!r}: got {r}, expected {best!r}", rep)
        elif ref_cmp(list(v[0].labels), best) != 0:
            ctx.fail("C06/namedict/deepest-match", f"query {q!r}: got {r}, expected {best!r}", rep)
        ctx.count("namedict")
    elif k == "ndhist":
        # a NameDict history: every step against the model and against a reference dict keyed by the canonical key
        nd = dns.namedict.NameDict()
        ref = {}  # canonical key -> [first-stored labels, value]
        ck = lambda n: (is_abs(n), tuple(low(x) for x in n))
        trace = []
        toks = []
        for st in c["script"]:
            op, n = st[0], unhexl(st[1])
            N = dns.name.Name(n)
            what = f"step {len(trace)} {op} {n!r}"
            toks += [op, enc_labels(n)] + ([str(st[2])] if op == "set" else [])
            try:
                if op == "set":
                    nd[N] = st[2]
                    if ck(n) in ref:
                        ref[ck(n)][1] = st[2]
                    else:
                        ref[ck(n)] = [n, st[2]]
                    trace.append(f"ok {len(nd)}")
                elif op == "del":
                    try:
                        del nd[N]
                        if ck(n) not in ref:
                            ctx.fail("C06/namedict/delitem", f"{what}: deleted an absent key", rep)
                        ref.pop(ck(n), None)
                        trace.append(f"ok {len(nd)}")
                    except KeyError:
                        if ck(n) in ref:
                            ctx.fail("C06/namedict/delitem", f"{what}: KeyError for a present key", rep)
                        trace.append("err KeyError")
                elif op == "has":
                    got = nd.has_key(N)
                    if got != (ck(n) in ref) or (N in nd) != got:
                        ctx.fail("C06/namedict/has_key", f"{what}: {got}", rep)
                    trace.append("true" if got else "false")
                elif op == "item":
                    try:
                        v = nd[N]
                        if ck(n) not in ref or ref[ck(n)][1] != v:
                            ctx.fail("C06/namedict/getitem", f"{what}: {v}", rep)
                        trace.append(f"ok {v}")
                    except KeyError:
                        if ck(n) in ref:
                            ctx.fail("C06/namedict/getitem", f"{what}: KeyError for a present key", rep)
                        trace.append("err KeyError")
                elif op == "get":
                    best = None
                    for kk, (ls, v) in ref.items():
                        if ls and ref_sub(n, ls) and (best is None or len(ls) > len(best[0])):
                            best = (ls, v)
                    if best is None and (False, ()) in ref:
                        best = ([], ref[(False, ())][1])
                    try:
                        k2, v2 = nd.get_deepest_match(N)
                        if best is None or ref_cmp(list(k2.labels), best[0]) != 0 or v2 != best[1] \
                                or (len(k2) and list(k2.labels) != n[len(n) - len(k2):]):
                            ctx.fail("C06/namedict/deepest-match", f"{what}: got {list(k2.labels)!r}={v2}, expected {best!r}", rep)
                        trace.append(f"ok {enc_labels(k2.labels)}={v2}")
                    except KeyError:
                        if best is not None:
                            ctx.fail("C06/namedict/deepest-match", f"{what}: KeyError, expected {best!r}", rep)
                        trace.append("err KeyError")
                else:
                    raise ValueError(op)
            except (dns.exception.DNSException, ValueError, TypeError, AttributeError, IndexError, RuntimeError) as e:
                ctx.fail("C06/namedict/foreign-exception:" + type(e).__name__, f"{what}: {e!r}", rep)
                trace.append("FOREIGN")
                break
            if len(nd) != len(ref) or sorted(ck(list(x.labels)) for x in nd) != sorted(ref):
                ctx.fail("C06/namedict/keys", f"{what}: keys {[list(x.labels) for x in nd]!r}", rep)
            if any(len(x) > nd.max_depth for x in nd):
                ctx.fail("C06/namedict/max-depth", f"{what}: max_depth {nd.max_depth} below a key's label count", rep)
        for bad in ("a.", 5, None, b"a"):
            try:
                nd[bad] = 1
                ctx.fail("C06/namedict/non-name-key", f"NameDict accepted the key {bad!r}", rep)
            except ValueError:
                pass
        ctx.corr("c06.nd " + " ".join(toks), "|".join(trace), c)
        ctx.count("ndhist")
    elif k == "api":
        # the remaining entry points that must agree with the ones above: choose_relativity, the - and + operators,
        # default / keyword arguments, split with a negative depth, copies and pickles
        import copy
        import pickle
        a, o = unhexl(c["a"]), unhexl(c["o"])
        A, O = dns.name.Name(a), dns.name.Name(o)
        for origin, rel in ((O, True), (O, False), (None, True), (None, False), (dns.name.empty, True), (dns.name.empty, False)):
            r, v = outcome(lambda: A.choose_relativity(origin, rel), fmt_name)
            otok = "none" if origin is None else enc_labels(origin.labels)
            ctx.corr(f"c06.choose {enc_labels(a)} {otok} {1 if rel else 0}", r, c)
            if origin is None or len(origin) == 0:
                exp = "ok " + enc_labels(a)
            else:
                exp = outcome(lambda: A.relativize(O) if rel else A.derelativize(O), fmt_name)[0]
            if r != exp:
                ctx.fail("C06/choose_relativity/agrees", f"choose_relativity({a!r}, {otok}, {rel}) -> {r}, relativize/derelativize say {exp}", rep)
        if outcome(lambda: A.choose_relativity(O), fmt_name)[0] != outcome(lambda: A.choose_relativity(O, True), fmt_name)[0] \
                or outcome(lambda: A.choose_relativity(), fmt_name)[0] != "ok " + enc_labels(a) \
                or outcome(lambda: A.choose_relativity(origin=O, relativize=False), fmt_name)[0] != outcome(lambda: A.derelativize(O), fmt_name)[0]:
            ctx.fail("C06/choose_relativity/defaults", f"default / keyword arguments of choose_relativity({a!r}, {o!r})", rep)
        r1 = outcome(lambda: A - O, fmt_name)[0]
        ctx.corr(f"n.relativize {enc_labels(a)} {enc_labels(o)}", r1, c)
        if r1 != outcome(lambda: A.relativize(O), fmt_name)[0]:
            ctx.fail("C06/operator/sub", f"{a!r} - {o!r} -> {r1}", rep)
        r2 = outcome(lambda: A + O, fmt_name)[0]
        ctx.corr(f"n.concat {enc_labels(a)} {enc_labels(o)}", r2, c)
        if r2 != outcome(lambda: A.concatenate(O), fmt_name)[0]:
            ctx.fail("C06/operator/add", f"{a!r} + {o!r} -> {r2}", rep)
        if r2.startswith("ok") != ((not is_abs(a) or len(o) == 0) and wf(a + o)):
            ctx.fail("C06/concatenate/spec", f"{a!r} + {o!r} -> {r2}", rep)
        r3 = outcome(lambda: A + dns.name.empty, fmt_name)[0]
        if r3 != "ok " + enc_labels(a) or outcome(lambda: dns.name.empty + A, fmt_name)[0] != "ok " + enc_labels(a):
            ctx.fail("C06/concatenate/empty-is-neutral", f"{a!r} + empty -> {r3}", rep)
        for d in sorted({-1, -len(a) - 1, len(a) + 1} | ({-len(a)} if a else set())):
            r4 = outcome(lambda: A.split(d), lambda x: "split")[0]
            if r4 != "err ValueError":
                ctx.fail("C06/split/out-of-range-depth", f"split({a!r}, {d}) -> {r4}", rep)
        for fn in ("successor", "predecessor"):
            x0 = outcome(lambda: getattr(A, fn)(O), fmt_name)[0]
            x1 = outcome(lambda: getattr(A, fn)(O, True), fmt_name)[0]
            x2 = outcome(lambda: getattr(A, fn)(origin=O, prefix_ok=False), fmt_name)[0]
            x3 = outcome(lambda: getattr(A, fn)(O, False), fmt_name)[0]
            ctx.corr(f"n.{fn[:4]} {enc_labels(a)} {enc_labels(o)} 1", x0, c)
            if x0 != x1 or x2 != x3:
                ctx.fail(f"C06/{fn}/default-prefix_ok", f"{fn}({a!r}, {o!r}): default {x0} vs True {x1}; keyword False {x2} vs {x3}", rep)
        for what, B in (("copy", copy.copy(A)), ("deepcopy", copy.deepcopy(A)), ("pickle", pickle.loads(pickle.dumps(A))),
                        ("Name(labels)", dns.name.Name(A.labels)), ("Name(str labels)", None)):
            if B is None:
                try:
                    B = dns.name.Name([l.decode("ascii") for l in a])
                except (UnicodeDecodeError, dns.exception.DNSException):
                    continue
            if list(B.labels) != a or not (B == A) or B != A or hash(B) != hash(A) or tuple(B.fullcompare(A)) != (3, 0, len(a)):
                ctx.fail("C06/value/copies-equal", f"{what} of {a!r} is {list(B.labels)!r}", rep)
        if (A == dns.name.root) != (a == [b""]) or (A == dns.name.empty) != (a == []) or (not A) != (len(a) == 0):
            ctx.fail("C06/value/constants", f"{a!r} vs dns.name.root / dns.name.empty", rep)
        ctx.count("api")
    elif k == "foreign-operand":
        a = unhexl(c["a"])
        A = dns.name.Name(a)
        other = c["other"]
        bad = []
        if A == other or not (A != other):
            bad.append("==")
        for opn, fn in (("<", lambda: A < other), ("<=", lambda: A <= other), (">", lambda: A > other), (">=", lambda: A >= other)):
            try:
                fn()
                bad.append(opn)
            except TypeError:
                pass
        if bad:
            ctx.fail("C06/richcmp/non-name-operand", f"comparison of a Name with {other!r} did not refuse: {bad}", rep)
        ctx.count("foreign-operand")
    else:
        raise ValueError(k)


def generate(ctx: Ctx, scale, rng):
    n = lambda q: max(1, int(q * scale))
    for _ in range(n(2500)):
        cl = cluster(rng, 5)
        for _ in range(4):
            a = rng.choice(cl)
            b = rng.choice(cl) if rng.chance(5, 6) else gen_labels(rng)
            if a == b and rng.chance(4, 5):
                b = variant(rng, a)
            c = {"kind": "pair", "a": hexl(a), "b": hexl(b), "route": rng.below(81)}
            ctx.case(("pair", tuple(a), tuple(b)), nontrivial=(a != b), sample=c)
            eval_case(ctx, c)
    for _ in range(n(1500)):
        bm = boundary_move(rng, gen_labels(rng, budget=rng.choice([30, 120, 255])))
        if bm is None:
            continue
        a, b = bm
        m = rng.below(4)
        if m == 0:
            b = [bytes(swap_octet(ch) for ch in l) for l in b]
        elif m == 1:
            a, b = b, a
        c = {"kind": "pair", "a": hexl(a), "b": hexl(b), "route": rng.below(81)}
        ctx.case(("pair", tuple(a), tuple(b)), sample=c)
        eval_case(ctx, c)
        ctx.count("pair.boundary-move." + ("same-count" if len(a) == len(b) else "other-count"))
    for _ in range(n(3000)):
        cl = cluster(rng, 6)
        a, b, cc = rng.choice(cl), rng.choice(cl), (rng.choice(cl) if rng.chance(5, 6) else gen_labels(rng))
        c = {"kind": "triple", "a": hexl(a), "b": hexl(b), "c": hexl(cc)}
        ctx.case(("triple", tuple(a), tuple(b), tuple(cc)), nontrivial=(a != b and b != cc), sample=c)
        eval_case(ctx, c)
    for _ in range(n(300)):
        names = cluster(rng, rng.range(2, 14)) + cluster(rng, rng.range(1, 6))
        names = rng.shuffle(names)
        c = {"kind": "sort", "names": [hexl(x) for x in names]}
        ctx.case(("sort", str(names)))
        eval_case(ctx, c)
    for _ in range(n(2)):
        names = []
        for _ in range(30):
            names += cluster(rng, 10)
        names = rng.shuffle(names)
        c = {"kind": "sort", "names": [hexl(x) for x in names]}
        ctx.case(("sort", str(len(names)), str(names[:3])))
        eval_case(ctx, c)
        cl = []
        for _ in range(25):
            cl += cluster(rng, 8)
        script = [["set", hexl(x), i] for i, x in enumerate(cl)]
        for _ in range(120):
            nm = rng.choice(cl)
            m = rng.below(4)
            script.append(["del", hexl(nm)] if m == 0 else ["get", hexl(variant(rng, nm) if rng.chance(1, 2) else nm)] if m <= 2
                          else ["set", hexl([bytes(swap_octet(ch) for ch in l) for l in nm]), rng.below(100)])
        script = [st for st in script if wf(unhexl(st[1]))]
        c = {"kind": "ndhist", "script": script}
        ctx.case(("ndhist-big", str(len(script)), str(script[:2])))
        eval_case(ctx, c)
    for _ in range(n(5000)):
        a, o, p = gen_succ_case(rng)
        for kind in ("succ", "pred"):
            c = {"kind": kind, "a": hexl(a), "o": hexl(o), "p": p}
            ctx.case((kind, tuple(a), tuple(o), p), sample=c)
            eval_case(ctx, c)
    for _ in range(n(2500)):
        o = gen_labels(rng, absolute=rng.chance(7, 8), budget=rng.choice([10, 40, 200]))
        if rng.chance(1, 40):
            o = []
        m = rng.below(6)
        if m <= 2:
            body = gen_labels(rng, absolute=False, budget=max(2, 255 - sum(len(x) + 1 for x in o) + rng.choice([0, 0, 0, 5])))
            a = body + (o if rng.chance(2, 3) else [bytes(swap_octet(ch) for ch in l) for l in o])
        elif m == 3:
            a = gen_labels(rng, absolute=False, budget=rng.choice([20, 255]))
        else:
            a = variant(rng, o)
        if not wf(a):
            continue
        c = {"kind": "relder", "a": hexl(a), "o": hexl(o)}
        ctx.case(("relder", tuple(a), tuple(o)), sample=c)
        eval_case(ctx, c)
    for _ in range(n(1200)):
        a = gen_labels(rng) if rng.chance(9, 10) else rng.choice([[], [b""], [b"a"], [b"A", b""]])
        c = {"kind": "parent", "a": hexl(a)}
        ctx.case(("parent", tuple(a)), sample=c)
        eval_case(ctx, c)
        d = rng.choice([0, 1, len(a), len(a) + 1, rng.below(len(a) + 2), -1 if rng.chance(1, 10) else 1])
        if d >= 0:
            c = {"kind": "split", "a": hexl(a), "d": d}
            ctx.case(("split", tuple(a), d), sample=c)
            eval_case(ctx, c)
    for _ in range(n(400)):
        cl = cluster(rng, rng.range(1, 8))
        if rng.chance(1, 2):
            cl.append([])
        q = variant(rng, rng.choice(cl)) if rng.chance(3, 4) else gen_labels(rng)
        dele = [hexl(rng.choice(cl))] if rng.chance(1, 3) else []
        c = {"kind": "namedict", "names": [hexl(x) for x in cl], "q": hexl(q), "delete": dele}
        ctx.case(("namedict", str(cl), tuple(q), str(dele)))
        eval_case(ctx, c)
    for _ in range(n(400)):
        cl = cluster(rng, rng.range(2, 7))
        if rng.chance(1, 2):
            cl.append([])
        script = []
        for _ in range(rng.range(3, 25)):
            m = rng.below(10)
            nm = rng.choice(cl)
            if rng.chance(1, 3):
                nm = [bytes(swap_octet(ch) for ch in l) for l in nm]
            if m <= 2:
                script.append(["set", hexl(nm), rng.below(100)])
            elif m <= 4:
                script.append(["del", hexl(nm)])
            elif m == 5:
                script.append(["has", hexl(nm)])
            elif m == 6:
                script.append(["item", hexl(nm)])
            else:
                q = nm if rng.chance(1, 3) else (variant(rng, nm) if rng.chance(2, 3) else [gen_label(rng, 5)] + nm)
                if wf(q):
                    script.append(["get", hexl(q)])
        c = {"kind": "ndhist", "script": script}
        ctx.case(("ndhist", json.dumps(script)), sample=c)
        eval_case(ctx, c)
    for _ in range(n(500)):
        o = gen_labels(rng, absolute=rng.chance(5, 6), budget=rng.choice([10, 40, 120]))
        m = rng.below(5)
        if m <= 1:
            a = gen_labels(rng, absolute=False, budget=max(2, 255 - sum(len(x) + 1 for x in o) + rng.choice([0, 0, 3]))) + o
        elif m == 2:
            a = gen_labels(rng, absolute=False, budget=rng.choice([20, 255]))
        elif m == 3:
            a = rng.choice([[], [b""], o])
        else:
            a = variant(rng, o)
        if not wf(a):
            continue
        c = {"kind": "api", "a": hexl(a), "o": hexl(o)}
        ctx.case(("api", tuple(a), tuple(o)), sample=c)
        eval_case(ctx, c)
    for _ in range(n(40)):
        a = gen_labels(rng)
        c = {"kind": "foreign-operand", "a": hexl(a), "other": rng.choice(["a.", 0, None, 1.5])}
        ctx.case(("foreign-operand", tuple(a), str(c["other"])))
        eval_case(ctx, c)


def run_corpus(ctx: Ctx):
    for p in sorted(glob.glob(os.path.join(VERIF, "corpus", "C06", "*.json"))):
        c = json.load(open(p))
        ctx.case(("corpus", p), sample=None)
        eval_case(ctx, c)
        ctx.count("corpus")


def run(ctx: Ctx):
    run_corpus(ctx)
    generate(ctx, 2 if ctx.tier == "quick" else 40, ctx.rng)


def search(ctx: Ctx):
    """failing-input search on the implementation: the disagreeing cases, then a fresh larger budget"""
    for m in ctx.mismatches[:50]:
        if m.case is not None:
            eval_case(ctx, m.case)
    generate(ctx, 4 if ctx.tier == "quick" else 40, ctx.rng.fork(7))


def replay(ctx: Ctx, obj: dict):
    eval_case(ctx, obj["case"])
    return [f.what for f in ctx.failures]


LEVEL = {
    "text": "Lean 4 theorems over an executable model of dns/name.py, for all label lists over all octet values and any "
            "relativity: fullcompare's order component decides exactly RFC 4034 section 6.1 (specified independently as core "
            "Lean's lexicographic order on reversed lists of lower-cased labels, relative before absolute); totality, "
            "antisymmetry, transitivity (strict and non-strict) on all pairs and triples; equality iff equal up to ASCII "
            "case; equal names hash equally; relation and nlabels equal an independent specification and agree with "
            "is_subdomain / is_superdomain / parent / split; relativize-derelativize restores every absolute name; "
            "successor sorts strictly after (or wraps) and predecessor strictly before, for absolute and relative names and "
            "both prefix_ok values.  The model is tied to the code by a differential correspondence check on every modelled "
            "function and a direct oracle (independent Python reference order) on pairs, triples, sorted() and NameDict.",
    "note": "Trusted: Lean kernel + propext/Classical.choice/Quot.sound; the statements in lean/Props/C06.lean; the "
            "correspondence harness and its generators; harness/extract.py.  Partial: successor/predecessor monotonicity "
            "for relative names (transport through derelativize/relativize) is tie-only.",
    "technique": "Lean 4 proof (order laws by reduction to List.Lex, induction over label lists, case analysis of the "
                 "successor/predecessor branches) + model-vs-implementation correspondence",
    "design_ref": "DESIGN.md §7 C06",
}

"""C04 — untrusted wire or text input only ever raises the library's own errors.

Tie = outcome-class correspondence: every entry point is run on arbitrary / mutated input; the outcome must
be a value, or an exception of the library's own hierarchy.  FOREIGN exception types or a hang are
violations with the input as replay, whatever the model says.  Where a Lean model exists (names, TTLs, the
message reader skeleton with continue_on_error bookkeeping) the outcome is also compared with the model.
"""
import json
import os
import signal

import dns.edns
import dns.exception
import dns.message
import dns.name
import dns.rdata
import dns.rdataclass
import dns.rdatatype
import dns.rrset
import dns.tokenizer
import dns.tsig
import dns.ttl
import dns.btreezone
import dns.versioned
import dns.wire
import dns.zone
import dns.zonefile

from harness.core import VERIF, Ctx, Stalled, enc_labels, hx

RULE = (
    "streams from one SplitMix64 state: (wire) valid messages built from 178 sample records of 63 types then mutated "
    "(bit flips, count/rdlen edits, pointer rewrites, truncation, junk), arbitrary octets, per-type RDATA (arbitrary and "
    "mutated-valid), EDNS option bodies, random dns.wire.Parser routines (library fragment and raw API) on short wires; (text) token soups and mutated valid text for names, TTLs, per-type RDATA, zone "
    "files, rrsets and textual messages; every parser option combination drawn at random. A case is non-trivial if "
    "its (entry point, options, input) key is new."
)
TRUSTED_BASE = [
    "classification of exception classes into families (DESIGN §6 'library's own errors')",
    "10 s alarm as the hang detector",
]
ASSUMPTIONS = [
    "model correspondence covers dns.name.from_wire/from_text, dns.ttl.from_text, dns.wire.Parser op programs and the _WireReader skeleton over a modelled subset of record types; all other entry points are covered by the direct outcome-class oracle only",
    "non-ASCII text input is outside the models (the oracle still exercises it in the malformed stream)",
]

WRAP_ZOO = ["none", "FormError", "BadPointer", "NameTooLong", "SyntaxError", "UnexpectedEnd", "BadEscape", "DNSException", "Timeout",
            "UnknownRdatatype", "ValueError", "KeyError", "IndexError", "struct.error", "UnicodeError", "AssertionError",
            "RecursionError", "MemoryError", "ZeroDivisionError", "TypeError", "AttributeError", "OverflowError", "StopIteration",
            "builtin SyntaxError", "Exception", "custom BaseException"]
MSG_WORDS = [
    "id", "flags", "edns", "eflags", "payload", "opcode", "rcode", "QR", "AA", "DO", "IN", "FLAG3", "FLAG15", "FLAG16",
    "FLAG99", "FLAG999999999996", "FLAG", "QUERY", "UPDATE", "NOTIFY", "NOERROR", "BADVERS", "15", "16", "-1", "255",
    "256", "65535", "65536", "4096", "4095", "99999999999", "0x10", "1", "0", ";QUESTION", ";ANSWER", ";ZONE", ";UPDATE",
    ";PREREQ", ";HEADER", ";AUTHORITY", ";ADDITIONAL", "example.", "A", "TXT", "SOA", "ANY", "NONE", "CH", "TYPE65535",
    "TYPE65536", "CLASS65536", "300", "-5", "4294967295", "4294967296", '"x"', "10.0.0.1", "\\", "(", ")", "OPT", "TSIG",
    "@", "", "\n", "\n", "\n",
]
SAMPLES = json.load(open(os.path.join(VERIF, "corpus", "C04", "samples.json")))


class Hang(BaseException):
    pass


def _alarm(signum, frame):
    raise Hang()


def classify(e: BaseException, zone_level=False) -> str:
    if isinstance(e, Hang):
        HANGS["n"] += 1
        return "HANG"
    if isinstance(e, dns.exception.FormError):
        return "FormError"
    if isinstance(e, dns.exception.SyntaxError):
        return "SyntaxError"
    if isinstance(e, dns.exception.DNSException):
        return "DNSOther:" + type(e).__name__
    if zone_level and isinstance(e, (ValueError, KeyError)) and not isinstance(e, UnicodeError):
        return "ZoneSemantic:" + type(e).__name__
    return "FOREIGN:" + type(e).__name__


HANGS = {"n": 0}


def guarded(fn, zone_level=False):
    """returns (outcome class, value, exception)"""
    signal.signal(signal.SIGALRM, _alarm)
    # once a few hangs were seen the budget per call is cut so that the run still ends in time
    signal.alarm(10 if HANGS["n"] < 3 else 2)
    try:
        v = fn()
        return "ok", v, None
    except BaseException as e:  # noqa
        if isinstance(e, (KeyboardInterrupt, SystemExit, Stalled)):
            raise
        return classify(e, zone_level), None, e
    finally:
        signal.alarm(0)


def report(ctx, entry, cls, rep, what):
    ctx.count(f"{entry.split('/')[0]}.{cls.split(':')[0]}")
    if cls.startswith("FOREIGN") or cls == "HANG":
        ctx.fail(f"C04/{entry}/{cls}", what, rep)
        return True
    return False


# -------------------------------------------------------------------------------------------------
# wire generators
# -------------------------------------------------------------------------------------------------
def build_big_message(rng):
    """raw wire of a response of a little over 16 KiB in which an owner name straddles offset 0x4000 (the end of
    what a compression pointer can address) and later owner names reuse its suffixes"""
    import struct as _st

    def nw(labels):
        return b"".join(bytes([len(l)]) + l for l in labels) + b"\0"

    def rr(owner, rdtype, rdata, ttl=300):
        return owner + _st.pack("!HHIH", rdtype, 1, ttl, len(rdata)) + rdata

    labels = [rng.choice([b"aaaa", b"bb", b"c", b"dddddddd", b"Ee"]) for _ in range(rng.choice([2, 3, 4, 6]))]
    L = len(nw(labels))
    start = 0x4000 - rng.below(L + 2) + 1          # anywhere from wholly below the limit to starting on it
    nrec = 2 + rng.below(3)
    wire = _st.pack("!HHHHHH", rng.below(65536), 0x8400, 1, 1 + nrec, 0, 0)
    wire += nw([b"a"]) + _st.pack("!HH", 16, 1)
    fill = start - (len(wire) + 2 + 10)
    txt = b""
    while fill > 256:
        txt += b"\xff" + b"p" * 255
        fill -= 256
    txt += bytes([fill - 1]) + b"q" * (fill - 1)
    wire += rr(b"\xc0\x0c", 16, txt)
    wire += rr(nw(labels), 1, bytes([192, 0, 2, 1]))
    for k in range(nrec - 1):
        suffix = labels[rng.below(len(labels)):]
        wire += rr(nw([b"x%d" % k] + suffix), 1, bytes([192, 0, 2, 2 + k]))
    return wire


def build_message(rng):
    m = dns.message.make_query(rng.choice(["example.", "www.example.", "a.b.example."]), rng.choice(["A", "SOA", "TXT", "ANY"]))
    m.id = rng.below(65536)
    m.flags = rng.below(65536) & 0x87FF | (rng.choice([0, 0, 0, 1, 2, 4]) << 11)
    if rng.chance(1, 3):
        m.use_edns(0, rng.choice([0, 0x8000]), rng.choice([512, 1232, 4096]), options=[dns.edns.GenericOption(rng.choice([3, 10, 12, 65001]), rng.bytes(rng.below(12)))] if rng.chance(1, 2) else [])
    for sec in (m.answer, m.authority, m.additional):
        for _ in range(rng.choice([0, 0, 1, 2, 3])):
            s = rng.choice(SAMPLES)
            try:
                rd = dns.rdata.from_wire(s["rdclass"], s["rdtype"], bytes.fromhex(s["wire"]), 0, len(s["wire"]) // 2)
                rrs = dns.rrset.from_rdata(rng.choice([s["owner"], "x.example.", "EXAMPLE."]), rng.choice([0, 300, 2**31 - 1]), rd)
                sec.append(rrs)
            except Exception:
                pass
    try:
        if rng.chance(1, 4):
            alg = rng.choice(["hmac-sha256", "hmac-sha1", "hmac-sha512-256", "hmac-md5.sig-alg.reg.int"])
            m.use_tsig(dns.tsig.Key("key.example.", b"secret-secret-secret", alg), fudge=rng.choice([0, 300, 65535]))
            w = bytearray(m.to_wire())
            if rng.chance(1, 2):
                # an algorithm name the library does not implement (same length, so the record stays well formed)
                i = w.find(b"hmac-")
                if i > 0:
                    w[i + 5] = ord("x")
            return bytes(w)
        return m.to_wire()
    except Exception:
        return dns.message.make_query("example.", "A").to_wire()


def mutate(rng, b: bytes) -> bytes:
    b = bytearray(b)
    for _ in range(rng.choice([1, 1, 1, 2, 3])):
        if not b:
            break
        k = rng.below(9)
        if k == 0:
            i = rng.below(len(b)); b[i] ^= 1 << rng.below(8)
        elif k == 1:
            i = rng.below(len(b)); b[i] = rng.choice([0, 1, 0x3F, 0x40, 0x7F, 0x80, 0xBF, 0xC0, 0xFF, rng.below(256)])
        elif k == 2 and len(b) >= 12:
            i = rng.choice([4, 5, 6, 7, 8, 9, 10, 11]); b[i] = rng.choice([0, 1, 2, 0xFF, rng.below(256)])
        elif k == 3:
            del b[rng.below(len(b)):]
        elif k == 4:
            b += rng.bytes(rng.range(1, 6))
        elif k == 5 and len(b) > 2:
            i = rng.below(len(b) - 1); t = rng.below(len(b) + 2); b[i] = 0xC0 | ((t >> 8) & 0x3F); b[i + 1] = t & 0xFF
        elif k == 6 and len(b) > 2:
            i = rng.below(len(b) - 1); del b[i:i + rng.range(1, 3)]
        elif k == 7:
            i = rng.below(len(b) + 1); b[i:i] = rng.bytes(rng.range(1, 3))
        elif k == 8 and len(b) > 14:
            i = rng.range(12, len(b) - 2); b[i] = rng.choice([0, 0, 0xFF]); b[i + 1] = rng.choice([0, 1, 4, 0xFF, rng.below(256)])
    return bytes(b)


SUPPORTED = [(1, 1), (1, 28), (1, 2), (1, 5), (1, 12), (1, 16), (1, 65280), (3, 65300), (1, 65534), (3, 2), (255, 16)]


def build_model_message(rng):
    """a message restricted to the record types whose bodies the reader model covers"""
    out = bytearray()
    qd, an, au, ad = rng.choice([0, 1, 1, 1, 2]), rng.below(4), rng.below(3), rng.below(3)
    flags = rng.below(65536) & 0x87FF | (rng.choice([0, 0, 0, 1, 2, 4]) << 11)
    out += bytes([rng.below(256), rng.below(256), flags >> 8, flags & 0xFF, 0, qd, 0, an, 0, au, 0, ad])
    names = []

    def put_name():
        m = rng.below(4)
        if m == 0 and names:
            t = rng.choice(names)
            out.extend([0xC0 | (t >> 8), t & 0xFF])
            return
        names.append(len(out))
        for _ in range(rng.below(3) + (1 if m == 1 else 0)):
            l = rng.bytes(rng.choice([1, 2, 3, 10, 63]), [0x61, 0x62, 0x41, 0x2E, 0x00, 0xFF])
            out.append(len(l)); out.extend(l)
        if m == 2 and names and rng.chance(1, 2):
            t = rng.choice(names)
            out.extend([0xC0 | (t >> 8), t & 0xFF])
        else:
            out.append(0)

    for _ in range(qd):
        put_name()
        out += bytes([0, rng.choice([1, 2, 16, 255]), 0, rng.choice([1, 3, 255])])
    for _ in range(an + au + ad):
        put_name()
        rdclass, rdtype = rng.choice(SUPPORTED)
        out += bytes([rdtype >> 8, rdtype & 0xFF, rdclass >> 8, rdclass & 0xFF])
        ttl = rng.choice([0, 300, 2**31, 2**32 - 1])
        out += ttl.to_bytes(4, "big")
        body = bytearray()
        at = len(out) + 2
        if rdtype == 1:
            body += rng.bytes(rng.choice([4, 4, 4, 3, 5, 0]))
        elif rdtype == 28:
            body += rng.bytes(rng.choice([16, 16, 15, 17, 0]))
        elif rdtype in (2, 5, 12):
            save = out
            tmp = bytearray()
            for _ in range(rng.below(3)):
                l = rng.bytes(rng.choice([1, 3, 63]), [0x61, 0x41, 0x62])
                tmp.append(len(l)); tmp += l
            if names and rng.chance(1, 2):
                t = rng.choice(names + [at])
                tmp += bytes([0xC0 | (t >> 8), t & 0xFF])
            else:
                tmp.append(0)
            if rng.chance(1, 6):
                tmp += rng.bytes(1)
            body += tmp
        elif rdtype == 16:
            for _ in range(rng.choice([0, 1, 1, 2, 3])):
                l = rng.bytes(rng.choice([0, 1, 5, 255]))
                body.append(len(l)); body += l
            if rng.chance(1, 6) and body:
                body = body[:-1]
        else:
            body += rng.bytes(rng.below(9))
        rdlen = len(body)
        if rng.chance(1, 8):
            rdlen = max(0, rdlen + rng.choice([-1, 1, 2, 200]))
        out += bytes([rdlen >> 8, rdlen & 0xFF]) + body
    if rng.chance(1, 8):
        out += rng.bytes(rng.range(1, 3))
    b = bytes(out)
    if rng.chance(1, 4):
        b = mutate(rng, b)
    return b


OPTION_KEYS = ["one_rr_per_rrset", "ignore_trailing", "raise_on_truncation", "continue_on_error", "question_only", "xfr", "multi"]


# -------------------------------------------------------------------------------------------------
# text generators
# -------------------------------------------------------------------------------------------------
TOK = ["a", "example.", "www", "@", "$ORIGIN", "$TTL", "$INCLUDE", "$GENERATE", "1-3", "1-3/2", "${0,2,d}", "${-1,3,x}", "${5,0,n}", "a$", "$", "IN", "CH", "ANY", "NONE",
       "A", "NS", "MX", "TXT", "SOA", "CNAME", "AAAA", "RRSIG", "NSEC", "TYPE65280", "CLASS32", "TYPE0", "\\#", "0", "1", "4", "300", "1w2d", "1h",
       "99999999999", "-1", "1.2.3.4", "::1", "1.2.3", "ff::fg", "\"", "\"\"", "\"a b\"", "\"a", "(", ")", "(", ")", ";c", ";", "\\", "\\.", "\\000", "\\256",
       "\\25", "\\@", "\n", "\n", "\n", " ", "\t", "\r\n", "abcd", "ABCDEF12", "00", "zz", "=", "==", "10", "20240101000000", "20240101", "é", "\x00",
       "\x7f", "alpn=h2", "key1", "no-default-alpn", "port=53", "ipv4hint=1.2.3.4", "mandatory=alpn", "ech=AAAA", "N", "S", "E", "W", "10m", "1:1.2.3.0/24", "!2:ff::/8"]


def soup(rng, n=None):
    n = n if n is not None else rng.choice([0, 1, 2, 3, 4, 6, 9, 14])
    return "".join(rng.choice(TOK) + rng.choice(["", " ", " ", " "]) for _ in range(n))


def mutate_text(rng, t: str) -> str:
    for _ in range(rng.choice([1, 1, 2, 3])):
        k = rng.below(6)
        if not t:
            return soup(rng, 2)
        i = rng.below(len(t))
        if k == 0:
            t = t[:i] + rng.choice(TOK) + t[i:]
        elif k == 1:
            t = t[:i] + t[i + rng.range(1, 3):]
        elif k == 2:
            t = t[:i] + rng.choice(["\"", "\\", "(", ")", ";", " ", "\n", "0", "9", "-", ".", "\x00", "ÿ", "\r", "\t", "\x7f", "\x0b", "\\010", "\\000", "\\255", "\\256", "$", "@"]) + t[i + 1:]
        elif k == 3:
            parts = t.split(" ")
            j = rng.below(len(parts)); parts[j] = rng.choice(TOK); t = " ".join(parts)
        elif k == 4:
            parts = t.split(" ")
            j = rng.below(len(parts)); del parts[j]; t = " ".join(parts)
        elif k == 5:
            t = t[:i]
    return t


def render_back(ctx, entry, v, rep, what, wire=True):
    """every value returned can be rendered to text and wire again"""
    c1, _, e1 = guarded(lambda: v.to_text())
    if report(ctx, entry + ".to_text", c1, rep, f"{what}: to_text of the parsed value raised {e1!r}"):
        return
    # the documented text styles are part of "can be rendered to text"
    for kw in ({"truncate_crypto": True}, {"want_generic": True}, {"txt_is_utf8": True}, {"base64_chunk_size": 0, "hex_chunk_size": 0}):
        try:
            cs, _, es = guarded(lambda: v.to_text(**kw))
        except TypeError:
            break
        if cs == "FOREIGN:TypeError" and "unexpected keyword" in str(es):
            break  # this kind of value has no styled to_text
        if report(ctx, entry + ".to_text.styled", cs, rep, f"{what}: to_text({kw}) of the parsed value raised {es!r}"):
            return
    if wire:
        c2, _, e2 = guarded(lambda: v.to_wire())
        report(ctx, entry + ".to_wire", c2, rep, f"{what}: to_wire of the parsed value raised {e2!r}")


# -------------------------------------------------------------------------------------------------
# dns.wire.Parser op programs (model: lean/Model/WireParser.lean)
# -------------------------------------------------------------------------------------------------
def prog_tokens(prog):
    out = []
    for cmd in prog:
        op = cmd[0]
        if op in ("gb", "gc", "sk", "sf"):
            out += [op, str(cmd[1])]
        elif op in ("gr", "gn"):
            out.append(op)
        elif op == "rs":
            out += ["rs", str(cmd[1]), "("] + prog_tokens(cmd[2]) + [")"]
        elif op in ("rf", "tr"):
            out += [op, "("] + prog_tokens(cmd[1]) + [")"]
    return out


def prog_run(p, prog, outs):
    """interpret a program on the real dns.wire.Parser"""
    for cmd in prog:
        op = cmd[0]
        if op == "gb":
            outs.append("b" + hx(p.get_bytes(cmd[1])))
        elif op == "gc":
            outs.append("b" + hx(p.get_counted_bytes(cmd[1])))
        elif op == "gr":
            outs.append("b" + hx(p.get_remaining()))
        elif op == "sk":
            p.seek(cmd[1])
        elif op == "sf":
            p.seek(p.current + cmd[1])
        elif op == "gn":
            outs.append("n" + enc_labels(p.get_name().labels))
        elif op == "rs":
            with p.restrict_to(cmd[1]):
                prog_run(p, cmd[2], outs)
        elif op == "rf":
            with p.restore_furthest():
                prog_run(p, cmd[1], outs)
        elif op == "tr":
            try:
                prog_run(p, cmd[1], outs)
            except dns.exception.FormError:
                pass


def gen_prog(rng, depth, lib, wl):
    prog = []
    for _ in range(rng.choice([0, 1, 1, 2, 2, 3, 4])):
        m = rng.below(12)
        small = rng.choice([0, 0, 1, 1, 2, 2, 3, 4, 6, 10, wl, wl + 1])
        if m <= 2:
            prog.append(("gb", small))
        elif m == 3:
            prog.append(("gc", rng.choice([1, 1, 1, 2, 0])))
        elif m == 4:
            prog.append(("gr",))
        elif m == 5:
            prog.append(("gn",))
        elif m == 6:
            prog.append(("sf", rng.choice([0, 1, 2, 3, 5, wl])))
        elif m == 7 and not lib:
            prog.append(("sk", rng.choice([-1, 0, 0, 1, 2, 3, 5, wl - 1, wl, wl + 1])))
        elif m == 8 and not lib and depth > 0:
            prog.append(("rf", gen_prog(rng, depth - 1, lib, wl)))
        elif m in (9, 10) and depth > 0:
            prog.append(("rs", small, gen_prog(rng, depth - 1, lib, wl)))
        elif m == 11 and depth > 0:
            prog.append(("tr", gen_prog(rng, depth - 1, lib, wl)))
    return prog


def gen_parser_wire(rng):
    """short wires with plausible names, length octets and pointers so that gc/gn succeed often"""
    parts = []
    for _ in range(rng.choice([1, 2, 3, 4])):
        m = rng.below(6)
        if m == 0:
            parts.append(b"\x01a\x02bc\x00")
        elif m == 1:
            parts.append(bytes([0xC0, rng.below(12)]))
        elif m == 2:
            k = rng.below(5)
            parts.append(bytes([k]) + rng.bytes(k))
        elif m == 3:
            parts.append(b"\x00")
        else:
            parts.append(rng.bytes(rng.below(6)))
    return b"".join(parts)[:24]


STYLE_KW = ({"truncate_crypto": True}, {"want_generic": True}, {"txt_is_utf8": True}, {"base64_chunk_size": 0, "hex_chunk_size": 0},
            {"base64_chunk_size": 7, "hex_chunk_size": 3, "truncate_crypto": True})


def styled_text(ctx, entry, v, rep, what, **base):
    """the documented text styles are part of 'can be rendered to text again'"""
    # two of the styles per value (rotating), all of them for the directed crypto cases
    k0 = ctx.evaluations % len(STYLE_KW)
    kws = STYLE_KW if rep.get("case", {}).get("all_styles") else (STYLE_KW[k0], STYLE_KW[(k0 + 2) % len(STYLE_KW)])
    for kw in kws:
        cs, _, es = guarded(lambda: v.to_text(**base, **kw))
        if cs == "FOREIGN:TypeError" and "unexpected keyword" in str(es):
            return
        if report(ctx, entry + ".styled", cs, rep, f"{what}: to_text({kw}) raised {es!r}"):
            return


def eval_case(ctx: Ctx, c: dict):
    k = c["kind"]
    rep = {"kind": k, "case": c}
    if k == "msg":
        wire = bytes.fromhex(c["wire"])
        opts = c["opts"]
        kw = dict(opts)
        if kw.pop("origin", False):
            kw["origin"] = dns.name.from_text("example.")
        kr = kw.pop("keyring", None)
        if kr == "bytes":
            kw["keyring"] = {dns.name.from_text("key.example."): b"secret-secret-secret"}
        elif kr == "key":
            kw["keyring"] = dns.tsig.Key("key.example.", b"secret-secret-secret", "hmac-sha256")
        elif kr == "callable":
            kw["keyring"] = lambda message, name: None
        elif kr == "false":
            kw["keyring"] = False  # documented: accept the TSIG without validating it
        cls, m, e = guarded(lambda: dns.message.from_wire(wire, **kw))
        if report(ctx, "message.from_wire", cls, rep, f"from_wire({wire.hex()}, {opts}) raised {e!r}"):
            return
        if cls.startswith("DNSOther"):
            ctx.count("message.from_wire.other:" + cls.split(":")[1])
        if m is not None:
            if opts.get("continue_on_error"):
                for err in m.errors:
                    ec = classify(err.exception)
                    if ec.startswith("FOREIGN"):
                        ctx.fail(f"C04/message.from_wire/continue-recorded-{ec}", f"continue_on_error recorded a foreign exception {err.exception!r} for {wire.hex()}", rep)
                    if not (0 <= err.offset <= len(wire)):
                        ctx.fail("C04/message.from_wire/continue-offset", f"recorded offset {err.offset} outside the message", rep)
            render_back(ctx, "message", m, rep, f"message parsed from {wire.hex()[:400]}")
            # "rendered to wire again" under the rendering options too: every size limit and truncation preference
            # ends in a message or in the library's own TooBig, whatever reserves (OPT, TSIG) the message carries
            limits = c.get("limits") or [[512, 0], [len(wire), 1]] if ctx.evaluations % 2 == 0 else [[0, 1], [max(12, len(wire) - 1), 0]]
            for ms, pt in limits:
                cr, _, er = guarded(lambda: m.to_wire(max_size=ms, prefer_truncation=bool(pt)))
                if report(ctx, "message.to_wire.limited", cr, rep, f"to_wire(max_size={ms}, prefer_truncation={bool(pt)}) of the message parsed from {wire.hex()[:400]} raised {er!r}"):
                    break
    elif k == "read":
        # model correspondence of the reader skeleton
        wire = bytes.fromhex(c["wire"])
        cont, it, qo = c["cont"], c["it"], c["qo"]
        cls, m, e = guarded(lambda: dns.message.from_wire(wire, one_rr_per_rrset=True, continue_on_error=bool(cont), ignore_trailing=bool(it), question_only=bool(qo)))
        if report(ctx, "message.from_wire", cls, rep, f"from_wire({wire.hex()}) raised {e!r}"):
            return
        if m is not None:
            counts = [len(m.question), len(m.answer), len(m.authority), len(m.additional)]
            errs = ";".join(f"{type(x.exception).__name__}@{x.offset}" for x in m.errors) if cont else ""
            impl = f"msg counts={','.join(map(str, counts))} errs={errs or '-'}"
            special = m.opt is not None or m.tsig is not None or m.opcode() == 5
        else:
            impl = f"exc {type(e).__name__}"
            special = False
        ctx.extra.setdefault("read_pending", []).append((f"c04.read {hx(wire)} {cont} {it} {qo}", impl, special, c))
        # direct oracle: strict failure <=> continue mode records at least one error; prefix agreement
        if cont:
            cls2, m2, e2 = guarded(lambda: dns.message.from_wire(wire, one_rr_per_rrset=True, ignore_trailing=bool(it), question_only=bool(qo)))
            if m is not None and (m2 is None) != bool(m.errors):
                ctx.fail("C04/message.from_wire/continue-vs-strict", f"strict outcome {cls2} but continue_on_error recorded {len(m.errors)} errors for {wire.hex()}", rep)
            if m is None and cls != "FormError:ShortHeader" and not isinstance(e, dns.message.ShortHeader):
                ctx.fail("C04/message.from_wire/continue-raised", f"continue_on_error raised {e!r} after the header for {wire.hex()}", rep)
    elif k == "name.wire":
        wire = bytes.fromhex(c["wire"])
        cls, v, e = guarded(lambda: dns.name.from_wire(wire, c["off"]))
        report(ctx, "name.from_wire", cls, rep, f"name.from_wire({wire.hex()},{c['off']}) raised {e!r}")
        ctx.corr(f"n.fromwire {hx(wire)} {c['off']}", (f"ok {enc_labels(v[0].labels)} {v[1]}" if v else f"err {type(e).__name__}"), c)
    elif k == "rdata.wire":
        wire = bytes.fromhex(c["wire"])
        origin = dns.name.from_text("example.") if c.get("origin") else None
        cls, v, e = guarded(lambda: dns.rdata.from_wire(c["rdclass"], c["rdtype"], wire, 0, len(wire), origin))
        if report(ctx, f"rdata.from_wire/type{c['rdtype']}", cls, rep, f"rdata.from_wire({c['rdclass']},{c['rdtype']},{wire.hex()}) raised {e!r}"):
            return
        ctx.count(f"rdata.wire.type{c['rdtype']}.{cls.split(':')[0]}")
        if v is not None:
            c1, _, e1 = guarded(lambda: v.to_text(origin=origin, relativize=origin is not None))
            report(ctx, f"rdata.to_text/type{c['rdtype']}", c1, rep, f"to_text of rdata parsed from wire type {c['rdtype']} {wire.hex()} raised {e1!r}")
            styled_text(ctx, f"rdata.to_text/type{c['rdtype']}", v, rep, f"rdata parsed from wire type {c['rdtype']} {wire.hex()}", origin=origin, relativize=origin is not None)
            c2, _, e2 = guarded(lambda: v.to_wire(origin=origin))
            report(ctx, f"rdata.to_wire/type{c['rdtype']}", c2, rep, f"to_wire of rdata parsed from wire type {c['rdtype']} {wire.hex()} raised {e2!r}")
    elif k == "edns.wire":
        wire = bytes.fromhex(c["wire"])
        cls, v, e = guarded(lambda: dns.edns.option_from_wire(c["otype"], wire, 0, len(wire)))
        if report(ctx, f"edns.option_from_wire/otype{c['otype']}", cls, rep, f"option_from_wire({c['otype']},{wire.hex()}) raised {e!r}"):
            return
        if v is not None:
            c1, _, e1 = guarded(lambda: v.to_text())
            report(ctx, f"edns.to_text/otype{c['otype']}", c1, rep, f"to_text of option {c['otype']} {wire.hex()} raised {e1!r}")
            c2, _, e2 = guarded(lambda: v.to_wire())
            report(ctx, f"edns.to_wire/otype{c['otype']}", c2, rep, f"to_wire of option {c['otype']} {wire.hex()} raised {e2!r}")
    elif k == "name.text":
        t = c["text"]
        origin = {"none": None, "root": dns.name.root, "ex": dns.name.from_text("example.")}[c["origin"]]
        cls, v, e = guarded(lambda: dns.name.from_text(t, origin))
        report(ctx, "name.from_text", cls, rep, f"name.from_text({t!r}) raised {e!r}")
        if all(ord(ch) < 128 for ch in t) and t != "":
            ol = {"none": "none", "root": "-", "ex": "6578616d706c65,-"}[c["origin"]]
            ctx.corr(f"n.fromtext {hx(t.encode('ascii'))} {ol}", (f"ok {enc_labels(v.labels)}" if v is not None else f"err {type(e).__name__}"), c)
        if v is not None:
            render_back(ctx, "name", v, rep, f"name parsed from {t!r}", wire=v.is_absolute())
    elif k == "ttl":
        t = c["text"]
        cls, v, e = guarded(lambda: dns.ttl.from_text(t))
        report(ctx, "ttl.from_text", cls, rep, f"ttl.from_text({t!r}) raised {e!r}")
        if v is not None and not (isinstance(v, int) and 0 <= v <= 0xFFFFFFFF):
            # "every value returned can be rendered to text and wire again": a TTL is a 32-bit field
            ctx.fail("C04/ttl.from_text/out-of-range-value", f"ttl.from_text({t[:80]!r}) returned a value outside 0..2**32-1 ({v.bit_length() if isinstance(v, int) else type(v).__name__} bits)", rep)
        if all(ord(ch) < 128 for ch in t):
            vs = None if v is None else (str(v) if isinstance(v, int) and v.bit_length() <= 64 else "huge")
            ctx.corr(f"c04.ttl {hx(t.encode('ascii'))}", (f"ok {vs}" if v is not None else f"err {type(e).__name__}"), c)
    elif k == "rdata.text":
        t = c["text"]
        origin = dns.name.from_text("example.") if c.get("origin") else None
        tkw = {}
        if c.get("rt") is not None:
            tkw["relativize_to"] = dns.name.from_text(c["rt"]) if c["rt"] != "@" else dns.name.empty
        if c.get("idna") == "2003":
            tkw["idna_codec"] = dns.name.IDNA_2003
        elif c.get("idna") == "2008":
            tkw["idna_codec"] = dns.name.IDNA_2008
        cls, v, e = guarded(lambda: dns.rdata.from_text(c["rdclass"], c["rdtype"], t, origin, relativize=bool(c.get("relativize")), **tkw))
        if report(ctx, f"rdata.from_text/type{c['rdtype']}", cls, rep, f"rdata.from_text({c['rdclass']},{c['rdtype']},{t!r}) raised {e!r}"):
            return
        ctx.count(f"rdata.text.type{c['rdtype']}.{cls.split(':')[0]}")
        if v is not None:
            c1, _, e1 = guarded(lambda: v.to_text(origin=origin, relativize=origin is not None))
            report(ctx, f"rdata.to_text/type{c['rdtype']}", c1, rep, f"to_text of rdata parsed from text type {c['rdtype']} {t!r} raised {e1!r}")
            styled_text(ctx, f"rdata.to_text/type{c['rdtype']}", v, rep, f"rdata parsed from text type {c['rdtype']} {t!r}", origin=origin, relativize=origin is not None)
            c2, _, e2 = guarded(lambda: v.to_wire(origin=origin or dns.name.root))
            report(ctx, f"rdata.to_wire/type{c['rdtype']}", c2, rep, f"to_wire of rdata parsed from text type {c['rdtype']} {t!r} raised {e2!r}")
    elif k == "zone.text":
        t = c["text"]
        kw = {"origin": "example." if c.get("origin") else None, "relativize": bool(c.get("relativize")), "check_origin": bool(c.get("check_origin")), "allow_include": False}
        if c.get("filename"):
            kw["filename"] = c["filename"]
        zo = c.get("zopts") or {}
        if zo.get("factory") == "versioned":
            kw["zone_factory"] = dns.versioned.Zone
        elif zo.get("factory") == "btree":
            kw["zone_factory"] = dns.btreezone.Zone
        if zo.get("rdclass"):
            kw["rdclass"] = zo["rdclass"]
        if "directives" in zo:
            kw["allow_directives"] = zo["directives"]
        if zo.get("idna") == "2003":
            kw["idna_codec"] = dns.name.IDNA_2003
        elif zo.get("idna") == "2008":
            kw["idna_codec"] = dns.name.IDNA_2008
        cls, z, e = guarded(lambda: dns.zone.from_text(t, **kw), zone_level=True)
        entry = "zone.from_text"
        if cls == "HANG" or cls == "FOREIGN:MemoryError":
            # narrow trigger classes of the two recorded $GENERATE findings (anything else keeps the bare signature)
            import re
            for mm in re.finditer(r"\$GENERATE\s+(\d+)-(\d+)", t):
                if int(mm.group(2)) - int(mm.group(1)) >= 10**6:
                    entry = "zone.from_text/generate-huge-range"
            for mm in re.finditer(r"\$\{[-+]?\d+,(\d+)", t):
                if int(mm.group(1)) >= 10**6 and "$GENERATE" in t:
                    entry = "zone.from_text/generate-huge-width"
        if report(ctx, entry, cls, rep, f"zone.from_text({t[:300]!r}, {kw}) raised {e!r}"):
            return
        if cls == "SyntaxError":
            # "zone files adding file and line"
            import re
            if not re.match(r"^[^:\n]+:\d+: ", str(e)):
                ctx.fail("C04/zone.from_text/syntax-error-without-file-and-line", f"zone.from_text({t!r}) raised a syntax error without file:line: {e!r}", rep)
            else:
                ctx.count("zone.from_text.syntax-with-file-line")
                if c.get("badline") is not None:
                    # exactly one bad single-line record among valid single-line records: that line is reported
                    # (an error noticed only when the end of the line has been consumed carries the next line's
                    # number: the tokenizer has already counted the newline; both are accepted)
                    fn = c.get('filename') or '<string>'
                    if not (str(e).startswith(f"{fn}:{c['badline']}: ") or str(e).startswith(f"{fn}:{c['badline'] + 1}: ")):
                        ctx.fail("C04/zone.from_text/wrong-file-or-line", f"zone.from_text({t!r}): the only bad line is {c['badline']}, reported {str(e)[:60]!r}", rep)
                    else:
                        ctx.count("zone.from_text.line-number-checked")
        if z is not None:
            c1, _, e1 = guarded(lambda: z.to_text(), zone_level=True)
            report(ctx, "zone.to_text", c1, rep, f"to_text of zone parsed from {t!r} raised {e1!r}")
            if ctx.evaluations % 3 == 0:
                for zkw in ({"sorted": False, "relativize": False}, {"want_comments": True, "want_origin": True}, {"nl": "\r\n"}):
                    cz, _, ez = guarded(lambda: z.to_text(**zkw), zone_level=True)
                    if report(ctx, "zone.to_text.styled", cz, rep, f"to_text({zkw}) of zone parsed from {t[:300]!r} raised {ez!r}"):
                        break
    elif k == "rrsets.text":
        t = c["text"]
        rkw = dict(origin="example." if c.get("origin") else None, relativize=bool(c.get("relativize")), name=c.get("name"), rdclass=c.get("rdclass", "IN"), default_ttl=c.get("default_ttl"))
        for k_ in ("ttl", "rdtype", "default_rdclass"):
            if c.get(k_) is not None:
                rkw[k_] = c[k_]
        if c.get("rdclass_none"):
            rkw["rdclass"] = None
        cls, v, e = guarded(lambda: dns.zonefile.read_rrsets(t, **rkw), zone_level=True)
        report(ctx, "zonefile.read_rrsets", cls, rep, f"read_rrsets({t!r}) raised {e!r}")
        if v:
            for rrs in v[:4]:
                render_back(ctx, "rrset", rrs, rep, f"rrset parsed from {t!r}", wire=False)
    elif k == "wrap":
        # dns.exception.ExceptionWrapper with a zoo of exception classes
        import struct as _struct
        zoo = {
            "none": None, "FormError": dns.exception.FormError, "BadPointer": dns.name.BadPointer, "NameTooLong": dns.name.NameTooLong,
            "SyntaxError": dns.exception.SyntaxError, "UnexpectedEnd": dns.exception.UnexpectedEnd, "BadEscape": dns.name.BadEscape,
            "DNSException": dns.exception.DNSException, "Timeout": dns.exception.Timeout, "UnknownRdatatype": dns.rdatatype.UnknownRdatatype,
            "ValueError": ValueError, "KeyError": KeyError, "IndexError": IndexError, "struct.error": _struct.error,
            "UnicodeError": UnicodeError, "AssertionError": AssertionError, "RecursionError": RecursionError,
            "MemoryError": MemoryError, "ZeroDivisionError": ZeroDivisionError, "TypeError": TypeError,
            "AttributeError": AttributeError, "OverflowError": OverflowError, "StopIteration": StopIteration,
            "builtin SyntaxError": SyntaxError, "Exception": Exception, "custom BaseException": Hang,
        }
        fam = {"F": dns.exception.FormError, "S": dns.exception.SyntaxError}[c["family"]]
        X = zoo[c["exc"]]
        kind = lambda t: "none" if t is None else ("F" if issubclass(t, dns.exception.FormError) else ("S" if issubclass(t, dns.exception.SyntaxError) else "O"))
        escaped = None
        try:
            with dns.exception.ExceptionWrapper(fam):
                if X is not None:
                    raise X("boom")
        except BaseException as e:  # noqa
            escaped = e
        impl = kind(None if escaped is None else type(escaped))
        ctx.corr(f"c04.wrap {c['family']} {kind(X)}", impl, c)
        ctx.count("wrap." + c["family"] + "." + impl)
        if escaped is not None and not isinstance(escaped, fam):
            ctx.fail(f"C04/ExceptionWrapper/{c['family']}/lets-through:{type(escaped).__name__}",
                     f"ExceptionWrapper({fam.__name__}) let {type(escaped).__name__} escape", rep)
        if escaped is not None and X is not None and issubclass(X, fam) and type(escaped) is not X:
            ctx.fail(f"C04/ExceptionWrapper/{c['family']}/rewraps-own:{X.__name__}",
                     f"ExceptionWrapper({fam.__name__}) turned {X.__name__} into {type(escaped).__name__}", rep)
    elif k == "parser":
        w = bytes.fromhex(c["wire"])
        prog = c["prog"]
        toks = " ".join(prog_tokens(prog))
        outs = []
        par = None

        def go():
            nonlocal par
            par = dns.wire.Parser(w, c["cur"])
            prog_run(par, prog, outs)

        cls, _, e = guarded(go)
        if par is None:
            impl = "ctor " + cls
        else:
            o = "ok" if cls == "ok" else ("FormError" if cls == "FormError" else cls.replace("FOREIGN:", ""))
            impl = f"{o} cur={par.current} end={par.end} fur={par.furthest} outs={';'.join(outs)}"
        ctx.corr(f"c04.parser {hx(w)} {c['cur']} {toks}".rstrip(), impl, c)
        ctx.count("parser." + ("lib." if c.get("lib") else "raw.") + impl.split(" ")[0])
        # direct oracle: in the fragment of the API the library uses, only FormError; in every program, no
        # octets from beyond the wire and `end` restored
        if c.get("lib") and cls not in ("ok", "FormError"):
            ctx.fail(f"C04/wire.Parser/lib-fragment/{cls}", f"Parser routine {toks!r} on {w.hex()} raised {e!r}", rep)
        if par is not None and par.end != len(w):
            ctx.fail("C04/wire.Parser/end-not-restored", f"Parser routine {toks!r} on {w.hex()} left end={par.end}", rep)
        if cls == "HANG" or (cls.startswith("FOREIGN") and cls != "FOREIGN:AssertionError"):
            ctx.fail(f"C04/wire.Parser/{cls}", f"Parser routine {toks!r} on {w.hex()} raised {e!r}", rep)
    elif k == "msg.text":
        t = c["text"]
        # textual messages are not in the statement's list of text inputs (names, records, TTLs, zone files),
        # so the "syntax-error family only" clause is not applied to them (UnknownHeaderField, UnknownOpcode,
        # ... are DNSException but not SyntaxError); dns.message.from_text is however one of the property's
        # observation points, and the clauses quantified over every entry point are applied: no exception
        # from outside the library's hierarchy, no hang, and a returned value renders to text and wire again.
        kw = {}
        if c.get("orr"):
            kw["one_rr_per_rrset"] = True
        if c.get("origin"):
            kw["origin"] = dns.name.from_text("example.")
            kw["relativize"] = bool(c.get("relativize"))
        cls, m, e = guarded(lambda: dns.message.from_text(t, **kw))
        if report(ctx, "message.from_text", cls, rep, f"message.from_text({t[:300]!r}, {kw}) raised {e!r}"):
            return
        if cls.startswith("DNSOther"):
            ctx.count("message.from_text.other:" + cls.split(":")[1])
        if m is not None:
            render_back(ctx, "message.from_text.value", m, rep, f"message parsed from text {t[:300]!r}")
    elif k == "tok":
        t = c["text"]

        def drain():
            tk = dns.tokenizer.Tokenizer(t)
            out = []
            for _ in range(10000):
                x = tk.get(want_leading=bool(c.get("wl")), want_comment=bool(c.get("wc")))
                if x.is_eof():
                    break
                out.append(x)
            return out

        cls, v, e = guarded(drain)
        report(ctx, "tokenizer.get", cls, rep, f"tokenizer on {t!r} raised {e!r}")
    else:
        raise ValueError(k)


def flush_reads(ctx: Ctx):
    """the reader-skeleton correspondence: skip ops the model declares unsupported"""
    from harness.core import run_driver
    pend = ctx.extra.pop("read_pending", [])
    if not pend or not ctx.driver_ok:
        return
    outs = run_driver(ctx.prop, [p[0] for p in pend])
    for (op, impl, special, case), model in zip(pend, outs):
        if model == "unsupported":
            ctx.count("read.model-unsupported")
            continue
        if special:
            ctx.count("read.special-skipped")
            continue
        ctx.corr_count += 1
        ctx.count("read.compared." + impl.split(" ")[0])
        if impl != model:
            from harness.core import Mismatch
            ctx.mismatches.append(Mismatch(op, impl, model, case))
            ctx.count("corr.mismatch")


def generate(ctx: Ctx, scale: int, rng):
    n = lambda q: max(1, q * scale)
    # --- wire
    for _ in range(n(1500)):
        base = build_message(rng)
        w = base if rng.chance(1, 6) else mutate(rng, base)
        opts = {k: True for k in OPTION_KEYS if rng.chance(1, 3)}
        if rng.chance(1, 4):
            opts["origin"] = True
        if rng.chance(1, 2):
            opts["keyring"] = rng.choice(["bytes", "bytes", "key", "callable", "false", "false"])
        c = {"kind": "msg", "wire": w.hex(), "opts": opts}
        ctx.case(("msg", w, str(sorted(opts))), sample=c if len(w) < 80 else None)
        eval_case(ctx, c)
    # messages whose OPT and TSIG records are large (each reserve fits a limit alone, not together; or neither fits):
    # accepted with keyring=False, then rendered again under several limits
    import struct as _st
    SIZES = [0, 16, 100, 400, 500, 20000, 33000, 40000, 60000]
    for _ in range(n(40)):
        s1, s2, s3 = rng.choice(SIZES), rng.choice(SIZES), rng.choice([0, 0, 6, 300])
        if rng.chance(1, 2):
            s1, s2 = rng.choice([100, 400, 500]), rng.choice([16, 100, 400])
        q = b"\x07example\x00" + _st.pack("!HH", 1, 1)
        opt = b"\x00" + _st.pack("!HHIH", 41, rng.choice([512, 1232, 4096]), 0, 4 + s1) + _st.pack("!HH", 65001, s1) + rng.bytes(8).ljust(s1, b"o")[:s1]
        alg = b"\x0bhmac-sha256\x00"
        trd = alg + b"\x00\x00" + _st.pack("!IHH", 1700000000, 300, s2) + rng.bytes(8).ljust(s2, b"m")[:s2] + _st.pack("!HHH", 0x1234, rng.choice([0, 0, 18]), s3) + b"t" * s3
        if len(trd) > 65535 or 4 + s1 > 65535:
            continue
        ts = b"\x03key\x07example\x00" + _st.pack("!HHIH", 250, 255, 0, len(trd)) + trd
        w = _st.pack("!HHHHHH", 0x1234, rng.choice([0, 0x8000]), 1, 0, 0, 2) + q + opt + ts
        c = {"kind": "msg", "wire": w.hex(), "opts": {"keyring": "false"},
             "limits": [[0, 0], [512, 0], [512, 1], [rng.choice([1232, 4096, 65535, 40000]), rng.below(2)]]}
        ctx.case(("msgbig", s1, s2, s3, w[:40]))
        eval_case(ctx, c)
    for _ in range(n(400)):
        w = rng.bytes(rng.choice([0, 5, 11, 12, 13, 20, 40]))
        c = {"kind": "msg", "wire": w.hex(), "opts": {k: True for k in OPTION_KEYS if rng.chance(1, 3)}}
        ctx.case(("msg", w, str(c["opts"])), sample=c)
        eval_case(ctx, c)
    for _ in range(n(3000)):
        w = build_model_message(rng)
        c = {"kind": "read", "wire": w.hex(), "cont": rng.below(2), "it": rng.below(2), "qo": 1 if rng.chance(1, 8) else 0}
        ctx.case(("read", w, c["cont"], c["it"], c["qo"]), sample=c if len(w) < 80 else None)
        eval_case(ctx, c)
    flush_reads(ctx)
    for _ in range(n(600)):
        from harness.props.C01 import gen_wire_soup
        b, off = gen_wire_soup(rng)
        c = {"kind": "name.wire", "wire": b.hex(), "off": off}
        ctx.case(("nw", b, off))
        eval_case(ctx, c)
    alltypes = sorted({(s["rdclass"], s["rdtype"]) for s in SAMPLES} | {(1, 41), (255, 250), (255, 249), (1, 6), (3, 1), (1, 65280)})
    for _ in range(n(3000)):
        if rng.chance(2, 3):
            s = rng.choice(SAMPLES)
            w = mutate(rng, bytes.fromhex(s["wire"]))
            rc, rt = s["rdclass"], s["rdtype"]
        else:
            rc, rt = rng.choice(alltypes)
            w = rng.bytes(rng.choice([0, 1, 2, 4, 7, 16, 33]))
        c = {"kind": "rdata.wire", "rdclass": rc, "rdtype": rt, "wire": w.hex(), "origin": rng.below(2)}
        ctx.case(("rw", rc, rt, w, c["origin"]), sample=c)
        eval_case(ctx, c)
    # bounded-exhaustive single-octet sweep: every octet of every sample record forced to boundary values
    # (drives every fixed-width field to its extremes, every length prefix to 0/255, every label type)
    sweep_vals = [0x00, 0xFF] if ctx.tier == "quick" else [0x00, 0xFF, 0x80, 0x10, 0x7F, 0x01, 0x3F, 0x40, 0xC0]
    if scale <= 20:
        for s in SAMPLES:
            w0 = bytes.fromhex(s["wire"])
            for i in range(len(w0)):
                for v in sweep_vals:
                    if w0[i] == v:
                        continue
                    w = w0[:i] + bytes([v]) + w0[i + 1:]
                    c = {"kind": "rdata.wire", "rdclass": s["rdclass"], "rdtype": s["rdtype"], "wire": w.hex(), "origin": 0}
                    ctx.case(("rw", s["rdclass"], s["rdtype"], w, 0))
                    eval_case(ctx, c)
                    ctx.count("sweep.rdata.wire")
    otypes = [int(o) for o in dns.edns.OptionType] + [0, 4, 14, 16, 17, 65001]
    UTF8 = ["", "en", "fr-\u00e7a", "\u00fc", "zh-\u4e2d\u6587", "\U0001f600", "a\x00b", "caf\u00e9 \u2713", "x" * 300, "\x7f", "\n", "q\r\n"]

    def structured_option_body(ot):
        """well-formed bodies of every implemented option: text carrying ones with valid non-ASCII UTF-8, ECS with every
        family/prefix shape, cookies of every legal length, EDE with and without text, a name for REPORT-CHANNEL"""
        import struct as _st
        txt = rng.choice(UTF8).encode("utf-8")
        if ot == 8:
            fam = rng.choice([1, 1, 2, 2, 0, 3])
            bits = rng.choice([0, 1, 7, 8, 9, 21, 24, 32, 33, 56, 64, 127, 128, 129])
            nb = (bits + 7) // 8
            return _st.pack("!HBB", fam, bits, rng.choice([0, 0, bits, 255])) + rng.bytes(nb + rng.choice([0, 0, 0, 1]) - rng.choice([0, 0, 0, 1]) if nb else 0)
        if ot == 10:
            return rng.bytes(8) + rng.bytes(rng.choice([0, 0, 8, 16, 32, 7, 33]))
        if ot == 15:
            return _st.pack("!H", rng.choice([0, 1, 24, 29, 65535])) + rng.choice([b"", txt, txt + b"\0", txt + b"\0\0"])
        if ot == 18:
            return rng.choice([b"\x05agent\x07example\x00", b"\x00", b"\xc0\x00", b"\x05agent"])
        if ot == 3:
            return rng.choice([txt, rng.bytes(rng.below(10))])
        return txt

    for _ in range(n(800)):
        ot = rng.choice(otypes)
        body = structured_option_body(ot) if rng.chance(1, 2) else rng.bytes(rng.choice([0, 1, 2, 3, 4, 5, 8, 9, 12, 20]))
        if rng.chance(1, 3):
            # the same option inside the OPT record of a message (parsing hashes the OPT rdata, i.e. re-encodes every option)
            import struct as _st
            opt_rdata = _st.pack("!HH", ot, len(body)) + body
            w = _st.pack("!HHHHHH", rng.below(65536), 0x8000, 0, 0, 0, 1) + b"\x00" + _st.pack("!HHIH", 41, 1232, 0, len(opt_rdata)) + opt_rdata
            c2 = {"kind": "msg", "wire": w.hex(), "opts": {}}
            ctx.case(("msg-opt", ot, body))
            eval_case(ctx, c2)
            c3 = {"kind": "rdata.wire", "rdclass": 1232, "rdtype": 41, "wire": opt_rdata.hex(), "origin": 0}
            ctx.case(("rw-opt", ot, body))
            eval_case(ctx, c3)
        c = {"kind": "edns.wire", "otype": ot, "wire": body.hex()}
        ctx.case(("ew", c["otype"], c["wire"]), sample=c)
        eval_case(ctx, c)
    # --- text
    from harness.props.C01 import gen_text_soup
    UNI = ["\\²", "\\1²2", "\\12³", "²", "é", "\\é", "\\٣", "\\1٣", "ß", "\u3002", "\uff0e", "xn--", "\\0é0", "a\\", "\ud7ff", "\U0001f600"]
    for _ in range(n(800)):
        t = gen_text_soup(rng) if rng.chance(2, 3) else soup(rng, rng.below(4))
        if rng.chance(1, 4):
            k = rng.below(len(t) + 1)
            t = t[:k] + rng.choice(UNI) + t[k:]
            if rng.chance(1, 2):
                t += rng.choice(UNI)
        c = {"kind": "name.text", "text": t, "origin": rng.choice(["none", "root", "ex"])}
        ctx.case(("nt", t, c["origin"]), sample=c)
        eval_case(ctx, c)
    units = ["", "w", "d", "h", "m", "s", "W", "S", "x", " ", "-", ".", "é", "٣"]
    for _ in range(n(600)):
        t = "".join(rng.choice(["0", "1", "9", "12", "4294967295", "4294967296", "99999999999999999999"]) + rng.choice(units) for _ in range(rng.choice([0, 1, 1, 2, 3])))
        if rng.chance(1, 5):
            t = mutate_text(rng, t)
        if rng.chance(1, 25):
            t = rng.choice(["1", "0", "9"]) * rng.choice([4299, 4300, 4301, 5000]) + rng.choice(["", "5", "s", "w"])
        if rng.chance(1, 8):
            # the 32-bit boundary reached through the units syntax
            t = rng.choice(["7101w", "7102w", "49710d", "49711d", "1193046h", "1193047h", "71582788m", "71582789m", "4294967295s",
                            "4294967296s", "49710d6h28m15s", "49710d6h28m16s", "7101w3d6h28m15s", "7101w3d6h28m16s", "1w4294967295s"])
        c = {"kind": "ttl", "text": t}
        ctx.case(("ttl", t), sample=c)
        eval_case(ctx, c)
    for _ in range(n(3000)):
        s = rng.choice(SAMPLES)
        m = rng.below(3)
        t = mutate_text(rng, s["text"]) if m < 2 else soup(rng)
        c = {"kind": "rdata.text", "rdclass": s["rdclass"], "rdtype": s["rdtype"], "text": t, "origin": rng.below(2), "relativize": rng.below(2)}
        if rng.chance(1, 4):
            c["rt"] = rng.choice(["example.", "sub.example.", ".", "other.", "@"])
        if rng.chance(1, 5):
            c["idna"] = rng.choice(["2003", "2008"])
        ctx.case(("rt", s["rdtype"], t, c["origin"], c["relativize"], c.get("rt"), c.get("idna")), sample=c)
        eval_case(ctx, c)
    for _ in range(n(1200)):
        lines = []
        for _ in range(rng.choice([1, 2, 3, 5])):
            m = rng.below(4)
            if m == 0:
                lines.append(soup(rng))
            else:
                s = rng.choice(SAMPLES)
                own = rng.choice([s["owner"], "@", "", "a", "x.y", "other.", " "])
                ln = f"{own} {rng.choice(['', '300', '1h', 'IN', '300 IN', 'IN 300', 'CH'])} {dns.rdatatype.to_text(s['rdtype'])} {s['text']}"
                lines.append(mutate_text(rng, ln) if m == 1 else ln)
        if rng.chance(1, 2):
            lines.insert(0, "@ 300 IN SOA ns. admin. 1 2 3 4 5")
        if rng.chance(1, 5):
            # $UNICODE selects the IDNA codec and the TXT style used when the zone is written again; ACE labels that
            # decode to anything at all (lone surrogates, controls, dots) must not break Zone.to_text()
            lines.insert(rng.below(len(lines) + 1), "$UNICODE " + rng.choice(["2008", "2003", "TXT", "2008 TXT", "2003 TXT", "1999", ""]))
            for _ in range(rng.choice([1, 2, 3])):
                ace = "xn--" + "".join(rng.choice("abcdefghijklmnopqrstuvwxyz0123456789-") for _ in range(rng.choice([1, 3, 5, 9, 12, 20])))
                ace = rng.choice([ace, ace, "xn--8g0cb0num", "xn--bcher-kva", "XN--BCHER-KVA", "xn--", "xn--a", "xn--0ca.xn--0ca"])
                lines.append(f"{ace} 300 IN {rng.choice(['A 10.0.0.1', 'TXT \"caf\\195\\169\"', 'TXT \"\\255\\254\"', 'CNAME ' + ace + '.example.'])}")
        t = "\n".join(lines) + rng.choice(["\n", "", "\n\n"])
        c = {"kind": "zone.text", "text": t, "origin": 0 if rng.chance(1, 6) else 1, "relativize": rng.below(2), "check_origin": rng.below(2)}
        if rng.chance(1, 3):
            zo = {}
            if rng.chance(1, 2):
                zo["factory"] = rng.choice(["versioned", "btree"])
            if rng.chance(1, 4):
                zo["rdclass"] = rng.choice(["CH", "HS", "IN"])
            if rng.chance(1, 3):
                zo["directives"] = rng.choice([False, True, [], ["$TTL"], ["ORIGIN", "$generate"], ["$UNICODE", "$TTL", "$ORIGIN"]])
            if rng.chance(1, 4):
                zo["idna"] = rng.choice(["2003", "2008"])
            c["zopts"] = zo
        ctx.case(("zt", t, c["origin"], c["relativize"], c["check_origin"], str(c.get("zopts"))), sample=c if len(t) < 120 else None)
        eval_case(ctx, c)
        if rng.chance(1, 3):
            c2 = {"kind": "rrsets.text", "text": t, "origin": rng.below(2), "relativize": rng.below(2), "name": rng.choice([None, "n", "n.example."]), "default_ttl": rng.choice([None, 300, "1h", 0])}
            if rng.chance(1, 3):
                c2["ttl"] = rng.choice([300, "2h", 0, 4294967295])
            if rng.chance(1, 3):
                c2["rdtype"] = rng.choice(["A", "TXT", 1, "TYPE65280"])
            if rng.chance(1, 4):
                c2["rdclass_none"] = 1
                c2["default_rdclass"] = rng.choice(["IN", "CH"])
            ctx.case(("rs", t, str(c2)))
            eval_case(ctx, c2)
    BAD_LINES = ["x IN NOSUCHTYPE 1", "x IN A 999.1.1.1", "x IN A", "x 300 IN MX ten mail", "x IN AAAA 1.2.3.4", "x IN TXT \"unterminated",
                 "$TTL", "$TTL abc", "$ORIGIN", "$NOSUCH foo", "x IN SOA a. b. 1 2 3 4", "\\300 IN A 1.2.3.4", "x..y IN A 1.2.3.4",
                 "x IN A 1.2.3.4 extra", "x 99999999999 IN A 1.2.3.4", "x 7102w IN A 1.2.3.4", "$TTL 49711d", "x 4294967296s IN A 1.2.3.4", "$GENERATE 1-3 a$ NOSUCHTYPE x", "$GENERATE 3-1 a$ A 1.2.3.4",
                 "x IN NSEC . TYPE99999", ") x IN A 1.2.3.4", "x IN CAA 0 issue", "x IN LOC 91 0 0 N 0 0 0 E 0"]
    for _ in range(n(400)):
        k = rng.range(1, 8)
        bad = rng.below(k)
        lines = [f"n{i} {rng.choice(['', '300', '1h'])} IN A 10.0.0.{i}" if rng.chance(3, 4) else f"n{i} IN TXT \"t {i}\" ; comment" for i in range(k)]
        lines[bad] = rng.choice(BAD_LINES)
        head = ["$TTL 300", "@ IN SOA ns. admin. 1 2 3 4 5"] if rng.chance(2, 3) else ["@ 300 IN SOA ns. admin. 1 2 3 4 5"]
        blank = [""] * rng.below(3)
        t = "\n".join(blank + head + lines) + "\n"
        c = {"kind": "zone.text", "text": t, "origin": 1, "relativize": rng.below(2), "check_origin": rng.below(2),
             "badline": len(blank) + len(head) + bad + 1, "filename": rng.choice([None, None, "db.example", "dir/zone file.txt"])}
        ctx.case(("zl", t, c["relativize"], c["check_origin"], c["filename"]), sample=c if len(t) < 200 else None)
        eval_case(ctx, c)
    # structured directives: every field of every directive drawn from legal, boundary, misspelt and missing values
    # (the $GENERATE modifier grammar ${offset,width,base} field by field) — each error branch of the directive
    # parsers is its own raise site and must raise the library's own SyntaxError with the file:line prefix
    TTLS_Z = ["0", "300", "4294967295", "4294967296", "-1", "1h", "7102w", "99999999999", "0x10"]
    G_RANGE = ["1-3", "0-0", "1-3/2", "2-8/3", "3-1", "1-", "-3", "a-b", "1-3/0", "1-3/x", "1", "1-3/", "", "1-3/-1", "1--3", "0x1-3", "1-3-5", "٣-٤"]
    G_OFF = ["0", "-1", "+2", "5", "x", "", "--1", "1.5", "99999999999", "-0", "+", "-"]
    G_WIDTH = ["0", "2", "x", "", "-1", "300", "2.0", "+2"]
    G_BASE = ["d", "o", "x", "X", "n", "N", "z", "D", "", "dd", "1", "\u00e9", "b", "O"]

    def g_mod():
        r = rng.below(12)
        if r == 0:
            return "$"
        if r == 1:
            return rng.choice(["$$", "\\$", "${}", "${", "${0,2,d", "$}", "${,,}", "${0,2,d,}", "${0,2,d,9}", "${ 0,2,d}", "$ {0,2,d}"])
        fields = [rng.choice(G_OFF), rng.choice(G_WIDTH), rng.choice(G_BASE)][: rng.choice([1, 2, 3, 3, 3])]
        return "${" + ",".join(fields) + "}"

    def g_side(kind):
        if kind == "name":
            return rng.choice(["h", "", "h-", "x.y"]) + g_mod() + rng.choice(["", "", ".sub", g_mod()])
        return kind.replace("$", g_mod()) if "$" in kind else kind

    G_RHS = {"A": ["10.0.0.$", "10.0.$.1", "$.0.0.1", "10.0.0.1"], "PTR": ["host$.example.", "$"], "CNAME": ["h$", "$.example."],
             "TXT": ['"t$"', "$"], "AAAA": ["2001:db8::$", "::$"], "MX": ["$ mail$.", "10 $"], "NS": ["ns$."], "DNAME": ["d$."],
             "SOA": ["ns. a. $ 2 3 4 5"], "NOSUCH": ["$"], "TYPE1": ["\\# 4 0a0000$"], "": [""]}
    for _ in range(n(900)):
        k = rng.below(4)
        if k == 0:
            ty = rng.choice(list(G_RHS))
            toks = ["$GENERATE", rng.choice(G_RANGE), g_side("name")]
            if rng.chance(1, 3):
                toks.append(rng.choice(TTLS_Z))
            if rng.chance(1, 3):
                toks.append(rng.choice(["IN", "CH", "CLASS1", "ANY", "BOGUS", "in"]))
            toks.append(ty)
            toks.append(g_side(rng.choice(G_RHS[ty])))
            line = " ".join(x for x in toks if x != "" or rng.chance(1, 2))
        elif k == 1:
            line = "$TTL " + rng.choice(TTLS_Z + ["1h30m", "1w2d", "h", "1hh", "1h1", "-1h", "1H", "abc", "", "300 extra", "300 ; c", "(300)"])
        elif k == 2:
            line = "$ORIGIN " + rng.choice(["sub", "sub.example.", ".", "@", "", "a..b", "\\300.", "x" * 64 + ".", "sub extra", "(sub)", '"sub."', "sub ; c"])
        else:
            line = rng.choice(["$INCLUDE", "$INCLUDE /nonexistent/verif-file", "$INCLUDE /nonexistent/verif-file sub.example.", "$INCLUDE \"\"", "$UNICODE", "$UNICODE x",
                               "$generate 1-2 a$ A 10.0.0.$", "$Ttl 300", "$", "$$", "$GENERATE", "$GENERATE 1-2", "$GENERATE 1-2 a$", "$GENERATE 1-2 a$ A", "$NOSUCH 1"])
        after = rng.choice([[], ["   IN TXT \"ownerless after directive\""], ["  300 IN A 10.9.9.9"], ["z IN A 10.1.1.1"]])
        head = ["$TTL 300", "@ IN SOA ns. admin. 1 2 3 4 5", "ns IN A 10.0.0.53"] if rng.chance(2, 3) else ["@ 300 IN SOA ns. admin. 1 2 3 4 5"]
        t = "\n".join(head + [line] + after) + "\n"
        c = {"kind": "zone.text", "text": t, "origin": 1, "relativize": rng.below(2), "check_origin": rng.below(2),
             "filename": rng.choice([None, None, "db.example"])}
        if rng.chance(1, 4):
            c["zopts"] = {"directives": rng.choice([True, ["$TTL", "$ORIGIN", "$GENERATE"], ["$GENERATE"]])}  # $INCLUDE stays disabled: opening a file is the environment, not the parser
        ctx.case(("zd", t, c["relativize"], c["check_origin"], c["filename"], str(c.get("zopts"))), sample=c if rng.chance(1, 40) else None)
        eval_case(ctx, c)
    for _ in range(n(500)):
        base = build_message(rng)
        try:
            t = dns.message.from_wire(base).to_text()
        except Exception:
            t = "id 1\nopcode QUERY\n;QUESTION\nexample. IN A\n"
        t = mutate_text(rng, t) if rng.chance(3, 4) else t
        c = {"kind": "msg.text", "text": t, "orr": rng.below(2), "origin": rng.below(2), "relativize": rng.below(2)}
        ctx.case(("mt", t, c["orr"], c["origin"], c["relativize"]))
        eval_case(ctx, c)
    CLS = ["IN", "CH", "HS", "NONE", "ANY", "CLASS1", "CLASS65535", "CLASS65536", "CLASS99999999999", "CLASS-1", "CLASSx", "BOGUS", "in", ""]
    TYP = ["A", "TXT", "SOA", "ANY", "OPT", "TSIG", "TYPE1", "TYPE65535", "TYPE65536", "TYPE99999999999", "TYPE-1", "TYPEx", "BOGUS", "a", ""]
    TTLS = ["", "0", "300", "4294967295", "4294967296", "-1", "0x10", "1h", "99999999999999999999"]
    RD = {"A": "10.0.0.1", "TXT": '"t"', "SOA": "ns. a. 1 2 3 4 5", "TYPE1": "\\# 4 0a000001", "a": "10.0.0.2"}
    for _ in range(n(1500)):
        # structured record lines in every section of every message kind: name [ttl] [class] type [rdata], with the
        # class / type / ttl tokens drawn from in-range, boundary, absurd and misspelt values (the question-line and the
        # rr-line parsers are two call sites that must treat these alike)
        op = rng.choice(["QUERY", "QUERY", "UPDATE", "NOTIFY", "IQUERY", "STATUS"])
        secs = [";ZONE", ";PREREQ", ";UPDATE", ";ADDITIONAL"] if op == "UPDATE" else [";QUESTION", ";ANSWER", ";AUTHORITY", ";ADDITIONAL"]
        lines = [f"id {rng.below(65536)}", f"opcode {op}"]
        for sec in secs:
            if rng.chance(2, 3):
                lines.append(sec)
                for _ in range(rng.choice([1, 1, 2])):
                    ty = rng.choice(TYP)
                    toks = [rng.choice(["example.", "www.example.", "@", "x", ""])]
                    if sec not in (";QUESTION", ";ZONE"):
                        toks.append(rng.choice(TTLS))
                    toks.append(rng.choice(CLS))
                    toks.append(ty)
                    if sec not in (";QUESTION", ";ZONE") and rng.chance(3, 4):
                        toks.append(RD.get(ty, rng.choice(["10.0.0.1", '"x"', ""])))
                    lines.append(" ".join(t_ for t_ in toks if t_ != "") if rng.chance(7, 8) else " ".join(toks))
        t = "\n".join(lines) + "\n"
        c = {"kind": "msg.text", "text": t, "orr": rng.below(2), "origin": rng.below(2), "relativize": rng.below(2)}
        ctx.case(("mt", t, c["orr"], c["origin"], c["relativize"]), sample=c if len(t) < 160 else None)
        eval_case(ctx, c)
    for _ in range(n(1500)):
        # header-line soups: every header keyword with in-range, boundary and absurd operands
        k = rng.below(14) + 1
        t = " ".join(rng.choice(MSG_WORDS) for _ in range(k)).replace(" \n ", "\n")
        c = {"kind": "msg.text", "text": t, "orr": rng.below(2)}
        ctx.case(("mt", t, c["orr"]), sample=c if len(t) < 100 else None)
        eval_case(ctx, c)
    for _ in range(max(6, n(6) // 2)):
        try:
            w = build_big_message(rng)
        except Exception as e_:  # generator problem, not a verdict
            ctx.count("gen.big-message-failed:" + type(e_).__name__)
            continue
        c = {"kind": "msg", "wire": w.hex(), "opts": {}}
        ctx.case(("msg-big", w))
        eval_case(ctx, c)
        ctx.count("msg.big")
    for rdlen in (65535, 65534, 65279):
        # one record with the largest RDATA a message can carry
        import struct as _st
        body = b"".join(b"\xff" + b"z" * 255 for _ in range(rdlen // 256)) 
        body += bytes([rdlen - len(body) - 1]) + b"y" * (rdlen - len(body) - 1) if rdlen - len(body) >= 1 else b""
        w = _st.pack("!HHHHHH", 7, 0x8400, 0, 1, 0, 0) + b"\x01a\x00" + _st.pack("!HHIH", 16, 1, 300, len(body)) + body
        c = {"kind": "msg", "wire": w.hex(), "opts": {}}
        ctx.case(("msg-maxrdata", rdlen))
        eval_case(ctx, c)
        c = {"kind": "rdata.wire", "rdclass": 1, "rdtype": 16, "wire": body.hex(), "origin": 0}
        ctx.case(("rw-maxrdata", rdlen))
        eval_case(ctx, c)
    for _ in range(n(2500)):
        w = gen_parser_wire(rng)
        lib = rng.chance(1, 2)
        prog = gen_prog(rng, 3, lib, len(w))
        c = {"kind": "parser", "wire": w.hex(), "cur": rng.choice([0, 0, 0, 1, 2, len(w), len(w) + 1]), "prog": prog, "lib": int(lib)}
        ctx.case(("parser", w, c["cur"], str(prog)), sample=c if len(str(prog)) < 120 else None)
        eval_case(ctx, c)
    # type-specific numeric boundaries reached through text: the largest/smallest values of fields whose wire
    # encoding is narrower than what the text syntax can say (LOC altitude/size/precision/angles, 8/16/32-bit fields)
    LOC_ALT = ["-100000.00m", "-100000.01m", "-99999.99m", "42849672.95m", "42849672.96m", "42849672.97m", "42849673m", "0m", "-0.00m"]
    LOC_SZ = ["0m", "0.00m", "0.009m", "0.01m", "90000000.00m", "90000000.01m", "99999999.99m", "100000000m", "1m"]
    LOC_LAT = ["90 0 0.000 N", "90 0 0.001 N", "89 59 59.999 S", "90 N", "91 N", "0 0 0 N", "90 0 0.000 S"]
    LOC_LON = ["180 0 0.000 E", "180 0 0.001 W", "179 59 59.999 W", "180 E", "181 E", "0 0 0 E"]
    for _ in range(n(150)):
        t = f"{rng.choice(LOC_LAT)} {rng.choice(LOC_LON)} {rng.choice(LOC_ALT)}"
        for _k in range(rng.below(4)):
            t += " " + rng.choice(LOC_SZ)
        c = {"kind": "rdata.text", "rdclass": 1, "rdtype": 29, "text": t, "origin": 0, "relativize": 0, "all_styles": 1}
        ctx.case(("rt-loc", t))
        eval_case(ctx, c)
        if rng.chance(1, 3):
            c = {"kind": "zone.text", "text": f"@ 300 IN SOA ns. a. 1 2 3 4 5\n@ 300 IN NS ns.\nl 300 IN LOC {t}\n", "origin": 1, "relativize": 1, "check_origin": 1}
            ctx.case(("zt-loc", t))
            eval_case(ctx, c)
    BOUND = ["0", "1", "127", "128", "255", "256", "32767", "32768", "65535", "65536", "2147483647", "2147483648", "4294967295", "4294967296",
             "281474976710655", "281474976710656", "18446744073709551615", "18446744073709551616", "-1"]
    for _ in range(n(1200)):
        s_ = rng.choice(SAMPLES)
        toks = s_["text"].split(" ")
        idx = [i for i, tk in enumerate(toks) if tk.isdigit()]
        if not idx:
            continue
        toks[rng.choice(idx)] = rng.choice(BOUND)
        if len(idx) > 1 and rng.chance(1, 3):
            toks[rng.choice(idx)] = rng.choice(BOUND)
        t = " ".join(toks)
        c = {"kind": "rdata.text", "rdclass": s_["rdclass"], "rdtype": s_["rdtype"], "text": t, "origin": 0, "relativize": 0}
        ctx.case(("rt-bound", s_["rdtype"], t))
        eval_case(ctx, c)
    # records with key / signature / digest material: every algorithm number with material of 0..4 octets (the
    # algorithm-specific code paths — key tags, truncated-crypto styles — see the shortest values the parsers accept)
    for rt, head in ((48, "0100 03"), (60, "0101 03"), (25, "0200 03")):
        for alg in (0, 1, 2, 3, 5, 8, 13, 15, 16, 253, 254, 255):
            for klen in range(0, 5):
                w = bytes.fromhex(head.replace(" ", "")) + bytes([alg]) + rng.bytes(klen)
                c = {"kind": "rdata.wire", "rdclass": 1, "rdtype": rt, "wire": w.hex(), "origin": 0, "all_styles": 1}
                ctx.case(("rw-crypto", rt, alg, klen, w))
                eval_case(ctx, c)
                if klen:
                    import base64 as _b64
                    c = {"kind": "rdata.text", "rdclass": 1, "rdtype": rt, "text": f"{256 + (rt == 25)} 3 {alg} {_b64.b64encode(w[4:]).decode()}", "origin": 0, "relativize": 0, "all_styles": 1}
                    ctx.case(("rt-crypto", rt, alg, klen, w))
                    eval_case(ctx, c)
    for _ in range(n(800)):
        t = soup(rng)
        c = {"kind": "tok", "text": t, "wl": rng.below(2), "wc": rng.below(2)}
        ctx.case(("tok", t, c["wl"], c["wc"]), sample=c)
        eval_case(ctx, c)


def run(ctx: Ctx):
    import glob
    for p in sorted(glob.glob(os.path.join(VERIF, "corpus", "C04", "case-*.json"))):
        c = json.load(open(p))
        ctx.case(("corpus", p))
        eval_case(ctx, c)
        ctx.count("corpus")
    for famc in ("F", "S"):
        for exc in WRAP_ZOO:
            c = {"kind": "wrap", "family": famc, "exc": exc}
            ctx.case(("wrap", famc, exc))
            eval_case(ctx, c)
    flush_reads(ctx)
    generate(ctx, 1 if ctx.tier == "quick" else 20, ctx.rng)


def search(ctx: Ctx):
    for m in ctx.mismatches[:50]:
        if m.case is not None:
            eval_case(ctx, m.case)
    flush_reads(ctx)
    generate(ctx, 3 if ctx.tier == "quick" else 30, ctx.rng.fork(11))


def replay(ctx: Ctx, obj: dict):
    eval_case(ctx, obj["case"])
    flush_reads(ctx)
    return [f.what for f in ctx.failures]


LEVEL = {
    "text": "Lean 4: the modelled parsers (name text/wire decoders, TTL parser, dns.wirebase.Parser as a state machine over arbitrary routines of get_bytes/get_counted_bytes/get_remaining/seek/get_name calls, nested restrict_to/restore_furthest blocks and FormError handlers, the _WireReader skeleton with its continue_on_error bookkeeping) are total functions into an error sum (termination = acceptance by Lean), with theorems that every value they return is well formed and renders again, that continue_on_error never raises after the header and records an error exactly when strict mode raises, agreeing with strict mode on clean input; that no Parser routine whatsoever is handed octets from beyond the wire or leaves `end` unrestored (parser_window), and that routines in the fragment of the Parser API the library uses end with a value or FormError only (parser_lib_only_form_error; the raw API can trip get_bytes' assertion, exhibited by an example and replayed on the implementation); that whatever a type-specific RDATA parser raises, what leaves dns.rdata.from_wire/from_text through ExceptionWrapper is in the FormError/SyntaxError family (wrapper_closed; tie: 26 exception classes x 2 families). The universal 'no foreign exception, no hang' clause over every entry point and option combination is carried by the outcome-class correspondence/oracle (differential fuzzing of all entry points against the {value, library error family} classification), which is exploration, labelled as such.",
    "note": "Trusted: Lean kernel; classification of exception classes (DESIGN §6 reading); generators. The model covers names, TTLs, dns.wirebase.Parser, ExceptionWrapper and the message reader skeleton over a subset of record types; RDATA/zone-file/tokenizer/textual-message parsers are covered by the outcome-class oracle only (partial). dns.message.from_text is held to the own-hierarchy / no-hang / renders-back clauses only (DESIGN §11). Recorded findings: dns.edns.option_from_wire of a malformed ECS body raises ValueError (pinned by the suite), $GENERATE with an absurd width (MemoryError) or range (hang).",
    "technique": "Lean 4 totality/closure theorems on parser models + outcome-class correspondence and fuzz oracle on every parser entry point",
    "design_ref": "DESIGN.md §7 C04",
}
